import PlasVerif.Model.Numbering
/-!
Spec for C08, written from the property text and LaTeX's own rules (latex.ltx, classes.dtx), not from plasTeX:

* the reset *forest* (`\newcounter{a}[b]`, `\@addtoreset`) and `Within` = "declared within, transitively";
* `\stepcounter` adds one and zeroes every counter within it (transitively); `\setcounter` / `\addtocounter`
  change that one counter only;
* the standard representations: roman numerals by the additive/subtractive digit table, `\alph`/`\Alph` by position;
* `\the…` of the standard classes (book: `\thesection = \thechapter.\arabic{section}`, figures/tables/equations
  prefixed by the chapter only when the chapter number is positive; article: `\thesection =
  \arabic{section}`, plain equation/figure/table numbers; after `\appendix` the top unit prints `\Alph`);
* which object prints a number: not the starred forms, not sectioning deeper than `secnumdepth`, not `eqnarray`
  rows with `\nonumber`; enumerate items count 1, 2, 3 … within their list and `\item[label]` does not count;
  theorem-like environments use their own counter, a shared one, or one numbered within a unit.

`LState`/`lstep` is an executable LaTeX-side oracle over the same event vocabulary as the model (`Model.Numbering.Ev`);
it is deliberately organised differently from the model (ancestor walk instead of recursive reset, a stack of item
counts instead of `enumi…enumiv`, a table of print-parents instead of format strings).
-/
namespace PlasVerif.Spec.NumberingRules
open PlasVerif.Model.Counters PlasVerif.Model.Numbering

/-- the declarations `(counter, within)` -/
abbrev Forest := List (String × Option String)

/-- `x` is declared within `c`, transitively (non-reflexive) -/
inductive Within (F : Forest) : String → String → Prop where
  | direct {x c : String} : (x, some c) ∈ F → c ≠ "" → Within F x c
  | trans {x y c : String} : Within F x y → Within F y c → Within F x c

/-! ## standard representations -/

/-- one decimal digit of a roman numeral with the symbols for 1, 5 and 10 of that position -/
def digit (one five ten : Char) : Nat → List Char
  | 0 => []
  | 1 => [one]
  | 2 => [one, one]
  | 3 => [one, one, one]
  | 4 => [one, five]
  | 5 => [five]
  | 6 => [five, one]
  | 7 => [five, one, one]
  | 8 => [five, one, one, one]
  | 9 => [one, ten]
  | _ => []

def thousands : Nat → List Char
  | 0 => []
  | n + 1 => 'M' :: thousands n

/-- the three low decimal digits -/
def romanLow (m : Nat) : List Char :=
  digit 'C' 'D' 'M' (m / 100 % 10) ++ digit 'X' 'L' 'C' (m / 10 % 10) ++ digit 'I' 'V' 'X' (m % 10)

/-- the standard upper-case roman numeral of `n` (TeX's `\romannumeral`, upper-cased), as characters -/
def romanChars (n : Nat) : List Char := thousands (n / 1000) ++ romanLow (n % 1000)

def roman (n : Nat) : String := String.ofList (romanChars n)

def romanLower (n : Nat) : String :=
  String.ofList ((romanChars n).map fun c =>
    if c = 'M' then 'm' else if c = 'D' then 'd' else if c = 'C' then 'c' else if c = 'L' then 'l'
    else if c = 'X' then 'x' else if c = 'V' then 'v' else if c = 'I' then 'i' else c)

/-- `\Alph`: the n-th capital letter, 1 ≤ n ≤ 26 -/
def alphUpper (n : Nat) : String := String.singleton (Char.ofNat (64 + n))
/-- `\alph` -/
def alphLower (n : Nat) : String := String.singleton (Char.ofNat (96 + n))

/-! ## lists: the stack discipline of LaTeX's enumerate, and the well-formedness of a class table for it -/

/-- the four list counters of the standard classes, outermost first -/
def enumNames : List String := ["enumi", "enumii", "enumiii", "enumiv"]

/-- position of a list counter (4 for anything else) -/
def eidx (x : String) : Nat := enumNames.idxOf x

/-- decidable well-formedness of a reset table for lists: a list counter is reset, if at all, only by a list counter
    of an outer level (plasTeX declares the chain `enumi ⊃ enumii ⊃ enumiii ⊃ enumiv`, LaTeX declares none - both
    qualify).  Consequently stepping a list counter never disturbs an outer list, and stepping anything else never
    disturbs a list. -/
def enumChainB (F : Forest) : Bool :=
  F.all fun e => !(enumNames.contains e.1) ||
    match e.2 with
    | none => true
    | some p => enumNames.contains p && decide (eidx p < eidx e.1)

/-- decidable hypothesis "`\theenum… = \arabic{enum…}`" on the `\the…` table -/
def enumThesB (thes : TheEnv) : Bool :=
  enumNames.all fun n => thes.lookup ("the" ++ n) == some { pieces := [.ref n none], trimLeft := false }

/-- the four list counters of a stack of open lists (innermost first): the counts of the open lists, outermost
    first, then zeros -/
def levels (stk : List Nat) : List Nat := (stk.reverse ++ List.replicate 4 0).take 4

/-- The state is consistent with the stack `stk` of item counts of the open lists (innermost first):
    `List.depth` is the number of open lists (at most four), the list counter of every open list holds its count,
    **every list counter at index ≥ depth is 0** (the invariant `List.invoke` maintains), a list counter is reset
    only by outer list counters (`enumChainB`), `\theenum…` is arabic, and no theorem-like environment
    runs on a list counter. -/
def ListInv (st : St) (stk : List Nat) : Prop :=
  st.depth = (stk.length : Int) ∧ stk.length ≤ 4 ∧
  enumNames.map (val st.store) = (levels stk).map (fun (n : Nat) => some (n : Int)) ∧
  enumChainB (skel st.store) = true ∧ enumThesB st.thes = true ∧
  st.envs.all (fun e => !(enumNames.contains e.2)) = true

instance (st : St) (stk : List Nat) : Decidable (ListInv st stk) := by unfold ListInv; infer_instance

/-- events that do not interfere with list numbering: no explicit manipulation of `enumi…enumiv`, no object or
    theorem-like environment numbered by a list counter, no `\appendix` unit that is a list counter.
    (The list events themselves and every other event are safe.) -/
def listSafe : Ev → Bool
  | .construct _ c starred _ => starred || !(enumNames.contains c)
  | .setc n _ | .addc n _ | .stepc n => !(enumNames.contains n)
  | .newtheorem name shared _ _ => !(enumNames.contains name) && !(enumNames.contains (shared.getD ""))
  | .appendix c => !(enumNames.contains c)
  | .renewThe c _ => !(enumNames.contains c)
  | .setcv n _ | .addcv n _ | .initc n _ => !(enumNames.contains n)
  | _ => true

/-- LaTeX's rule for the stack of item counts: `\begin{list}` opens a list with count 0 (at most four deep),
    `\end{list}` closes it, an unlabelled `\item` adds one to the innermost count, `\item[label]` and every other
    event leave the stack alone.  `none` = not a well-nested history. -/
def stackStep (stk : List Nat) : Ev → Option (List Nat)
  | .beginList => if stk.length < 4 then some (0 :: stk) else none
  | .endList => match stk with | [] => none | _ :: r => some r
  | .item _ hasTerm => match stk with | [] => none | k :: r => some ((if hasTerm then k else k + 1) :: r)
  | _ => some stk

def stackAfter : List Nat → List Ev → Option (List Nat)
  | stk, [] => some stk
  | stk, e :: es => match stackStep stk e with | some stk' => stackAfter stk' es | none => none

/-- what a history made of list events only prints, in order: an unlabelled item prints its position among the
    unlabelled items of its own list (1, 2, 3 …, restarting at 1 in every list, nested or not), a labelled item
    prints nothing -/
def itemTrace : List Nat → List Ev → Option (List Out)
  | _, [] => some []
  | stk, .beginList :: es => if stk.length < 4 then itemTrace (0 :: stk) es else none
  | _ :: r, .endList :: es => itemTrace r es
  | k :: r, .item tag false :: es => (itemTrace ((k + 1) :: r) es).map (⟨tag, some (toString (k + 1))⟩ :: ·)
  | k :: r, .item tag true :: es => (itemTrace (k :: r) es).map (⟨tag, none⟩ :: ·)
  | _, _ => none

/-! ## "no intervening reset or set": events that leave a family of counters alone -/

/-- `A` is closed under "is reset by": whatever a counter of `A` is declared within belongs to `A` too.  (For a
    counter `c`, take `A` = `c` and everything above it in the reset forest: `[c]` for a top-level counter,
    `["subsection", "section", "chapter", "volume"]` for the subsection counter of book, …) -/
def closedB (F : Forest) (A : List String) : Bool :=
  F.all fun e => !(A.contains e.1) || match e.2 with | none => true | some p => A.contains p

/-- the counters an event may step, set, create or redeclare, in the state where it happens (list events are
    charged with all four list counters) -/
def targets (st : St) : Ev → List String
  | .construct _ c starred _ => if starred then [] else [c]
  | .thm env => match st.envs.lookup env with | none => [] | some c => [c]
  | .setc n _ | .addc n _ | .stepc n => [n]
  | .newcounter n _ => [n]
  | .newtheorem name _ _ _ => [name]
  | .beginList | .endList | .item _ _ => enumNames
  | .eqnBegin | .eqRow | .nonumber => ["equation"]
  | .appendix c => [c]
  | .show _ c => [c]            -- reading a missing counter creates it
  | .showThe _ | .renewThe _ _ => []
  | .setcv n m | .addcv n m => [n, m]
  | .initc n _ => [n]

/-- the event does not touch any counter of `A` -/
def avoids (A : List String) (st : St) (e : Ev) : Bool := (targets st e).all fun t => !(A.contains t)

/-- every event of the history, in the state where it happens, avoids `A` (executable, decidable) -/
def historyAvoids (A : List String) : St → List Ev → Bool
  | _, [] => true
  | st, e :: es => avoids A st e && match step st e with | .ok st' => historyAvoids A st' es | .error _ => true

/-! ## `\the…` formats: nested substitution -/

/-- the last step of a `\the…` macro: join the pieces, strip leading `0.` groups when `trimLeft` is set -/
def finish (d : TheDef) (parts : List String) : String :=
  if d.trimLeft then trimLeftStr (String.join parts) else String.join parts

/-- **Nested substitution**, declaratively: `Subst env s self ps rs` says that the pieces `ps` of the format of the
    macro `self` denote the strings `rs`, piece by piece -
    literal text denotes itself; a reference `${n.fmt}` to a counter denotes the representation `fmt` (default
    arabic) of its value; a reference `${the…}` to another macro denotes *that macro's own* format, substituted
    recursively and finished with *its own* `trimLeft`.  No fuel, no evaluation order: the least relation closed
    under these rules. -/
inductive Subst (env : TheEnv) (s : Store) : Name → List Piece → List String → Prop where
  | nil {self : Name} : Subst env s self [] []
  | lit {self : Name} {t : String} {ps : List Piece} {rs : List String} :
      Subst env s self ps rs → Subst env s self (.lit t :: ps) (t :: rs)
  | counter {self n : Name} {f : Option String} {r : String} {ps : List Piece} {rs : List String} :
      isMacroRef self n = false → represent (valD s n) (f.getD "arabic") = .ok r →
      Subst env s self ps rs → Subst env s self (.ref n f :: ps) (r :: rs)
  | nested {self n : Name} {f : Option String} {d : TheDef} {parts : List String} {ps : List Piece} {rs : List String} :
      isMacroRef self n = true → env.lookup n = some d → Subst env s n d.pieces parts →
      Subst env s self ps rs → Subst env s self (.ref n f :: ps) (finish d parts :: rs)
  | call {self n : Name} {fm : String} {r : String} {ps : List Piece} {rs : List String} :
      represent (valD s n) fm = .ok r → Subst env s self ps rs → Subst env s self (.call fm n :: ps) (r :: rs)
  | macro {self n : Name} {d : TheDef} {parts : List String} {ps : List Piece} {rs : List String} :
      env.lookup n = some d → Subst env s n d.pieces parts →
      Subst env s self ps rs → Subst env s self (.macro n :: ps) (finish d parts :: rs)

/-- what `\the…` (the macro `m`) prints -/
def Denotes (env : TheEnv) (s : Store) (m : Name) (r : String) : Prop :=
  ∃ d parts, env.lookup m = some d ∧ Subst env s m d.pieces parts ∧ r = finish d parts

/-- decidable acyclicity certificate for a `\the…` table: a rank under which every nested `${the…}` reference goes
    to a macro of strictly lower rank -/
def macroRankedB (env : TheEnv) (rank : Name → Nat) : Bool :=
  env.all fun e => e.2.pieces.all fun p =>
    match p with
    | .ref n _ => !(isMacroRef e.1 n) || decide (rank n < rank e.1)
    | .macro n => decide (rank n < rank e.1)
    | .lit _ => true
    | .call _ _ => true

/-- a rank for the `\the…` macros of the standard classes: `\thechapter` < `\thesection` < … ; everything else
    (equation, figure, table, list and user counters, which refer at most to these) above them -/
def stdRank (m : Name) : Nat :=
  ["thechapter", "thesection", "thesubsection", "thesubsubsection", "theparagraph", "thesubparagraph",
   "thesubsubparagraph"].idxOf m

/-! ## the format mini-language: grammar and rendering -/

/-- a format as its author means it: literal text and references `${name}` / `${name.representation}` -/
inductive FItem where
  | text (s : List Char)
  | ref (name : List Char) (fmt : Option (List Char))
  deriving DecidableEq, Repr

def renderItem : FItem → List Char
  | .text s => s
  | .ref n none => '$' :: '{' :: (n ++ ['}'])
  | .ref n (some f) => '$' :: '{' :: (n ++ '.' :: (f ++ ['}']))

/-- the format string that spells the items -/
def renderFormat (items : List FItem) : List Char := items.flatMap renderItem

def wordB (w : List Char) : Bool := !w.isEmpty && w.all isWord
/-- a counter name as the author writes it inside `${…}`: non-empty, no blanks, dots, braces or `$` (e.g. `main-thm`) -/
def nameB (w : List Char) : Bool := !w.isEmpty && w.all fun c => isNameChar c && c != '$'

/-- well-formed items: names are non-empty counter names, representations non-empty words, literal text is non-empty, contains no `$`,
    and two literal texts are not adjacent (they would be one) -/
def wfItems : List FItem → Bool
  | [] => true
  | .text s :: rest =>
    !s.isEmpty && s.all (· != '$') && (match rest with | .text _ :: _ => false | _ => true) && wfItems rest
  | .ref n fm :: rest => nameB n && (match fm with | none => true | some f => wordB f) && wfItems rest

def FItem.toPiece : FItem → Piece
  | .text s => .lit (String.ofList s)
  | .ref n fm => .ref (String.ofList n) (fm.map String.ofList)

/-! ## executable oracle for `\the…` formats (used by the `fmt` stream and the failing-input search) -/

/-- the standard representation of a counter value in its range (`none` outside the ranges the property names) -/
def stdRepresent (v : Int) (fmt : String) : Option String :=
  let n := v.toNat
  match fmt with
  | "arabic" => some (toString v)
  | "Roman" => if 1 ≤ v ∧ v < 5000 then some (roman n) else none
  | "roman" => if 1 ≤ v ∧ v < 5000 then some (romanLower n) else none
  | "Alph" => if 1 ≤ v ∧ v ≤ 26 then some (alphUpper n) else none
  | "alph" => if 1 ≤ v ∧ v ≤ 26 then some (alphLower n) else none
  | _ => none

/-- how many `0.` groups a text starts with -/
def zeroGroups : List Char → Nat
  | '0' :: '.' :: r => zeroGroups r + 1
  | _ => 0

/-- `trimLeft`, stated independently of the code's loop: *only a prefix* is removed - the leading `0.` groups
    (what book/report use to print figure `3` instead of `0.3` before the first chapter); a `0.` further to the right,
    as in `10.1`, is part of the number -/
def stripZeroGroups (t : String) : String := String.ofList (t.toList.drop (2 * zeroGroups t.toList))

/-- nested substitution as a function: literal text, standard representations, `${the…}` by recursion with the
    referenced macro's own `trimLeft`; `none` = outside the domain (undefined macro, value outside the range of its
    representation, cyclic table) -/
def substEval : Nat → TheEnv → Store → Name → Option String
  | 0, _, _, _ => none
  | f + 1, env, s, self =>
    match env.lookup self with
    | none => none
    | some d =>
      (d.pieces.mapM fun (p : Piece) =>
        match p with
        | Piece.lit t => some t
        | Piece.ref n fm =>
          if isMacroRef self n then substEval f env s n else stdRepresent (valD s n) (fm.getD "arabic")
        | Piece.call fm n => stdRepresent (valD s n) fm
        | Piece.macro n => substEval f env s n).map fun parts =>
        let t := String.join parts
        if d.trimLeft then stripZeroGroups t else t

/-- decidable hypothesis on a `\the…` table: figures and tables are printed `\thechapter.\arabic{…}` with `trimLeft`,
    and `\thechapter` is the arabic chapter number (the book / report / article tables before `\appendix`) -/
def floatFormatsB (thes : TheEnv) : Bool :=
  thes.lookup "thefigure" == some { pieces := [.ref "thechapter" none, .lit ".", .ref "figure" none], trimLeft := true } &&
  thes.lookup "thetable" == some { pieces := [.ref "thechapter" none, .lit ".", .ref "table" none], trimLeft := true } &&
  thes.lookup "thechapter" == some { pieces := [.ref "chapter" none], trimLeft := false }

/-! ## LaTeX-side oracle -/

inductive Cls where | book | article
  deriving DecidableEq, Repr

structure LState where
  cls : Cls
  vals : List (String × Int)
  /-- `(counter, the counter it is reset by)` -/
  parent : List (String × String)
  /-- user theorem counters printed as `\the<within>.\arabic{c}` -/
  thmWithin : List (String × String)
  envs : List (String × String)
  appendix : Bool
  secnumdepth : Int
  /-- item counts of the open lists, innermost first -/
  lists : List Nat
  /-- `\the…` macros the document redefined with `\renewcommand`: counter ↦ body -/
  userThe : List (String × List Piece) := []
  outs : List Out
  deriving Repr

def getV (S : LState) (c : String) : Int := (S.vals.lookup c).getD 0
def hasC (S : LState) (c : String) : Bool := (S.vals.lookup c).isSome
def setV (S : LState) (c : String) (v : Int) : LState :=
  { S with vals := S.vals.map fun p => if p.1 == c then (p.1, v) else p }

/-- is `c` a proper ancestor of `d` in the reset forest (walk up from `d`) -/
def isAncestor (parent : List (String × String)) : Nat → String → String → Bool
  | 0, _, _ => false
  | f + 1, d, c =>
    match parent.lookup d with
    | none => false
    | some p => p == c || isAncestor parent f p c

/-- `\stepcounter{c}` -/
def lstepc (S : LState) (c : String) : LState :=
  { S with vals := S.vals.map fun p =>
      if p.1 == c then (p.1, p.2 + 1)
      else if isAncestor S.parent (S.vals.length + 1) p.1 c then (p.1, 0) else p }

/-- the unit whose number prefixes `\the c` in the standard classes -/
def printParent (S : LState) (c : String) : Option String :=
  match S.thmWithin.lookup c with
  | some w => some w
  | none =>
    match c with
    | "subsection" => some "section"
    | "subsubsection" => some "subsection"
    | "paragraph" => some "subsubsection"
    | "subparagraph" => some "paragraph"
    | "section" => if S.cls = .book then some "chapter" else none
    -- book.cls: `\theequation`, `\thefigure`, `\thetable` = `\ifnum\c@chapter>\z@ \thechapter.\fi \@arabic\c@…`
    | "equation" | "figure" | "table" => if S.cls = .book ∧ getV S "chapter" > 0 then some "chapter" else none
    | _ => none

def appendixUnit (S : LState) : String := if S.cls = .book then "chapter" else "section"

/-- `\the c`: a user redefinition if there is one (literal text, `\arabic{..}`-style calls with the standard
    representations, other `\the…` macros), else the class's own definition; `none` when a value is outside the range
    of its representation -/
def theL (S : LState) : Nat → String → Option String
  | 0, _ => none
  | f + 1, c =>
    match S.userThe.lookup c with
    | some body =>
      (body.mapM fun (p : Piece) =>
        match p with
        | Piece.lit t => some t
        | Piece.call fm n => stdRepresent (getV S n) fm
        | Piece.macro m => theL S f (m.drop 3).toString
        | Piece.ref _ _ => none).map String.join
    | none =>
      let own := if S.appendix ∧ c = appendixUnit S then alphUpper (getV S c).toNat
        else if c = "part" then roman (getV S c).toNat      -- `\thepart = \Roman{part}` in book, report and article
        else toString (getV S c)
      match printParent S c with
      | none => some own
      | some p => (theL S f p).map fun pre => pre ++ "." ++ own

def emit (S : LState) (tag : String) (r : Option String) : LState := { S with outs := ⟨tag, r⟩ :: S.outs }

/-- a numbered object of counter `c`: `\refstepcounter{c}` then print `\the c` -/
def lnumbered (S : LState) (tag c : String) : Option LState :=
  if hasC S c then
    let S1 := lstepc S c
    (theL S1 (S1.vals.length + S1.userThe.length + 2) c).map fun r => emit S1 tag (some r)
  else none

/-- one event under LaTeX's rules; `none` = outside the property's domain (LaTeX itself reports an error) -/
def lstep (S : LState) : Ev → Option LState
  | .construct tag c starred level =>
    if starred then some (emit S tag none)
    else if level ≤ endSectionsLevel ∧ level > S.secnumdepth then some (emit S tag none)
    else lnumbered S tag c
  | .thm env =>
    match S.envs.lookup env with
    | none => none
    | some c => if c == "" then some (emit S "thmenv" none) else lnumbered S "thmenv" c
  | .setc n v => if hasC S n then some (setV S n v) else none
  | .addc n v => if hasC S n then some (setV S n (getV S n + v)) else none
  | .stepc n => if hasC S n then some (lstepc S n) else none
  | .newcounter n within =>
    if hasC S n then none
    else match within with
      | none => some { S with vals := S.vals ++ [(n, 0)] }
      | some w => if hasC S w then some { S with vals := S.vals ++ [(n, 0)], parent := (n, w) :: S.parent } else none
  | .newtheorem name shared within starred =>
    if starred then some { S with envs := (name, "") :: S.envs }
    else match shared with
      | some sh =>
        match S.envs.lookup sh with
        | some c => if c == "" then none else some { S with envs := (name, c) :: S.envs }
        | none => none
      | none =>
        if hasC S name then none
        else match within with
          | none => some { S with vals := S.vals ++ [(name, 0)], envs := (name, name) :: S.envs }
          | some w =>
            if hasC S w then
              some { S with vals := S.vals ++ [(name, 0)], envs := (name, name) :: S.envs,
                            parent := (name, w) :: S.parent, thmWithin := (name, w) :: S.thmWithin }
            else none
  | .beginList =>
    -- LaTeX: "Too deeply nested" beyond four levels of one kind; the property's documents stay within four in total
    if S.lists.length ≥ 4 then none else some { S with lists := 0 :: S.lists }
  | .endList => match S.lists with | [] => none | _ :: r => some { S with lists := r }
  | .item tag hasTerm =>
    match S.lists with
    | [] => none
    | k :: r =>
      if hasTerm then some (emit S tag none)
      else some (emit { S with lists := (k + 1) :: r } tag (some (toString (k + 1))))
  | .eqnBegin => lnumbered S "row" "equation"
  | .eqRow => lnumbered S "row" "equation"
  | .nonumber =>
    -- the row in progress is not numbered: its number is given back
    some { setV S "equation" (getV S "equation" - 1) with outs := unnumberRow S.outs }
  | .appendix ctr =>
    if ctr = appendixUnit S then
      let S1 := setV S ctr 0
      let S2 := if S.cls = .book then setV S1 "section" 0 else setV S1 "subsection" 0
      -- `\appendix` redefines `\the<unit>` (`\gdef\thechapter{\@Alph\c@chapter}`): a user definition is replaced
      some { S2 with appendix := true, userThe := S2.userThe.filter fun e => e.1 != ctr }
    else none
  | .show fmt c =>
    if hasC S c then (stdRepresent (getV S c) fmt).map fun r => emit S "show" (some r) else none
  | .showThe c =>
    if hasC S c then (theL S (S.vals.length + S.userThe.length + 2) c).map fun r => emit S "show" (some r) else none
  | .renewThe c body => if hasC S c then some { S with userThe := (c, body) :: S.userThe } else none
  | .setcv n m => if hasC S n ∧ hasC S m then some (setV S n (getV S m)) else none
  | .addcv n m => if hasC S n ∧ hasC S m then some (setV S n (getV S n + getV S m)) else none
  -- plasTeX's `--counter n v` option: "initial value v" = the first object of `n` is numbered `v`
  | .initc n v => if hasC S n then some (setV S n (v - 1)) else none

/-- the counters of the standard classes and what each is reset by (classes.dtx) -/
def stdCounters : Cls → List (String × Option String)
  | .book => [("part", none), ("chapter", none), ("section", some "chapter"), ("subsection", some "section"),
      ("subsubsection", some "subsection"), ("paragraph", some "subsubsection"), ("subparagraph", some "paragraph"),
      ("equation", some "chapter"), ("figure", some "chapter"), ("table", some "chapter")]
  | .article => [("part", none), ("section", none), ("subsection", some "section"),
      ("subsubsection", some "subsection"), ("paragraph", some "subsubsection"), ("subparagraph", some "paragraph"),
      ("equation", none), ("figure", none), ("table", none)]

def linit (cls : Cls) (secnumdepth : Int) : LState :=
  { cls := cls, vals := (stdCounters cls).map fun c => (c.1, 0),
    parent := (stdCounters cls).filterMap fun c => c.2.map fun p => (c.1, p),
    thmWithin := [], envs := [], appendix := false, secnumdepth := secnumdepth, lists := [], outs := [] }

def lrun : LState → List Ev → Option LState
  | S, [] => some S
  | S, e :: es => match lstep S e with | some S' => lrun S' es | none => none

end PlasVerif.Spec.NumberingRules
