import PlasVerif.Model.Index
/-!
Spec vocabulary of C18, written from the property text and the `makeindex` input conventions
(`main!sub!subsub`, `sort@display`, `|format`, `"` quotes the next character).

* the grammar of `\index` arguments (`SEntry`), its rendering into tokens and the key path it names;
* what the index must contain for a multiset of entries (`specLines`): one line per distinct key
  path (and per proper prefix of one), carrying the occurrences of exactly that path in document order;
* the orders the statement speaks about (`collLe`: by collation key of the sort key).

(The token and level types are shared with the model; nothing of the model's algorithms is used.)
-/
namespace PlasVerif.Spec.Index
open PlasVerif.Model.Index

/-- one item of a key text: an ordinary token, or `"` followed by any token -/
inductive Item where
  | plain (t : Tok)
  | quoted (t : Tok)
  deriving DecidableEq, Repr

structure SLevel where
  /-- the part before `@`, if any -/
  sort : Option (List Item)
  disp : List Item
  deriving DecidableEq, Repr

structure SEntry where
  first : SLevel
  more : List SLevel
  /-- the part after `|`, if any (not empty) -/
  format : Option (List Item)
  deriving DecidableEq, Repr

def isSpecial : Tok → Bool
  | .ch _ c => c = cQuote || c = cBang || c = cAt || c = cBar
  | .oth _ => false

def Item.wf : Item → Bool
  | .plain t => !isSpecial t
  | .quoted _ => true

def itemsWf (l : List Item) : Bool := l.all Item.wf

def SLevel.wf (l : SLevel) : Bool :=
  itemsWf l.disp && (match l.sort with | none => true | some s => itemsWf s)

def SEntry.wf (e : SEntry) : Bool :=
  e.first.wf && e.more.all SLevel.wf &&
  (match e.format with | none => true | some f => itemsWf f && !f.isEmpty)

def Item.render : Item → List Tok
  | .plain t => [t]
  | .quoted t => [.ch false cQuote, t]

def renderItems (l : List Item) : List Tok := l.flatMap Item.render

def Item.tok : Item → Tok
  | .plain t => t
  | .quoted t => t

/-- the text an item list stands for -/
def unq (l : List Item) : List Tok := l.map Item.tok

def SLevel.render (l : SLevel) : List Tok :=
  (match l.sort with | none => [] | some s => renderItems s ++ [.ch false cAt]) ++ renderItems l.disp

def renderMore : List SLevel → List Tok
  | [] => []
  | l :: ls => .ch false cBang :: l.render ++ renderMore ls

def SEntry.render (e : SEntry) : List Tok :=
  e.first.render ++ renderMore e.more ++
  (match e.format with | none => [] | some f => .ch false cBar :: renderItems f)

def SEntry.levels (e : SEntry) : List SLevel := e.first :: e.more

/-- the sort keys and display keys the entry names, level by level -/
def SLevel.sk (l : SLevel) : List Tok := match l.sort with | none => unq l.disp | some s => unq s
def SEntry.sortkeys (e : SEntry) : List (List Tok) := e.levels.map SLevel.sk
def SEntry.keys (e : SEntry) : List (List Tok) := e.levels.map fun l => unq l.disp

def fmtOf (f : List Tok) : Str × List Tok × EType :=
  let mac := (f.takeWhile isLetterTok).map tokChar
  (mac, f.dropWhile isLetterTok,
   if mac = strSee then .see else if mac = strSeealso then .seealso else .normal)

/-- what `\index{render e}` must record -/
def SEntry.denote (e : SEntry) : Parsed :=
  match e.format with
  | none => { sortkeys := e.sortkeys, keys := e.keys, format := none, type := .normal }
  | some f =>
    let (m, r, t) := fmtOf (unq f)
    { sortkeys := e.sortkeys, keys := e.keys, format := some (m, r), type := t }

/-! ### the index of a multiset of entries -/

/-- all non-empty prefixes of a path -/
def prefixes {α} : List α → List (List α)
  | [] => []
  | a :: as => [a] :: (prefixes as).map (a :: ·)

/-- one line per distinct path or path prefix; pages = the occurrences of exactly that path, in document order -/
def specLines (es : List Entry) : List (List Level × List Nat) :=
  let ps := (es.flatMap fun e => prefixes e.path).eraseDups
  ps.map fun p => (p, (es.filter fun e => e.path = p).map (·.id))

/-- "ordered by the collation key of their sort key": `a` may stand before `b` -/
def collLe (env : Env) (a b : Level) : Bool := !strLt (env.coll b.sk) (env.coll a.sk)

end PlasVerif.Spec.Index
