/-!
# Spec for C06: the plain list-of-lists model of a DOM tree

Written from the property text and the DOM Level 3 vocabulary, not from the code: every node has a plain
list of children; the editing operations are the plain list operations (`l ++ xs`, splice at an index,
erase, replace); a fragment argument stands for its items.  The derived views are defined on the tree
unfolded from the lists (`abs`): text content is the concatenation of the text leaves in document order,
element lookup is the preorder filter, siblings are list neighbours, normalisation merges runs of text.
Each operation has an explicit domain (`…?` returns `none` outside it): arguments detached (listed by no
non-fragment node), not an ancestor of the receiver, fragment items distinct and detached, indexes in range.
-/
namespace PlasVerif.Spec.DomTree

abbrev Id := Nat

inductive NKind | doc | elem | text | frag
  deriving DecidableEq, Repr, Inhabited

structure LL where
  kids : Id → List Id
  kind : Id → NKind
  text : Id → List Nat
  name : Id → Nat
  next : Id
  /-- fragments already spliced into a node: they keep listing their items and are not receivers any more -/
  spent : Id → Bool := fun _ => false

def set {α} (f : Id → α) (i : Id) (v : α) : Id → α := fun j => if j = i then v else f j

/-- a fragment argument stands for its items -/
def items (m : LL) (c : Id) : List Id := if m.kind c = .frag then m.kids c else [c]

/-- listed by no non-fragment node -/
def detached (m : LL) (c : Id) : Bool :=
  (List.range m.next).all (fun n => m.kind n = .frag || !(m.kids n).contains c)

/-- `a` is `b` or an ancestor of `b` (through child lists) -/
def reaches : Nat → LL → Id → Id → Bool
  | 0, _, a, b => a == b
  | fuel + 1, m, a, b => a == b || (m.kids a).any (fun c => reaches fuel m c b)

/-- a single (non-fragment) node that may be given to receiver `s`; `inS` allows it to be a child of `s` already (moves) -/
def nodeOK (m : LL) (s c : Id) (inS : Bool) : Bool :=
  m.kind c != .frag && m.kind c != .doc && c != s && !reaches m.next m c s &&
  (detached m c || (inS && (m.kids s).contains c && m.kind s != .frag &&
     (List.range m.next).all (fun n => n == s || m.kind n = .frag || !(m.kids n).contains c)))

/-- "detached or fragment arguments" -/
def argOK (m : LL) (s c : Id) (inS : Bool := false) : Bool :=
  (m.kind s == .elem || m.kind s == .doc || m.kind s == .frag) && !m.spent s && c < m.next && s < m.next &&
  if m.kind c = .frag then
    c != s && (m.kids c).all (fun it => nodeOK m s it false && !(m.kids s).contains it) && (m.kids c).Nodup
  else nodeOK m s c inS && (inS || !(m.kids s).contains c)

/-- a fragment given as argument is spent -/
def spend (m : LL) (c : Id) : Id → Bool := if m.kind c = .frag then set m.spent c true else m.spent

def splice (l : List Id) (i : Nat) (xs : List Id) : List Id := l.take i ++ xs ++ l.drop i

def append? (m : LL) (s c : Id) : Option LL :=
  if argOK m s c then some { m with kids := set m.kids s (m.kids s ++ items m c), spent := spend m c } else none

def insert? (m : LL) (s : Id) (i : Int) (c : Id) : Option LL :=
  if argOK m s c ∧ 0 ≤ i ∧ i ≤ (m.kids s).length then
    some { m with kids := set m.kids s (splice (m.kids s) i.toNat (items m c)), spent := spend m c } else none

def pop? (m : LL) (s : Id) (i : Int) : Option LL :=
  let n : Int := (m.kids s).length
  if s < m.next ∧ -n ≤ i ∧ i < n then
    some { m with kids := set m.kids s ((m.kids s).eraseIdx (if i < 0 then i + n else i).toNat) } else none

def removeChild? (m : LL) (s c : Id) : Option LL :=
  if s < m.next ∧ c ∈ m.kids s then some { m with kids := set m.kids s ((m.kids s).erase c) } else none

/-- insertBefore (`off = 0`) / insertAfter (`off = 1`): `new` may already be a child of `s` (it moves) -/
def insertRel? (off : Nat) (m : LL) (s new ref : Id) : Option LL :=
  if argOK m s new true ∧ ref ∈ m.kids s ∧ ref ≠ new then
    let l := (m.kids s).erase new
    some { m with kids := set m.kids s (splice l (l.idxOf ref + off) (items m new)), spent := spend m new } else none

def replaceChild? (m : LL) (s new old : Id) : Option LL :=
  if argOK m s new true ∧ old ∈ m.kids s ∧ old ≠ new then
    let l := (m.kids s).erase new
    some { m with kids := set m.kids s (l.take (l.idxOf old) ++ items m new ++ l.drop (l.idxOf old + 1)), spent := spend m new } else none

def setItem? (m : LL) (s : Id) (i : Int) (c : Id) : Option LL :=
  if argOK m s c ∧ 0 ≤ i ∧ i < (m.kids s).length then
    some { m with kids := set m.kids s ((m.kids s).take i.toNat ++ items m c ++ (m.kids s).drop (i.toNat + 1)), spent := spend m c } else none

def extend? (m : LL) (s : Id) (cs : List Id) : Option LL :=
  cs.foldl (fun a c => a.bind (fun m => append? m s c)) (some m)

/-! ## trees and derived views -/

inductive Tree where
  | node (id : Id) (kind : NKind) (name : Nat) (cs : List Tree)
  | text (id : Id) (s : List Nat)
  deriving Repr, Inhabited

/-- unfold the lists below `n` into a tree -/
def abs : Nat → LL → Id → Tree
  | 0, m, n => if m.kind n = .text then .text n (m.text n) else .node n (m.kind n) (m.name n) []
  | fuel + 1, m, n =>
    if m.kind n = .text then .text n (m.text n)
    else .node n (m.kind n) (m.name n) ((m.kids n).map (abs fuel m))

mutual
/-- text leaves in document order -/
def Tree.textContent : Tree → List Nat
  | .text _ s => s
  | .node _ _ _ cs => textContentL cs
def textContentL : List Tree → List Nat
  | [] => []
  | t :: ts => t.textContent ++ textContentL ts
end

mutual
/-- proper descendants in preorder -/
def Tree.descendants : Tree → List Tree
  | .text _ _ => []
  | .node _ _ _ cs => descendantsL cs
def descendantsL : List Tree → List Tree
  | [] => []
  | t :: ts => t :: (t.descendants ++ descendantsL ts)
end

def Tree.id : Tree → Id
  | .text i _ => i
  | .node i _ _ _ => i

def Tree.isElemNamed (tag : Nat) : Tree → Bool
  | .node _ .elem nm _ => nm == tag
  | _ => false

/-- element lookup by name: the preorder filter of the proper descendants -/
def Tree.elementsByName (t : Tree) (tag : Nat) : List Id :=
  (t.descendants.filter (Tree.isElemNamed tag)).map Tree.id

/-- neighbours in a plain list -/
def prevIn (l : List Id) (x : Id) : Option Id := if l.idxOf x = 0 then none else l[l.idxOf x - 1]?
def nextIn (l : List Id) (x : Id) : Option Id := if x ∈ l then l[l.idxOf x + 1]? else none

/-- the unique non-fragment node listing `c` -/
def parentOf (m : LL) (c : Id) : Option Id :=
  (List.range m.next).find? (fun n => m.kind n != .frag && (m.kids n).contains c)

/-- path of list parents from the root down to `c` -/
def pathTo : Nat → LL → Id → List Id
  | 0, _, c => [c]
  | fuel + 1, m, c => match parentOf m c with
    | none => [c]
    | some p => pathTo fuel m p ++ [c]

/-- document-position comparison predicted by the list model (codes as in the DOM: 1 disconnected,
    2 other precedes, 4 other follows, 8 other contains, 16 other contained, 32 same) -/
def comparePos (m : LL) (a b : Id) : Nat :=
  if a = b then 32 else
  let pa := pathTo m.next m a
  let pb := pathTo m.next m b
  if pa.head? ≠ pb.head? then 1
  else if pb.isPrefixOf pa then 8
  else if pa.isPrefixOf pb then 16
  else
    let rec go : List Id → List Id → Id → Nat
      | x :: xs, y :: ys, p => if x = y then go xs ys x else
          if (m.kids p).idxOf x < (m.kids p).idxOf y then 4 else 2
      | _, _, _ => 1
    go pa pb a

/-! ## normalisation on trees -/

/-- merge the run of pending text in front of the next child (fresh text nodes carry id 0: identity of
    merged text nodes is not part of the property) -/
def flush (pending : List Nat) (have_ : Bool) : List Tree := if have_ then [.text 0 pending] else []

mutual
def Tree.normalize : Tree → Tree
  | .text _ s => .text 0 s
  | .node i k nm cs => .node i k nm (normalizeL cs [] false)
/-- children left to right with the pending text run (`have_` = at least one text node is pending) -/
def normalizeL : List Tree → List Nat → Bool → List Tree
  | [], pending, have_ => flush pending have_
  | .text _ s :: ts, pending, _ => normalizeL ts (pending ++ s) true
  | .node i k nm cs :: ts, pending, have_ =>
      flush pending have_ ++ (Tree.node i k nm (normalizeL cs [] false) :: normalizeL ts [] false)
end

def Tree.isText : Tree → Bool
  | .text _ _ => true
  | _ => false

/-- no two adjacent text children anywhere -/
def noAdjacentText : List Tree → Bool
  | [] => true
  | [t] => match t with
    | .node _ _ _ cs => noAdjacentText cs
    | .text _ _ => true
  | t :: u :: ts =>
    (!(t.isText && u.isText)) &&
    (match t with
      | .node _ _ _ cs => noAdjacentText cs
      | .text _ _ => true) && noAdjacentText (u :: ts)

/-- shape of a tree without node identities (what "equal" means for a clone) -/
inductive Shape where
  | node (kind : NKind) (name : Nat) (cs : List Shape)
  | text (s : List Nat)
  deriving Repr, Inhabited

mutual
def Tree.shape : Tree → Shape
  | .text _ s => .text s
  | .node _ k nm cs => .node k nm (shapeL cs)
def shapeL : List Tree → List Shape
  | [] => []
  | t :: ts => t.shape :: shapeL ts
end

mutual
def Tree.ids : Tree → List Id
  | .text i _ => [i]
  | .node i _ _ cs => i :: idsL cs
def idsL : List Tree → List Id
  | [] => []
  | t :: ts => t.ids ++ idsL ts
end

/-! ## normalisation and cloning on the list model (fresh nodes are allocated at `next`) -/

def alloc (m : LL) (k : NKind) (nm : Nat) (tx : List Nat) : LL × Id :=
  ({ m with next := m.next + 1, kids := set m.kids m.next [], kind := set m.kind m.next k,
            text := set m.text m.next tx, name := set m.name m.next nm }, m.next)

def flushLL (m : LL) (out : List Id) (pending : List Nat) (have_ : Bool) : LL × List Id :=
  if have_ then let (m1, v) := alloc m .text 0 pending; (m1, out ++ [v]) else (m, out)

/-- merge every run of adjacent text children below `s` into one fresh text node -/
def normalizeLL : Nat → LL → Id → LL
  | 0, m, _ => m
  | fuel + 1, m, s =>
    if m.kind s = .text then m else
    let r := (m.kids s).foldl (fun (a : LL × List Id × List Nat × Bool) c =>
      if a.1.kind c = .text then (a.1, a.2.1, a.2.2.1 ++ a.1.text c, true)
      else
        let (m1, out1) := flushLL a.1 a.2.1 a.2.2.1 a.2.2.2
        (normalizeLL fuel m1 c, out1 ++ [c], [], false)) (m, [], [], false)
    let (m2, out2) := flushLL r.1 r.2.1 r.2.2.1 r.2.2.2
    { m2 with kids := set m2.kids s out2 }

/-- normalising a fragment is inside the property's domain only while its items live nowhere else -/
def normalize? (m : LL) (s : Id) : Option LL :=
  if m.kind s = .frag ∧ (m.spent s ∨ !(m.kids s).all (detached m)) then none
  else some (normalizeLL (m.next + 2) m s)

/-- a fresh copy of `s` (childless when shallow, the whole subtree when deep) -/
def cloneLL : Nat → LL → Id → Bool → LL × Id
  | 0, m, s, _ => (m, s)
  | fuel + 1, m, s, deep =>
    let (m1, v) := alloc m (m.kind s) (m.name s) (m.text s)
    if deep then
      let r := (m.kids s).foldl (fun (a : LL × List Id) c =>
        let (a1, cc) := cloneLL fuel a.1 c true
        (a1, a.2 ++ [cc])) (m1, [])
      ({ r.1 with kids := set r.1.kids v r.2 }, v)
    else (m1, v)

end PlasVerif.Spec.DomTree
