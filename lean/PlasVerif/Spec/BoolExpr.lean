import PlasVerif.Model.IfThen
/-!
Spec for C19, written from the property text: boolean expression trees with `\not`
binding tightest and allowed wherever an operand may appear, `\and`/`\or` of equal
precedence associating left to right, `\( \)` grouping; their linearisation into the
token sequence the author writes, and their denotation.
-/
namespace PlasVerif.Spec.BoolExpr
open PlasVerif.Model.IfThen

inductive Rel where | lt | gt | eq deriving DecidableEq, Repr
def Rel.tok : Rel → Tok | .lt => .lt | .gt => .gt | .eq => .eq
def Rel.holds : Rel → Int → Int → Bool
  | .lt, a, b => decide (a < b) | .gt, a, b => decide (a > b) | .eq, a, b => decide (a = b)

mutual
inductive Atom where
  | lit (b : Bool) | cmp (a : Int) (r : Rel) (b : Int) | paren (e : Expr) | neg (a : Atom)
inductive Expr where
  | atom (a : Atom) | and (e : Expr) (a : Atom) | or (e : Expr) (a : Atom)
end

mutual
def Atom.lin : Atom → List Tok
  | .lit b => [.bool b]
  | .cmp a r b => [.num a, r.tok, .num b]
  | .paren e => .lpar :: (e.lin ++ [.rpar])
  | .neg a => .not :: a.lin
def Expr.lin : Expr → List Tok
  | .atom a => a.lin
  | .and e a => e.lin ++ .and :: a.lin
  | .or e a => e.lin ++ .or :: a.lin
end

mutual
def Atom.den : Atom → Bool
  | .lit b => b
  | .cmp a r b => r.holds a b
  | .paren e => e.den
  | .neg a => !a.den
def Expr.den : Expr → Bool
  | .atom a => a.den
  | .and e a => e.den && a.den
  | .or e a => e.den || a.den
end

/-- number of times the loop body must run: the first index at which the test is false -/
def iterate {σ} (f : σ → σ) : Nat → σ → σ
  | 0, s => s
  | n + 1, s => iterate f n (f s)

end PlasVerif.Spec.BoolExpr
