import PlasVerif.Model.IfScan
/-!
Spec for C03, written from the property text and TeX's rules (The TeXbook ch. 20, tex.web §§ 487–510):

* a program is a sequence of items; an item is an ordinary token, a `\newif\ifname`
  declaration, or a conditional `\if… case₀ \or case₁ … \or caseₖ [\else e] \fi` whose
  cases and else-part are again programs (any depth);
* `flat` spells a program as the token sequence the author writes;
* `den` is what TeX prescribes: the test is evaluated in the current state, **only** the
  selected branch is processed (its tokens executed in order, its effects applied), every
  other branch is dropped.  A boolean test selects case 0 when true, the `\else` part (or
  nothing) when false; `\ifcase n` selects the n-th listed case when `0 ≤ n <` number of
  cases, else the `\else` part if there is one, else nothing.

Own list types are used (instead of nested `List`) so that all recursions are plain mutual
structural recursions.
-/
namespace PlasVerif.Spec.CondTree
open PlasVerif.Model.IfScan

mutual
inductive Item (τ α : Type) where
  | tok (a : α)
  | newif (t : τ)
  | cond (t : τ) (cs : Cases τ α) (hasElse : Bool) (e : Body τ α)
inductive Body (τ α : Type) where
  | nil
  | cons (i : Item τ α) (b : Body τ α)
inductive Cases (τ α : Type) where
  | last (b : Body τ α)
  | more (b : Body τ α) (cs : Cases τ α)
end

variable {τ α σ : Type}

def Cases.count : Cases τ α → Nat
  | .last _ => 1
  | .more _ cs => cs.count + 1

def Cases.isLast : Cases τ α → Bool
  | .last _ => true
  | .more _ _ => false

def Cases.bodies : Cases τ α → List (Body τ α)
  | .last b => [b]
  | .more b cs => b :: cs.bodies

mutual
def Item.flat : Item τ α → List (Tok τ α)
  | .tok a => [.other a]
  | .newif t => [.newif, .ifl t]
  | .cond t cs he e => .ifl t :: (cs.flat ++ ((if he then .else_ :: e.flat else []) ++ [.fi]))
def Body.flat : Body τ α → List (Tok τ α)
  | .nil => []
  | .cons i b => i.flat ++ b.flat
def Cases.flat : Cases τ α → List (Tok τ α)
  | .last b => b.flat
  | .more b cs => b.flat ++ .or_ :: cs.flat
end

/-- TeX's selection rule: `some i` = the i-th listed case, `none` = the `\else` part (or nothing). -/
def texSelect (w : Which) (count : Nat) : Option Nat :=
  match w with
  | .bool true => some 0
  | .bool false => none
  | .case n => if 0 ≤ n ∧ n < count then some n.toNat else none

-- well-formedness: a boolean test has exactly one case before `\else` (no `\or`)
mutual
def Item.wf (isCase : τ → Bool) : Item τ α → Bool
  | .tok _ => true
  | .newif _ => true
  | .cond t cs _ e => (isCase t || cs.isLast) && cs.wf isCase && e.wf isCase
def Body.wf (isCase : τ → Bool) : Body τ α → Bool
  | .nil => true
  | .cons i b => i.wf isCase && b.wf isCase
def Cases.wf (isCase : τ → Bool) : Cases τ α → Bool
  | .last b => b.wf isCase
  | .more b cs => b.wf isCase && cs.wf isCase
end

-- the denotation: state and executed tokens after the program
mutual
def Item.den (S : Sem τ α σ) : Item τ α → σ → List α → Except Err (σ × List α)
  | .tok a, s, out => .ok (S.eff a s, out ++ [a])
  | .newif t, s, out => .ok (S.decl (.ifl t) s, out)
  | .cond t cs he e, s, out =>
    match S.ev t s with
    | .error x => .error x
    | .ok w =>
      match texSelect w cs.count with
      | some i => cs.denAt S i s out
      | none => if he then e.den S s out else .ok (s, out)
def Body.den (S : Sem τ α σ) : Body τ α → σ → List α → Except Err (σ × List α)
  | .nil, s, out => .ok (s, out)
  | .cons i b, s, out =>
    match i.den S s out with
    | .error x => .error x
    | .ok (s', out') => b.den S s' out'
def Cases.denAt (S : Sem τ α σ) : Cases τ α → Nat → σ → List α → Except Err (σ × List α)
  | .last b, 0, s, out => b.den S s out
  | .last _, _ + 1, s, out => .ok (s, out)
  | .more b _, 0, s, out => b.den S s out
  | .more _ cs, i + 1, s, out => cs.denAt S i s out
end

-- depth of conditional nesting (for the generators statistics)
mutual
def Item.depth : Item τ α → Nat
  | .tok _ => 0
  | .newif _ => 0
  | .cond _ cs _ e => max cs.depth e.depth + 1
def Body.depth : Body τ α → Nat
  | .nil => 0
  | .cons i b => max i.depth b.depth
def Cases.depth : Cases τ α → Nat
  | .last b => b.depth
  | .more b cs => max b.depth cs.depth
end

end PlasVerif.Spec.CondTree
