import PlasVerif.Model.GlobalState
/-!
Spec vocabulary for C17, written from the property text.

* a *history* is a list of documents `A1 … Ak` processed to completion, one after the other, by one
  interpreter; `B` is processed after it;
* results are compared *up to the spelling of automatically generated identifiers*: `canon`
  renumbers the generated ids of a result in order of first appearance, starting from 0;
* `Isolated` : B's canonical result after any history equals its canonical result as the first
  document of a fresh interpreter;  `Restored` : after a document no interpreter-wide parsing state
  differs from its initial value;  `Repeatable` : the same input twice gives identical results.
-/
namespace PlasVerif.Spec.Isolation
open PlasVerif.Model.GlobalState

/-- forget the spelling of a generated identifier -/
def erase : Out → Out
  | .node _ => .node 0
  | o => o

/-- canonical form of a result: generated ids renumbered 0,1,2,… in document order -/
def canon (os : List Out) : List Out := label 0 (os.map erase)

/-- the interpreter that has processed nothing -/
def fresh : Interp := (init, 0)

/-- canonical result of `B` processed by interpreter state `st` -/
def result (v : Variant) (st : Interp) (B : List Ev) : List Out := canon (process v st B).2

def Isolated (v : Variant) (ok : List Ev → Prop) : Prop :=
  ∀ (hist : List (List Ev)) (B : List Ev), (∀ A ∈ hist, ok A) →
    result v (processAll v fresh hist) B = result v fresh B

def Restored (v : Variant) (ok : List Ev → Prop) : Prop :=
  ∀ (hist : List (List Ev)), (∀ A ∈ hist, ok A) → (processAll v fresh hist).1 = init

def Repeatable (v : Variant) (ok : List Ev → Prop) : Prop :=
  ∀ (B : List Ev), ok B → result v (process v fresh B).1 B = result v fresh B

/-! the classes of documents the partial theorems exclude, as decidable predicates on the document -/

/-- (iv) uses a `type='any'` argument -/
def usesAny (d : List Ev) : Bool := d.any (fun e => e == Ev.arg ArgTy.any)
/-- (ii) assigns a TeX register -/
def assignsReg (d : List Ev) : Bool := d.any (fun e => match e with | .assign _ _ => true | .copy _ _ => true | _ => false)
/-- (iii) changes class-level attributes through the document class … -/
def patchesClass (d : List Ev) : Bool := d.any (fun e => e == Ev.docclass Cls.article)
/-- … or through new column types -/
def definesCol (d : List Ev) : Bool := d.any (fun e => match e with | .newcol _ => true | _ => false)
/-- (i) every math shift, box and list is closed at the end of the input: run alone, the document
    leaves the math-shift stack and the list depth as it found them -/
def closesAll (v : Variant) (d : List Ev) : Bool :=
  let g := (runDoc v init d).1
  g.inEnv == init.inEnv && g.depth == init.depth

/-- what a document must satisfy, per variant, for the isolation theorem: each restriction is
    needed only where the corresponding datum is still kept on a class -/
def Clean (v : Variant) (d : List Ev) : Bool :=
  (v.fixAny || !usesAny d) && (v.trkDoc || closesAll v d) && (v.regsDoc || !assignsReg d) &&
  (v.classDoc || !patchesClass d) && (v.colsDoc || !definesCol d)

/-! ### what a document writes and reads of the two data the current code still keeps on classes -/

/-- registers the document assigns (from a literal or from another register) -/
def writesOf (d : List Ev) : List Nat :=
  d.filterMap (fun e => match e with | .assign r _ => some r | .copy r _ => some r | _ => none)
/-- column types the document defines -/
def newcolsOf (d : List Ev) : List Nat := d.filterMap (fun e => match e with | .newcol n => some n | _ => none)
/-- the event does not read a register of `R` nor test a column type of `C` -/
def evAvoids (R C : List Nat) : Ev → Bool
  | .use r => !R.contains r
  | .copy _ q => !R.contains q
  | .usecol n => !C.contains n
  | _ => true
/-- `B` reads no register that an earlier document assigned and uses no column type that one defined -/
def Unobserved (hist : List (List Ev)) (B : List Ev) : Bool :=
  B.all (evAvoids (hist.flatMap writesOf) (hist.flatMap newcolsOf))

end PlasVerif.Spec.Isolation
