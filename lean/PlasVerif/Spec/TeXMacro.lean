import PlasVerif.Model.Macro
/-!
Spec for C02, written from the TeXbook (chapter 20, "Definitions (also called macros)")
and the LaTeX manual (C.8.1), not from plasTeX:

* the grammar of definitions: `PText` (parameter text = literal prefix + parameters, each with its
  delimiter), `BItem` (replacement text: tokens, `#n`, `##`), their rendering into tokens;
* `texSubst`  : `#n` ↦ n-th argument, `##` ↦ `#`;
* `texMatch`  : undelimited = next non-blank token or balanced group without its braces;
  delimited = shortest text with balanced braces followed by the delimiter at depth 0, outer braces
  removed when the whole argument is one group;  `nf3` = NF-prog 3 for that match;
* `texOptional`: LaTeX's optional first argument;
* `texRun`    : an independent small TeX: expansion (macros, `\csname`, `\expandafter`) and execution
  (`\def \gdef \newcommand \renewcommand \let \relax { } \begingroup \endgroup`, characters) with TeX's
  grouping semantics (table snapshot per group, global assignments written through to every level);
  everything outside NF-prog (undefined macro, runaway argument, mismatching literal, unsupported
  token, …) is `outside`, so the property's oracle is defined exactly on the property's domain;
* `visible`   : what the property observes.
-/
namespace PlasVerif.Spec.TeXMacro
open PlasVerif.Model.Macro (Tok Name)

inductive BItem where
  | tok (t : Tok)          -- any token but a parameter character
  | par (n : Nat)          -- `#n`
  | hash (c : Nat)         -- `##`  (c = the character used as parameter character, normally 35)
  deriving DecidableEq, Repr

structure PText where
  pre : List Tok
  params : List (List Tok)
  deriving DecidableEq, Repr

def hashTok : Tok := .ch 6 35
def digitTok (n : Nat) : Tok := .ch 12 (48 + n)

def renderItem : BItem → List Tok
  | .tok t => [t]
  | .par n => [hashTok, digitTok n]
  | .hash c => [.ch 6 c, .ch 6 c]

def renderBody (b : List BItem) : List Tok := b.flatMap renderItem

def renderParams : Nat → List (List Tok) → List Tok
  | _, [] => []
  | k, d :: ds => hashTok :: digitTok k :: d ++ renderParams (k + 1) ds

def renderPText (p : PText) : List Tok := p.pre ++ renderParams 1 p.params

/-- TeX's substitution rule -/
def substItem (args : List (List Tok)) : BItem → List Tok
  | .tok t => [t]
  | .par n => args.getD (n - 1) []
  | .hash c => [.ch 6 c]

def texSubst (body : List BItem) (args : List (List Tok)) : List Tok := body.flatMap (substItem args)

/-! ## argument matching -/

/-- the rest of a balanced group whose `{` has been read: (content, what follows the matching `}`) -/
def texGroup : Nat → List Tok → Option (List Tok × List Tok)
  | _, [] => none
  | d, t :: ts =>
    if t.isEg then
      match d with
      | 0 => some ([], ts)
      | d + 1 => (texGroup d ts).map fun r => (t :: r.1, r.2)
    else if t.isBg then (texGroup (d + 1) ts).map fun r => (t :: r.1, r.2)
    else (texGroup d ts).map fun r => (t :: r.1, r.2)

def skipBlanks : List Tok → List Tok
  | [] => []
  | t :: ts => if t.isSpace then skipBlanks ts else t :: ts

/-- undelimited parameter: blanks are skipped, then one token, or one group whose braces are removed -/
def texUndelimited (s : List Tok) : Option (List Tok × List Tok) :=
  match skipBlanks s with
  | [] => none
  | t :: ts => if t.isBg then texGroup 0 ts else if t.isEg then none else some ([t], ts)

def isPrefix : List Tok → List Tok → Bool
  | [], _ => true
  | _ :: _, [] => false
  | a :: as, b :: bs => a == b && isPrefix as bs

/-- delimited parameter: the shortest text with balanced braces that is followed by the delimiter `d`
    at brace depth 0: (raw text, what follows the delimiter) -/
def texScan (d : List Tok) : Nat → List Tok → Option (List Tok × List Tok)
  | _, [] => none
  | depth, t :: ts =>
    if depth = 0 ∧ isPrefix d (t :: ts) then some ([], (t :: ts).drop d.length)
    else if t.isBg then (texScan d (depth + 1) ts).map fun r => (t :: r.1, r.2)
    else if t.isEg then
      match depth with
      | 0 => none
      | k + 1 => (texScan d k ts).map fun r => (t :: r.1, r.2)
    else (texScan d depth ts).map fun r => (t :: r.1, r.2)

/-- "if the argument is a single group, the outermost braces are removed" -/
def texStrip (p : List Tok) : List Tok :=
  match p with
  | b :: r => if b.isBg then (match texGroup 0 r with | some (inner, []) => inner | _ => p) else p
  | [] => p

def texArgs : List (List Tok) → List Tok → Option (List (List Tok) × List Tok)
  | [], s => some ([], s)
  | [] :: ds, s =>
    match texUndelimited s with
    | none => none
    | some (a, r) => (texArgs ds r).map fun x => (a :: x.1, x.2)
  | (d0 :: dr) :: ds, s =>
    match texScan (d0 :: dr) 0 s with
    | none => none
    | some (p, r) => (texArgs ds r).map fun x => (texStrip p :: x.1, x.2)

def matchLits : List Tok → List Tok → Option (List Tok)
  | [], s => some s
  | _ :: _, [] => none
  | a :: as, b :: bs => if a = b then matchLits as bs else none

def texMatch (pt : PText) (s : List Tok) : Option (List (List Tok) × List Tok) :=
  match matchLits pt.pre s with
  | none => none
  | some s' => texArgs pt.params s'

/-- the next non-blank token is not a math shift -/
def noMathHead (s : List Tok) : Bool :=
  match skipBlanks s with
  | t :: _ => !t.isMath
  | [] => true

/-- NF-prog 3 for one call: the text matched by a delimited parameter does not contain the
    first token of its delimiter (at any depth); arguments contain no math shifts -/
def nf3Args : List (List Tok) → List Tok → Bool
  | [], _ => true
  | [] :: ds, s =>
    match texUndelimited s with
    | none => true
    | some (_, r) => noMathHead s && nf3Args ds r
  | (d0 :: dr) :: ds, s =>
    match texScan (d0 :: dr) 0 s with
    | none => true
    | some (p, r) => !p.contains d0 && nf3Args ds r

def nf3 (pt : PText) (s : List Tok) : Bool :=
  match matchLits pt.pre s with
  | none => true
  | some s' => nf3Args pt.params s'

def isLBrack : Tok → Bool | .ch 12 91 => true | _ => false
def rBrack : Tok := .ch 12 93

/-- the character `[` with any category code -/
def isOpenAny : Tok → Bool
  | .ch _ 91 => true
  | _ => false

/-- LaTeX optional argument: present iff the next non-blank token is `[`; then it is delimited by `]` -/
def texOptional (dflt : List Tok) (s : List Tok) : Option (List Tok × List Tok) :=
  match skipBlanks s with
  | t :: ts => if isLBrack t then (texScan [rBrack] 0 ts).map fun r => (texStrip r.1, r.2)
               -- a `[` of another category than 12 is not LaTeX's bracket but plasTeX takes it for one: outside the normal form
               else if isOpenAny t then none
               else some (dflt, t :: ts)
  | [] => some (dflt, [])

/-- a bracket character of any category (plasTeX's `readGrouping` compares the character only) -/
def isAnyBracket : Tok → Bool
  | .ch _ 91 => true
  | .ch _ 93 => true
  | _ => false

def nf3Optional (s : List Tok) : Bool :=
  match skipBlanks s with
  | t :: ts => if isLBrack t then
      (match texScan [rBrack] 0 ts with
       | some (p, _) => !p.any isAnyBracket
       | none => true) else true
  | [] => true

def texMandatory : Nat → List Tok → Option (List (List Tok) × List Tok)
  | 0, s => some ([], s)
  | n + 1, s =>
    match texUndelimited s with
    | none => none
    | some (a, r) => (texMandatory n r).map fun x => (a :: x.1, x.2)

def texLatexArgs (nargs : Nat) (opt : Option (List Tok)) (s : List Tok) : Option (List (List Tok) × List Tok) :=
  match opt with
  | none => texMandatory nargs s
  | some d =>
    match texOptional d s with
    | none => none
    | some (a, r) => (texMandatory (nargs - 1) r).map fun x => (a :: x.1, x.2)

/-! ## parsing definitions -/

/-- parameter text: `#k` must appear in order; returns (literal run, delimiters of the following parameters) -/
def parsePT : Nat → List Tok → Option (List Tok × List (List Tok))
  | _, [] => some ([], [])
  | _, [t] => if t.isParam || t.isEl then none else some ([t], [])
  | k, t :: u :: us =>
    if t.isParam then
      -- the parameter character of the macro language is `#` (no category-code changes in C02's programs)
      if t = hashTok ∧ u = digitTok k ∧ 1 ≤ k ∧ k ≤ 9 then (parsePT (k + 1) us).map fun r => ([], r.1 :: r.2) else none
    else if t.isEl then none     -- an expanded macro instance is not a TeX token
    else (parsePT k (u :: us)).map fun r => (t :: r.1, r.2)

def parsePText (ts : List Tok) : Option PText := (parsePT 1 ts).map fun r => ⟨r.1, r.2⟩

def digitOf : Tok → Option Nat
  | .ch 12 c => if 49 ≤ c ∧ c ≤ 57 then some (c - 48) else none
  | _ => none

/-- replacement text of a macro with `n` parameters -/
def parseBody (n : Nat) : List Tok → Option (List BItem)
  | [] => some []
  | [t] => if t.isParam then none else some [.tok t]
  | t :: u :: us =>
    if t.isParam then
      if t = hashTok then
        if u = hashTok then (parseBody n us).map (.hash 35 :: ·)
        else match digitOf u with
          | some k => if k ≤ n then (parseBody n us).map (.par k :: ·) else none
          | none => none
      else none
    else (parseBody n (u :: us)).map (.tok t :: ·)

/-! ## the interpreter -/

inductive TPrim where
  | def_ | gdef | newcommand | renewcommand | let_ | csname | endcsname | expandafter | relax | begingroup | endgroup
  | ifx | else_ | fi
  deriving DecidableEq, Repr

inductive TMeaning where
  | macro (pt : PText) (body : List BItem)
  | latex (nargs : Nat) (opt : Option (List Tok)) (body : List BItem)
  | prim (p : TPrim)
  deriving DecidableEq, Repr

abbrev Table := List (Name × TMeaning)

inductive TErr where
  | outside (why : String)     -- the program is not in NF-prog / not a valid TeX program of the macro language
  | fuel
  deriving Repr

/-- current meanings + the tables saved at each open group (innermost first) -/
structure TSt where
  input : List Tok
  cur : Table
  saved : List Table
  deriving Repr

def assignLocal (n : Name) (m : TMeaning) (st : TSt) : TSt := { st with cur := (n, m) :: st.cur }
/-- a global assignment is seen at every level -/
def assignGlobal (n : Name) (m : TMeaning) (st : TSt) : TSt :=
  { st with cur := (n, m) :: st.cur, saved := st.saved.map ((n, m) :: ·) }

def primTable : Table :=
  let n (s : String) : Name := s.toList.map Char.toNat
  [ (n "def", .prim .def_), (n "gdef", .prim .gdef), (n "newcommand", .prim .newcommand),
    (n "renewcommand", .prim .renewcommand), (n "let", .prim .let_), (n "csname", .prim .csname),
    (n "endcsname", .prim .endcsname), (n "expandafter", .prim .expandafter), (n "relax", .prim .relax),
    (n "begingroup", .prim .begingroup), (n "endgroup", .prim .endgroup) ]

/-- one macro call: (replacement text with arguments substituted, rest of the input) -/
def texCall (pt : PText) (body : List BItem) (s : List Tok) : Except TErr (List Tok × List Tok) :=
  match texMatch pt s with
  | none => .error (.outside "arguments do not match the parameter text")
  | some (args, rest) =>
    if nf3 pt s then .ok (texSubst body args, rest) else .error (.outside "NF3: delimiter token inside the argument")

/-- NF-prog for the mandatory arguments: none of them starts with a math shift -/
def nf3Mandatory : Nat → List Tok → Bool
  | 0, _ => true
  | n + 1, s =>
    match texUndelimited s with
    | none => true
    | some (_, r) => noMathHead s && nf3Mandatory n r

/-- one call of a `\newcommand` macro: optional first argument (default when the next non-blank token is not `[`),
    then the mandatory arguments, then substitution -/
def texLatexCall (nargs : Nat) (opt : Option (List Tok)) (body : List BItem) (s : List Tok) :
    Except TErr (List Tok × List Tok) :=
  match opt with
  | none =>
    match texMandatory nargs s with
    | none => .error (.outside "missing argument")
    | some (args, rest) =>
      if nf3Mandatory nargs s then .ok (texSubst body args, rest) else .error (.outside "NF: math shift as argument")
  | some d =>
    match texOptional d s with
    | none => .error (.outside "missing ]")
    | some (a, r) =>
      match texMandatory (nargs - 1) r with
      | none => .error (.outside "missing argument")
      | some (args, rest) =>
        if nf3Optional s && nf3Mandatory (nargs - 1) r then .ok (texSubst body (a :: args), rest)
        else .error (.outside "NF3: bracket inside the optional argument")

mutual
/-- expand the control sequence `name` whose token has just been read (`none` = not expandable) -/
def texExpand : Nat → Table → Name → List Tok → Except TErr (Option (List Tok))
  | 0, _, _, _ => .error .fuel
  | fuel + 1, tbl, name, rest =>
    match tbl.lookup name with
    | none => .error (.outside "undefined control sequence")
    | some (.macro pt body) => (texCall pt body rest).map fun r => some (r.1 ++ r.2)
    | some (.latex n o body) => (texLatexCall n o body rest).map fun r => some (r.1 ++ r.2)
    | some (.prim .csname) =>
      (texCsname fuel tbl [] rest).map fun r => some (.cs r.1 :: r.2)
    | some (.prim .expandafter) =>
      match rest with
      | t1 :: .cs n2 :: rest' =>
        match texExpand fuel tbl n2 rest' with
        | .error e => .error e
        | .ok none => .ok (some (t1 :: .cs n2 :: rest'))
        | .ok (some inp) => .ok (some (t1 :: inp))
      | t1 :: t2 :: rest' => .ok (some (t1 :: t2 :: rest'))
      | _ => .error (.outside "\\expandafter at end of input")
    | some (.prim _) => .ok none

/-- `\csname`: expand until `\endcsname`, only character tokens may appear -/
def texCsname : Nat → Table → List Nat → List Tok → Except TErr (Name × List Tok)
  | 0, _, _, _ => .error .fuel
  | fuel + 1, tbl, acc, inp =>
    if inp.length > 4000 then .error .fuel else      -- the resource bound of `texRun`, also inside `\\csname`
    match inp with
    | [] => .error (.outside "missing \\endcsname")
    | .ch cat c :: rest =>
      if cat = 10 ∨ cat = 11 ∨ cat = 12 then texCsname fuel tbl (acc ++ [c]) rest
      else .error (.outside "non-character in \\csname")
    | .el _ :: _ => .error (.outside "not a TeX token")
    | .cs n :: rest =>
      if tbl.lookup n = some (.prim .endcsname) then .ok (acc, rest)
      else match texExpand fuel tbl n rest with
        | .error e => .error e
        | .ok none => .error (.outside "unexpandable control sequence in \\csname")
        | .ok (some inp') => texCsname fuel tbl acc inp'
end

/-- TeX's `get_r_token` for `\def`/`\let`: blanks are skipped, a control sequence is required -/
def texRToken (s : List Tok) : Option (Name × List Tok) :=
  match skipBlanks s with
  | .cs n :: r => some (n, r)
  | _ => none

def spanNoBg : List Tok → List Tok × List Tok
  | [] => ([], [])
  | t :: ts => if t.isBg then ([], t :: ts) else let r := spanNoBg ts; (t :: r.1, r.2)

def startsWithBlank : List Tok → Bool
  | t :: _ => t.isSpace
  | [] => false

/-- `\def\name<parameter text>{<replacement text>}` -/
def texReadDef (s : List Tok) : Except TErr (Name × TMeaning × List Tok) :=
  match texRToken s with
  | none => .error (.outside "\\def needs a control sequence")
  | some (n, r) =>
    let sp := spanNoBg r
    match sp.2 with
    | [] => .error (.outside "\\def without replacement text")
    | _ :: afterBg =>
      -- a parameter text that starts with a blank cannot be written after a control word (the tokenizer skips
      -- blanks there) and plasTeX skips it: outside the normal form
      if startsWithBlank sp.1 then .error (.outside "parameter text starts with a blank") else
      match parsePText sp.1, texGroup 0 afterBg with
      | some pt, some (btoks, rest) =>
        -- the parameter text of a definition read from a file has no leading blank (the tokenizer
        -- skips blanks after a control word); a blank delimiter elsewhere is kept
        match parseBody pt.params.length btoks with
        | some b => .ok (n, .macro pt b, rest)
        | none => .error (.outside "bad parameter reference in the replacement text")
      | _, _ => .error (.outside "bad parameter text or unbalanced replacement text")

def digitsNat (ts : List Tok) : Option Nat :=
  match ts with
  | [.ch 12 c] => if 48 ≤ c ∧ c ≤ 57 then some (c - 48) else none
  | _ => none

/-- the character `*` with any category code, or the control symbol `\*` (plasTeX's `readCharacter('*')` takes all
    of them for the star of `\newcommand*`) -/
def isStarAny : Tok → Bool
  | .ch _ 42 => true
  | .cs [42] => true
  | _ => false

/-- optional `*` (category 12) after `\newcommand`; `none` = a star of another kind: outside the normal form -/
def skipStar (s : List Tok) : Option (List Tok) :=
  match skipBlanks s with
  | t :: r => if t = .ch 12 42 then some r else if isStarAny t then none else some (t :: r)
  | [] => some []

/-- the name argument must be exactly one control sequence (`\name` or `{\name}`) -/
def csOnly : List Tok → Option Name
  | [.cs n] => some n
  | _ => none

/-- optional `[n]`: (argument count, rest); `none` = not a single digit / unbalanced / a bracket of a foreign category -/
def texReadCount (r1 : List Tok) : Option Nat × List Tok :=
  match skipBlanks r1 with
  | t :: ts =>
    if isLBrack t then
      (match texScan [rBrack] 0 ts with
       | some (p, r) => (digitsNat p, r)
       | none => (none, []))
    else if isOpenAny t then (none, [])
    else (some 0, t :: ts)
  | [] => (some 0, [])

/-- optional `[default]` (only for macros with at least one argument): (default with the braces of a one-group default
    removed, rest); a rest `[]` makes the following body read fail -/
def texReadDefault (nargs : Nat) (r2 : List Tok) : Option (List Tok) × List Tok :=
  match skipBlanks r2 with
  | t :: ts =>
    if isLBrack t ∧ nargs ≥ 1 then
      (match texScan [rBrack] 0 ts with
       | some (p, r) => (some (texStrip p), r)
       | none => (none, []))
    else if isOpenAny t then (none, [])
    else (none, t :: ts)
  | [] => (none, [])

/-- the replacement text: a balanced group with valid parameter references -/
def texReadBody (nargs : Nat) (r3 : List Tok) : Option (List BItem × List Tok) :=
  match skipBlanks r3 with
  | b :: r4 =>
    if b.isBg then
      match texGroup 0 r4 with
      | some (btoks, rest) => (parseBody nargs btoks).map fun body => (body, rest)
      | none => none
    else none
  | [] => none

/-- `\newcommand*{\name}[n][default]{body}` (LaTeX manual C.8.1) -/
def texReadNewcommand (s : List Tok) : Except TErr (Name × TMeaning × List Tok) :=
  match skipStar s with
  | none => .error (.outside "a star of a foreign category")
  | some s1 =>
    match texUndelimited s1 with
    | none => .error (.outside "\\newcommand needs a control sequence")
    | some (toks, r1) =>
      match csOnly toks with
      | none => .error (.outside "\\newcommand needs a control sequence")
      | some n =>
        let c := texReadCount r1
        match c.1 with
        | none => .error (.outside "bad argument count")
        | some nargs =>
          if !(nf3Optional r1) || !(nf3Optional c.2) then .error (.outside "NF3: bracket inside a bracketed argument") else
          let o := texReadDefault nargs c.2
          match texReadBody nargs o.2 with
          | some (body, rest) => .ok (n, .latex nargs o.1 body, rest)
          | none => .error (.outside "bad or missing replacement text")

/-- TeX's "optional equals": an `=` of category 12, then at most one blank -/
def optEquals : List Tok → List Tok
  | [] => []
  | t :: r => if t = .ch 12 61 then (match r with | u :: r' => if u.isSpace then r' else u :: r' | [] => []) else t :: r

/-- `\let\a=\b` : optional `=` and one optional blank -/
def texReadLet (s : List Tok) : Option (Name × Tok × List Tok) :=
  match texRToken s with
  | none => none
  | some (n, r) =>
    match optEquals (skipBlanks r) with
    | t :: r' => some (n, t, r')
    | [] => none

def visibleTok : Tok → List Nat
  | .ch 11 c => [c]
  | .ch 12 c => [c]
  | _ => []

/-! ## `\ifx` (TeXbook ch. 20: "`\ifx` tests if two tokens agree"), inside NF-prog 4 -/

/-- what `\ifx` looks at, for the two kinds of tokens NF-prog 4 admits -/
inductive IfxKind where
  | char (cat c : Nat)                      -- a character token: (character code, category code) is compared
  | mac (body : List BItem)                 -- a macro without parameter text whose replacement text is plain characters
  deriving DecidableEq, Repr

def plainItem : BItem → Bool
  | .tok (.ch 11 _) => true
  | .tok (.ch 12 _) => true
  | _ => false

/-- `none` = outside NF-prog 4 (blank, brace, primitive, undefined name, macro with parameters or with a non-plain text) -/
def ifxKind (tbl : Table) : Tok → Option IfxKind
  | .ch cat c => if cat = 11 ∨ cat = 12 then some (.char cat c) else none
  | .cs n =>
    match tbl.lookup n with
    | some (.macro pt body) => if pt.pre.isEmpty && pt.params.isEmpty && body.all plainItem then some (.mac body) else none
    | _ => none
  | .el _ => none

/-- two characters agree iff code and category agree; two macros iff their texts agree token by token; a character
    and a macro never arise inside NF-prog 4 (`none`) -/
def ifxAgree : IfxKind → IfxKind → Option Bool
  | .char a b, .char c d => some (a = c ∧ b = d)
  | .mac x, .mac y => some (x = y)
  | _, _ => none

/-- what a token is for TeX while it skips conditional text: decided by its MEANING -/
inductive CondKind where
  | opens | closes | alt | other
  deriving DecidableEq, Repr

def texCondKind (tbl : Table) : Tok → CondKind
  | .cs n =>
    match tbl.lookup n with
    | some (.prim .ifx) => .opens
    | some (.prim .fi) => .closes
    | some (.prim .else_) => .alt
    | _ => .other
  | _ => .other

/-- the name of a token as far as conditionals are concerned -/
def condName : Tok → Name
  | .cs n => n
  | .el n => n
  | _ => []

def nameStartsIf : Name → Bool
  | 105 :: 102 :: _ => true
  | _ => false

/-- NF-prog 6, made precise: inside conditional text a token is a conditional primitive exactly if its NAME says so —
    `\if…` names are `\ifx`-like primitives, `\fi` is `\fi`, `\else` is `\else`, and `\newif`, `\or` do not occur.
    (plasTeX's branch skipper goes by names — observation O4 —, TeX by meanings; where the two differ the program is outside
    the normal form.) -/
def condNamesOk (tbl : Table) (t : Tok) : Bool :=
  let n := condName t
  if n = [110, 101, 119, 105, 102] ∨ n = [111, 114] then false
  else if nameStartsIf n then texCondKind tbl t == .opens
  else if n = [102, 105] then texCondKind tbl t == .closes
  else if n = [101, 108, 115, 101] then texCondKind tbl t == .alt
  else texCondKind tbl t == .other

/-- skip to the matching `\fi`: (text before the `\else` of this level, text after it, input after the `\fi`).  Nested
    conditionals are tokens whose MEANING is `\ifx`; `seenElse` = an `\else` of this level has been passed.
    `none` = no matching `\fi`, a second `\else`, or a token whose name and meaning disagree (`condNamesOk`). -/
def texBranches (tbl : Table) : Nat → Bool → List Tok → List Tok → List Tok → Option (List Tok × List Tok × List Tok)
  | _, _, _, _, [] => none
  | nest, seenElse, tb, fb, t :: ts =>
    let tb' := if seenElse then tb else tb ++ [t]
    let fb' := if seenElse then fb ++ [t] else fb
    if !condNamesOk tbl t then none else
    match texCondKind tbl t with
    | .opens => texBranches tbl (nest + 1) seenElse tb' fb' ts
    | .closes =>
      match nest with
      | 0 => some (tb, fb, ts)
      | k + 1 => texBranches tbl k seenElse tb' fb' ts
    | .alt =>
      match nest with
      | 0 => if seenElse then none else texBranches tbl 0 true tb fb ts
      | k + 1 => texBranches tbl (k + 1) seenElse tb' fb' ts
    | .other => texBranches tbl nest seenElse tb' fb' ts

/-- NF-prog: the programs of the macro language define their own names; a name currently bound to a primitive is never redefined -/
def primBound (t : Table) (n : Name) : Bool :=
  match t.lookup n with
  | some (.prim _) => true
  | _ => false

/-- the main control: expand, or execute the unexpandable command / typeset the character.
    `ok` restricts the definitions a run may make (used to state theorems about fragments; `texProgram` uses no restriction) -/
def texRun (ok : Name → TMeaning → Bool) : Nat → TSt → Except TErr (List Nat)
  | 0, _ => .error .fuel
  | fuel + 1, st =>
    if st.input.length > 4000 then .error .fuel else
    match st.input with
    | [] => .ok []
    | .el _ :: _ => .error (.outside "not a TeX token")
    | .ch cat c :: rest =>
      if cat = 11 ∨ cat = 12 then (texRun ok fuel { st with input := rest }).map (c :: ·)
      else if cat = 10 then texRun ok fuel { st with input := rest }
      else if cat = 1 then texRun ok fuel { st with input := rest, saved := st.cur :: st.saved }
      else if cat = 2 then
        match st.saved with
        | [] => .error (.outside "too many }")
        | t :: sv => texRun ok fuel { input := rest, cur := t, saved := sv }
      else .error (.outside "character outside the macro language")
    | .cs n :: rest =>
      match st.cur.lookup n with
      | none => .error (.outside "undefined control sequence")
      | some (.prim .relax) => texRun ok fuel { st with input := rest }
      | some (.prim .endcsname) => .error (.outside "extra \\endcsname")
      | some (.prim .else_) => .error (.outside "\\else outside the conditional it belongs to (NF-prog 6)")
      | some (.prim .fi) => .error (.outside "\\fi outside the conditional it belongs to (NF-prog 6)")
      | some (.prim .ifx) =>
        -- the next two tokens, unexpanded; then the selected branch replaces the whole conditional (NF-prog 6: every body
        -- and argument is well nested, so selecting the text now or skipping it later is the same)
        match rest with
        | t1 :: t2 :: r =>
          match ifxKind st.cur t1, ifxKind st.cur t2 with
          | some k1, some k2 =>
            match ifxAgree k1 k2, texBranches st.cur 0 false [] [] r with
            | some b, some (tb, fb, after) => texRun ok fuel { st with input := (if b then tb else fb) ++ after }
            | none, _ => .error (.outside "\\ifx between a character and a macro (NF-prog 4)")
            | _, none => .error (.outside "conditional without matching \\fi")
          | _, _ => .error (.outside "\\ifx on a token outside NF-prog 4")
        | _ => .error (.outside "\\ifx at end of input")
      | some (.prim .begingroup) => texRun ok fuel { st with input := rest, saved := st.cur :: st.saved }
      | some (.prim .endgroup) =>
        match st.saved with
        | [] => .error (.outside "extra \\endgroup")
        | t :: sv => texRun ok fuel { input := rest, cur := t, saved := sv }
      | some (.prim .def_) =>
        match texReadDef rest with
        | .error e => .error e
        | .ok (nm, m, rest') =>
          if primBound st.cur nm then .error (.outside "redefinition of a primitive of the macro language")
          else if ok nm m then texRun ok fuel (assignLocal nm m { st with input := rest' })
          else .error (.outside "definition outside the fragment under consideration")
      | some (.prim .gdef) =>
        match texReadDef rest with
        | .error e => .error e
        | .ok (nm, m, rest') =>
          if primBound st.cur nm then .error (.outside "redefinition of a primitive of the macro language")
          else if ok nm m then texRun ok fuel (assignGlobal nm m { st with input := rest' })
          else .error (.outside "definition outside the fragment under consideration")
      | some (.prim .newcommand) =>
        match texReadNewcommand rest with
        | .error e => .error e
        | .ok (nm, m, rest') =>
          if (st.cur.lookup nm).isSome then .error (.outside "\\newcommand of a defined name")
          else if ok nm m then texRun ok fuel (assignLocal nm m { st with input := rest' })
          else .error (.outside "definition outside the fragment under consideration")
      | some (.prim .renewcommand) =>
        match texReadNewcommand rest with
        | .error e => .error e
        | .ok (nm, m, rest') =>
          if (st.cur.lookup nm).isNone then .error (.outside "\\renewcommand of an undefined name")
          else if primBound st.cur nm then .error (.outside "redefinition of a primitive of the macro language")
          else if ok nm m then texRun ok fuel (assignLocal nm m { st with input := rest' })
          else .error (.outside "definition outside the fragment under consideration")
      | some (.prim .let_) =>
        match texReadLet rest with
        | some (nm, .cs src, rest') =>
          match st.cur.lookup src with
          | some m =>
            if primBound st.cur nm then .error (.outside "redefinition of a primitive of the macro language")
            else if ok nm m then texRun ok fuel (assignLocal nm m { st with input := rest' })
            else .error (.outside "definition outside the fragment under consideration")
          | none => .error (.outside "\\let to an undefined control sequence")
        | _ => .error (.outside "\\let to a character")
      | some _ =>
        match texExpand fuel st.cur n rest with
        | .error e => .error e
        | .ok none => .error (.outside "unexpected unexpandable")
        | .ok (some inp) => texRun ok fuel { st with input := inp }

/-- the primitives of the macro language plus the conditional `\ifx … \else … \fi` of NF-prog 4 -/
def condTable : Table :=
  let n (s : String) : Name := s.toList.map Char.toNat
  primTable ++ [ (n "ifx", .prim .ifx), (n "else", .prim .else_), (n "fi", .prim .fi) ]

/-- the evaluation the correspondence uses as the property's oracle: the macro language with `\ifx` -/
def texProgramC (fuel : Nat) (p : List Tok) : Except TErr (List Nat) := texRun (fun _ _ => true) fuel ⟨p, condTable, []⟩

/-- the whole macro language: no restriction on definitions -/
def texProgram (fuel : Nat) (p : List Tok) : Except TErr (List Nat) := texRun (fun _ _ => true) fuel ⟨p, primTable, []⟩

/-! ## the fragment for which program-level equality with the model is proved (`Properties/C02.lean`) -/

def nm (s : String) : Name := s.toList.map Char.toNat

def bgroupN : Name := [98, 103, 114, 111, 117, 112]
def egroupN : Name := [101, 103, 114, 111, 117, 112]
def eqN : Name := [61]
def starN : Name := [42]

/-- names that a program of the proved fragment never defines: the classes behind the brace characters, the two
    control symbols plasTeX's argument readers confuse with `=` and `*`, and the primitives plasTeX knows under names
    the macro language of the Spec does not have -/
def reservedNames : List Name :=
  [bgroupN, egroupN, eqN, starN, nm "edef", nm "xdef", nm "providecommand"]

/-- the control sequence `\ifx` -/
def texIsIfx : Tok → Bool
  | .cs n => n == [105, 102, 120]
  | _ => false
def itemNoIfx : BItem → Bool | .tok t => !texIsIfx t | _ => true

/-- the proved fragment: the definitions a run may make (see `run_eq_texRun_fragment`, `run_eq_texRun_language_partial`) -/
def fragOk (n : Name) (m : TMeaning) : Bool :=
  !reservedNames.contains n &&
  match m with
  | .macro _ items => items.all itemNoIfx
  | .prim _ => true
  | .latex _ _ items => items.all itemNoIfx


end PlasVerif.Spec.TeXMacro
