import PlasVerif.Model.Context
/-!
Spec vocabulary for C04: balanced operation histories (the grammar the property
quantifies over) and the shape "the same stack, plus global definitions".
-/
namespace PlasVerif.Spec.Balanced
open PlasVerif.Model.Context

/-- operations that neither open nor close a frame -/
def Op.plain : Op → Bool
  | .push _ _ => false
  | .pop _ => false
  | _ => true

/-- an object that may open a group inside a balanced history (not the document element) -/
def notDoc : Option ObjRef → Bool
  | none => true
  | some r => !r.docLevel

/-- `b` is a legitimate closer of the frame pushed by `a`: the same object (`{`…`}`, a command
    popping its own frame), or — as in documents — the `\end{env}` instance of the same class, or a
    macro named `end<name>`; a closer is never the parent node of what it closes. -/
def closes : Option ObjRef → Option ObjRef → Bool
  | none, none => true
  | some a, some b =>
    a.id == b.id ||
      (a.id != b.parent && ((a.typeId == b.typeId && b.modeEnd) || b.name == endPrefix ++ a.name))
  | _, _ => false

/-- balanced histories: plain operations, and groups `push o … pop o'` (with `o'` closing `o`)
    around balanced bodies, nested and sequenced arbitrarily -/
inductive Balanced : List Op → Prop
  | nil : Balanced []
  | op (o : Op) (rest : List Op) : Op.plain o = true → Balanced rest → Balanced (o :: rest)
  | group (o o' : Option ObjRef) (locals : List (Nat × Val)) (body rest : List Op) :
      notDoc o = true → closes o o' = true → Balanced body → Balanced rest →
      Balanced (Op.push o locals :: (body ++ Op.pop o' :: rest))

/-- the stack `c` with the definitions `g` added (newest first) to its global frame -/
def extG (g : List (Nat × Val)) (c : Ctx) : Ctx :=
  modifyGlobal (fun f => { f with macros := g ++ f.macros }) c

/-- `(n, v)` may be written to the global frame by `op` -/
def globalSource (n : Nat) : Op → Bool
  | .addGlobal m _ => m == n
  | .lookup m => m == n
  | .letCs _ s => s == n
  | .gdef m _ => m == n
  | _ => false

/-- `op` is a `\\gdef` of `n` -/
def isGdef (n : Nat) : Op → Bool
  | .gdef m _ => m == n
  | _ => false

/-- what a balanced history leaves of the stack `c`: the local bindings of the names in `ns`
    (those it defined globally with `\\gdef`) are gone from every enclosing level, and the
    definitions `g` were added to the global frame -/
def shape (g : List (Nat × Val)) (ns : List Nat) (c : Ctx) : Ctx := extG g (dropLocalsL ns c)

/-- the global frame's own binding of a name -/
def findGlobal (n : Nat) : Ctx → Option Val
  | [] => none
  | [g] => g.macros.lookup n
  | _ :: fs => findGlobal n fs

end PlasVerif.Spec.Balanced
