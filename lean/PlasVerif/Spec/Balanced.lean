import PlasVerif.Model.Context
/-!
Spec vocabulary for C04: balanced operation histories (the grammar the property
quantifies over) and the shape "the same stack, plus global definitions".
-/
namespace PlasVerif.Spec.Balanced
open PlasVerif.Model.Context

/-- operations that neither open nor close a frame -/
def Op.plain : Op → Bool
  | .push _ _ => false
  | .pop _ => false
  | _ => true

/-- an object that may open a group inside a balanced history (not the document element) -/
def notDoc : Option ObjRef → Bool
  | none => true
  | some r => !r.docLevel

/-- `b` is a legitimate closer of the frame pushed by `a`: the same object (`{`…`}`, a command
    popping its own frame), or — as in documents — the `\end{env}` instance of the same class, or a
    macro named `end<name>`; a closer is never the parent node of what it closes. -/
def closes : Option ObjRef → Option ObjRef → Bool
  | none, none => true
  | some a, some b =>
    a.id == b.id ||
      (a.id != b.parent && ((a.typeId == b.typeId && b.modeEnd) || b.name == endPrefix ++ a.name))
  | _, _ => false

/-- balanced histories: plain operations, and groups `push o … pop o'` (with `o'` closing `o`)
    around balanced bodies, nested and sequenced arbitrarily -/
inductive Balanced : List Op → Prop
  | nil : Balanced []
  | op (o : Op) (rest : List Op) : Op.plain o = true → Balanced rest → Balanced (o :: rest)
  | group (o o' : Option ObjRef) (locals : List (Nat × Val)) (body rest : List Op) :
      notDoc o = true → closes o o' = true → Balanced body → Balanced rest →
      Balanced (Op.push o locals :: (body ++ Op.pop o' :: rest))

/-- what a balanced history may leave behind on the stack it started from -/
structure Delta where
  /-- macro bindings added (newest first) to the global frame -/
  g : List (Nat × Val) := []
  /-- token aliases (`\\let\\x=<char>`) added to the global frame -/
  gl : List (Nat × Nat) := []
  /-- names whose macro bindings are gone from every frame above the global one (`\\gdef`, `\\global\\let`) -/
  ns : List Nat := []
  /-- names whose token aliases are gone from every frame above the global one (`\\global\\let`) -/
  ls : List Nat := []
  deriving Repr

/-- `a` after `b` -/
def Delta.app (a b : Delta) : Delta := ⟨a.g ++ b.g, a.gl ++ b.gl, a.ns ++ b.ns, a.ls ++ b.ls⟩

/-- effect on a frame above the global one -/
def Delta.localF (d : Delta) (f : Frame) : Frame :=
  { f with macros := f.macros.filter (fun p => !d.ns.contains p.1), lets := f.lets.filter (fun p => !d.ls.contains p.1) }

/-- effect on the global frame -/
def Delta.globalF (d : Delta) (f : Frame) : Frame :=
  { f with macros := d.g ++ f.macros, lets := d.gl ++ f.lets }

/-- apply `L` to every frame above the global one and `G` to the global frame -/
def mapFrames (L G : Frame → Frame) : Ctx → Ctx
  | [] => []
  | [g] => [G g]
  | f :: fs => L f :: mapFrames L G fs

/-- what a balanced history leaves of the stack `c`: the same frames, with the global frame extended by `d.g` / `d.gl`
    and the local bindings / aliases of the names in `d.ns` / `d.ls` gone from every enclosing level -/
def shape (d : Delta) (c : Ctx) : Ctx := mapFrames d.localF d.globalF c

/-- the stack `c` with the definitions `g` added (newest first) to its global frame -/
def extG (g : List (Nat × Val)) (c : Ctx) : Ctx := shape { g := g } c

/-- `op` may write a macro binding for `n` into the global frame -/
def globalSource (n : Nat) : Op → Bool
  | .addGlobal m _ => m == n
  | .lookup m => m == n
  | .letCs _ s => s == n
  | .gdef m _ => m == n
  | .gletCs d s => d == n || s == n
  | _ => false

/-- `op` is a global assignment to `n` (`\\gdef\\n`, `\\global\\let\\n…`): it removes the local macro bindings of `n` -/
def isGdef (n : Nat) : Op → Bool
  | .gdef m _ => m == n
  | .gletCs d _ => d == n
  | .gletTok d _ => d == n
  | _ => false

/-- `op` is a `\\global\\let` of `n`: it removes the local token aliases of `n` (and may add a global one) -/
def isGlet (n : Nat) : Op → Bool
  | .gletCs d _ => d == n
  | .gletTok d _ => d == n
  | _ => false

/-- every component of `d` is accounted for by an operation of `ops` -/
def Delta.justified (d : Delta) (ops : List Op) : Prop :=
  (∀ x ∈ d.g, ∃ op ∈ ops, globalSource x.1 op = true) ∧ (∀ n ∈ d.ns, ∃ op ∈ ops, isGdef n op = true) ∧
  (∀ x ∈ d.gl, ∃ op ∈ ops, isGlet x.1 op = true) ∧ (∀ n ∈ d.ls, ∃ op ∈ ops, isGlet n op = true)

/-- componentwise inclusion -/
def Delta.sub (a b : Delta) : Prop :=
  (∀ x ∈ a.g, x ∈ b.g) ∧ (∀ x ∈ a.ns, x ∈ b.ns) ∧ (∀ x ∈ a.gl, x ∈ b.gl) ∧ (∀ x ∈ a.ls, x ∈ b.ls)

/-- the global frame's own binding of a name -/
def findGlobal (n : Nat) : Ctx → Option Val
  | [] => none
  | [g] => g.macros.lookup n
  | _ :: fs => findGlobal n fs

end PlasVerif.Spec.Balanced
