import PlasVerif.Model.Config
/-!
# Spec vocabulary of C16: what the property text prescribes

Written from the statement, per option and per source, not from the code's loops:

* an option is *addressed* by a file line `key = value` in its section; a line with a key that no
  option of the section has is *routed* to the section's (first) dictionary option as one entry;
* scalar (string, integer, float, boolean): command line (last occurrence) > last file line > default;
* list: default, extended by every file line (blank-separated words) in file order, then by every
  command-line occurrence;
* dictionary: default, updated entry by entry by the files in order, then by the command line;
* booleans in files: yes/no, true/false, on/off, 1/0 (any case); on the command line the `--x` flag
  gives True and its `!`-paired `--no-x` flag gives False;
* reading back: `%(name)s` is replaced by the current (read-back) value of the option called `name`,
  `%%` by `%`.

Only the Python builtins' decimal literals (`parseInt`, `parseDec`), `shlex`-style word splitting and
`str()` (`valStr`) are shared with the model (they are trusted library behaviour, not plasTeX's).
`none` = outside the property's domain (a value that does not convert, a dangling reference).
-/
namespace PlasVerif.Spec.Config
open PlasVerif.Model.Config

/-- one line of a configuration file, with its section -/
structure Item where
  sec : Str
  key : Str
  val : Str
  deriving DecidableEq, Repr

/-- all lines of all files, in reading order -/
def flat (fs : List File) : List Item :=
  fs.flatMap fun f => f.flatMap fun s => s.2.map fun kv => ⟨s.1, kv.1, kv.2⟩

/-- what a file line means to one option -/
inductive Mention | direct (s : Str) | entry (k v : Str)
  deriving DecidableEq, Repr

def addressed (o : Opt) (it : Item) : Bool := it.sec = o.sec && it.key = o.key

def keyKnown (T : Table) (sec key : Str) : Bool := T.any fun p => p.sec = sec && p.key = key

/-- option `i` is the first dictionary option of its section -/
def firstDict (T : Table) (i : Nat) (o : Opt) : Bool :=
  isDict o.ty && (T.take i).all fun p => !(p.sec = o.sec && isDict p.ty)

def mentionOf (T : Table) (i : Nat) (o : Opt) (it : Item) : Option Mention :=
  if addressed o it then some (.direct it.val)
  else if it.sec = o.sec && firstDict T i o && !keyKnown T it.sec it.key then some (.entry it.key it.val)
  else none

def mentions (T : Table) (i : Nat) (o : Opt) (fs : List File) : List Mention := (flat fs).filterMap (mentionOf T i o)

/-! ### per-type meaning of the strings -/

def boolWords : List (Str × Bool) :=
  [(sYes, true), (sTrue, true), (sOn, true), (sOne, true), (sNo, false), (sFalse, false), (sOff, false), (sZero, false)]

def specBool (s : Str) : Option Bool := (boolWords.find? (·.1 = lower (strip s))).map (·.2)

def specAtom : ATy → Str → Option Atom
  | .str, s => some (.str s)
  | .int, s => (parseInt s).toOption.map .int
  | .flt, s => (parseDec s).toOption.map fun p => .flt p.1 p.2
  | .bool, s => (specBool s).map .bool

/-- a dictionary is Python's `dict`: assignment `d[k] = v` is the trusted builtin `dictSet` -/
abbrev dictPut := dictSet

def putEntry (t : ATy) (cur : List (Str × Atom)) (k v : Str) : Option (List (Str × Atom)) :=
  (specAtom t v).map (dictPut cur k)

/-- `a=b, c=d` -/
def entriesOf (s : Str) : Option (List (Str × Str)) :=
  (splitOn 44 s []).mapM fun e => (splitEq e []).map fun kv => (strip kv.1, strip kv.2)

def dictMention (t : ATy) (cur : List (Str × Atom)) : Mention → Option (List (Str × Atom))
  | .entry k v => putEntry t cur k v
  | .direct s => do
      let es ← entriesOf s
      es.foldlM (fun c kv => putEntry t c kv.1 kv.2) cur

def mentionStr : Mention → Str | .direct s => s | .entry _ v => v

/-- entries a command-line occurrence contributes (`--link name [url] title`, otherwise `key value`) -/
def cliEntries (links : Bool) (args : List Str) : Option (List (Str × Str)) :=
  if links then
    match args with
    | [n, title] => some [(n ++ [45, 116, 105, 116, 108, 101], title)]
    | [n, url, title] => some [(n ++ [45, 117, 114, 108], url), (n ++ [45, 116, 105, 116, 108, 101], title)]
    | _ => none
  else match args with
    | [k, v] => some [(k, v)]
    | _ => none

def flagsOf (o : Opt) : List Str := match o.ty with | .atom .bool => o.flags ++ o.noflags | _ => o.flags

def cliOccs (o : Opt) (argv : List Occ) : List Occ := argv.filter fun a => (flagsOf o).contains a.flag

/-- value after the files (before the command line) -/
def denFiles (o : Opt) (ms : List Mention) : Option Val :=
  match o.ty, o.dflt with
  | .atom t, d =>
    match ms.getLast? with
    | none => some d                                     -- untouched: the default
    | some m => (specAtom t (mentionStr m)).map .atom     -- a file value replaces; a later file overrides
  | .list, .list xs => some (.list (xs ++ (ms.map fun m => shlexSplit (mentionStr m)).flatten))   -- extends
  | .dict t _, .dict kvs => .dict <$> ms.foldlM (dictMention t) kvs                                -- extends / overrides per key
  | _, _ => none

/-- value after the command line -/
def denCli (o : Opt) (cur : Val) (occs : List Occ) : Option Val :=
  match o.ty, cur with
  | .atom .bool, c =>
    match occs.getLast? with
    | none => some c
    | some a => some (.atom (.bool (o.flags.contains a.flag)))
  | .atom t, c =>
    match occs.getLast? with
    | none => some c
    | some a => match a.args with
      | [s] => (specAtom t s).map .atom
      | _ => none
  | .list, .list xs => some (.list (xs ++ (occs.map (·.args)).flatten))
  | .dict t links, .dict kvs =>
    .dict <$> occs.foldlM (fun c a => do
      let es ← cliEntries links a.args
      es.foldlM (fun c kv => putEntry t c kv.1 kv.2) c) kvs
  | _, _ => none

/-- the value the property prescribes for option `i` after defaults, files (in order) and command line -/
def den (T : Table) (files : List File) (argv : List Occ) (i : Nat) : Option Val :=
  match T[i]? with
  | none => none
  | some o => do
    let v ← denFiles o (mentions T i o files)
    denCli o v (cliOccs o argv)

/-! ### the domain: every value converts, every command-line occurrence is a registered option with proper arguments -/

def occWf (T : Table) (a : Occ) : Bool :=
  match T.find? (fun o => (flagsOf o).contains a.flag) with
  | none => false
  | some o => match o.ty with
    | .atom .bool => a.args.isEmpty
    | .atom t => match a.args with | [s] => (specAtom t s).isSome | _ => false
    | .list => true
    | .dict _ true => !a.args.isEmpty
    | .dict _ false => a.args.length == 2

def itemWf (T : Table) (it : Item) : Bool :=
  T.zipIdx.all fun oi => match mentionOf T oi.2 oi.1 it, oi.1.ty with
    | some m, .atom t => (specAtom t (mentionStr m)).isSome
    | _, _ => true

def inDomain (T : Table) (files : List File) (argv : List Occ) : Bool :=
  argv.all (occWf T) && (flat files).all (itemWf T)

/-! ### histories: layers applied one after the other, assignments, read-backs in between -/

/-- value after one more batch of file lines, starting from the current value -/
def denFilesFrom (ty : Ty) (cur : Val) (ms : List Mention) : Option Val :=
  match ty, cur with
  | .atom t, d =>
    match ms.getLast? with
    | none => some d
    | some m => (specAtom t (mentionStr m)).map .atom
  | .list, .list xs => some (.list (xs ++ (ms.map fun m => shlexSplit (mentionStr m)).flatten))
  | .dict t _, .dict kvs => .dict <$> ms.foldlM (dictMention t) kvs
  | _, _ => none

/-- a value has the shape of its option class (the domain of assignments) -/
def shaped : Ty → Val → Bool
  | .atom _, .atom _ => true
  | .list, .list _ => true
  | .dict _ _, .dict _ => true
  | _, _ => false

/-- what one step of a history does to option `i`: a file and a command line act as in `den`, on the current value;
    an assignment replaces the value of the addressed option; an observation changes nothing -/
def denStep (T : Table) (i : Nat) (o : Opt) (cur : Val) : Step → Option Val
  | .read f => denFilesFrom o.ty cur (mentions T i o [f])
  | .cli argv => denCli o cur (cliOccs o argv)
  | .assign sec key v => if o.sec = sec && o.key = key then (if shaped o.ty v then some v else none) else some cur
  | .observe => some cur

/-- the value of option `i` after a history, from its default -/
def denHist (T : Table) (steps : List Step) (i : Nat) : Option Val :=
  match T[i]? with
  | none => none
  | some o => steps.foldlM (denStep T i o) o.dflt

def stepWf (T : Table) : Step → Bool
  | .read f => (flat [f]).all (itemWf T)
  | .cli argv => argv.all (occWf T)
  | .assign sec key _ => keyKnown T sec key
  | .observe => true

/-! ### the words of a command line (entry point `client.main`) -/

/-- what a user writes: `-c name` / `--config name`, the document, an option string with its words — in any order -/
inductive Piece | cfg (long : Bool) (name : Str) | pos (w : Str) | occ (a : Occ)
  deriving DecidableEq, Repr

def Piece.words : Piece → List Str
  | .cfg l n => [if l then sConfig else sDashC, n]
  | .pos w => [w]
  | .occ a => a.flag :: a.args

def renderPieces (ps : List Piece) : List Str := ps.flatMap Piece.words

def cfgNames : List Piece → List Str
  | [] => []
  | .cfg _ n :: r => n :: cfgNames r
  | _ :: r => cfgNames r
def posWords : List Piece → List Str
  | [] => []
  | .pos w :: r => w :: posWords r
  | _ :: r => posWords r
def occsOfPieces : List Piece → List Occ
  | [] => []
  | .occ a :: r => a :: occsOfPieces r
  | _ :: r => occsOfPieces r

/-- the next piece, if any, begins with an option string -/
def startsOpt : List Piece → Bool
  | .pos _ :: _ => false
  | _ => true

/-- a piece is unambiguous: values are plain words, the option string is registered and gets the number of words its
    class takes; an option that takes "all following words" (`nargs='*'`, `'+'`) is not directly followed by the document -/
def pieceOk (T : Table) (p : Piece) (rest : List Piece) : Bool :=
  match p with
  | .cfg _ n => !optLike n
  | .pos w => !optLike w
  | .occ a => optLike a.flag && !(a.flag = sDashC || a.flag = sConfig) && a.args.all (fun w => !optLike w) &&
      match T.find? (owns · a.flag) with
      | none => false
      | some o => match nargsOf o with
        | .zero => a.args.isEmpty
        | .one => a.args.length == 1
        | .two => a.args.length == 2
        | .star => startsOpt rest
        | .plus => !a.args.isEmpty && startsOpt rest

def piecesOk (T : Table) : List Piece → Bool
  | [] => true
  | p :: r => pieceOk T p r && piecesOk T r

/-! ### reading back -/

/-- format strings of the property: literal text without `%`, `%%`, `%(name)s` -/
inductive Seg | lit (s : Str) | pct | ref (name : Str)
  deriving DecidableEq, Repr

def Seg.render : Seg → Str
  | .lit s => s
  | .pct => [37, 37]
  | .ref n => [37, 40] ++ n ++ [41, 115]

def render (segs : List Seg) : Str := (segs.map Seg.render).flatten

def Seg.wf : Seg → Bool
  | .lit s => !s.contains 37
  | .pct => true
  | .ref n => !n.contains 41

/-- what a format string reads back as, given the meaning of names -/
def segsDen (look : Str → Option Str) : List Seg → Option Str
  | [] => some []
  | .lit s :: r => (s ++ ·) <$> segsDen look r
  | .pct :: r => (37 :: ·) <$> segsDen look r
  | .ref n :: r => do let v ← look n; let rest ← segsDen look r; pure (v ++ rest)

/-- independent parser of format strings (used by the executable oracle only) -/
def parseSegs : Nat → Str → Option (List Seg)
  | 0, _ => none
  | _ + 1, [] => some []
  | f + 1, 37 :: 37 :: r => (Seg.pct :: ·) <$> parseSegs f r
  | f + 1, 37 :: 40 :: r =>
    let n := r.takeWhile (· ≠ 41)
    match r.dropWhile (· ≠ 41) with
    | 41 :: 115 :: r' => (Seg.ref n :: ·) <$> parseSegs f r'
    | _ => none
  | _ + 1, 37 :: _ => none
  | f + 1, c :: r =>
    let s := (c :: r).takeWhile (· ≠ 37)
    (Seg.lit s :: ·) <$> parseSegs f ((c :: r).dropWhile (· ≠ 37))

/-- the option a name refers to: the first one (sections in order) with that key -/
def named (T : Table) (name : Str) : Option Nat := (candidates T name).head?

/-- prescribed read-back value of option `i` for current values `st` -/
def specReadBack (T : Table) (st : Nat → Option Val) : Nat → Nat → Option Val
  | 0, _ => none
  | f + 1, i =>
    let look := fun name => do
      let j ← named T name
      let v ← specReadBack T st f j
      pure (valStr v)
    match st i with
    | some (.atom (.str s)) => do
      let segs ← parseSegs (s.length + 1) s
      let r ← segsDen look segs
      pure (.atom (.str r))
    | some (.list xs) => .list <$> xs.mapM fun s => do
      let segs ← parseSegs (s.length + 1) s
      segsDen look segs
    | v => v

end PlasVerif.Spec.Config
