import PlasVerif.Model.Tests
/-!
TeX's rules for the tests listed in C03 (The TeXbook p. 209–210), written independently of the
code: what each test must decide.
-/
namespace PlasVerif.Spec.TeXTests
open PlasVerif.Model.Tests

/-- `\ifnum a r b` / `\ifdim a r b`: the relation itself (undefined for a character that is not `<`, `>`, `=`) -/
def texRel : Rel → Int → Int → Option Bool
  | .lt, a, b => some (decide (a < b))
  | .gt, a, b => some (decide (a > b))
  | .eq, a, b => some (decide (a = b))
  | .bad, _, _ => none

/-! TeX's ⟨number⟩ / ⟨dimen⟩ (TeXbook ch. 24): optional signs, then an unsigned value; the result is
    negated once for every `-`, i.e. negated iff the number of `-` signs is odd. -/

def minusCount : Operand → Nat
  | .neg o => minusCount o + 1
  | _ => 0

def unsignedValue (s : St) : Operand → Int
  | .neg o => unsignedValue s o
  | .lit n => n
  | .cnt c => s.cnt c
  | .mac n => n
  | .reg r => s.reg r

def texNumber (s : St) (o : Operand) : Int :=
  if minusCount o % 2 = 0 then unsignedValue s o else - unsignedValue s o

def dMinusCount : DOperand → Nat
  | .neg o => dMinusCount o + 1
  | _ => 0

def dUnsignedValue (s : St) : DOperand → Int
  | .neg o => dUnsignedValue s o
  | .lit n => n
  | .reg d => s.dreg d
  | .coef k d => k * s.dreg d

def texDimen (s : St) (o : DOperand) : Int :=
  if dMinusCount o % 2 = 0 then dUnsignedValue s o else - dUnsignedValue s o

/-- `\ifodd n`: true iff `n` is odd (also for negative `n`) -/
def texOdd (n : Int) : Bool := n.natAbs % 2 == 1

/-- NF-prog 4: `\ifx` compares two character tokens, or two macros with plain text bodies -/
def nfIfx : XTok → XTok → Bool
  | .chr _, .chr _ => true
  | .mac _ _, .mac _ _ => true
  | _, _ => false

/-- `\ifx`: characters agree iff same code (same category in the generated programs);
    macros agree iff their replacement texts agree -/
def texIfx : XTok → XTok → Bool
  | .chr a, .chr b => a == b
  | .mac _ x, .mac _ y => x == y
  | _, _ => false

/-- `\newif\if<rest>` (TeXbook p. 211; LaTeX `\newif`): the setters are `\<rest>true` and `\<rest>false`
    where `<rest>` is the switch name without its first two characters `if` — whatever letters `<rest>`
    itself begins with.  `none` when the name does not start with `if` (TeX then raises an error). -/
def texSetterNames : List Nat → Option (List Nat × List Nat)
  | 105 :: 102 :: rest => some (rest ++ [116, 114, 117, 101], rest ++ [102, 97, 108, 115, 101])
  | _ => none

/-- TeX's verdict for a relation character (`<` 60, `>` 62, `=` 61) on two values (integers, or dimensions in sp) -/
def relVerdict {β} [LT β] [DecidableEq β] [DecidableRel (α := β) (· < ·)] (c : Nat) (a b : β) : Bool :=
  if c = 60 then decide (a < b) else if c = 62 then decide (b < a) else decide (a = b)

end PlasVerif.Spec.TeXTests
