import PlasVerif.Model.Tests
/-!
TeX's rules for the tests listed in C03 (The TeXbook p. 209–210), written independently of the
code: what each test must decide.
-/
namespace PlasVerif.Spec.TeXTests
open PlasVerif.Model.Tests

/-- `\ifnum a r b` / `\ifdim a r b`: the relation itself (undefined for a character that is not `<`, `>`, `=`) -/
def texRel : Rel → Int → Int → Option Bool
  | .lt, a, b => some (decide (a < b))
  | .gt, a, b => some (decide (a > b))
  | .eq, a, b => some (decide (a = b))
  | .bad, _, _ => none

/-- `\ifodd n`: true iff `n` is odd (also for negative `n`) -/
def texOdd (n : Int) : Bool := n.natAbs % 2 == 1

/-- NF-prog 4: `\ifx` compares two character tokens, or two macros with plain text bodies -/
def nfIfx : XTok → XTok → Bool
  | .chr _, .chr _ => true
  | .mac _ _, .mac _ _ => true
  | _, _ => false

/-- `\ifx`: characters agree iff same code (same category in the generated programs);
    macros agree iff their replacement texts agree -/
def texIfx : XTok → XTok → Bool
  | .chr a, .chr b => a == b
  | .mac _ x, .mac _ y => x == y
  | _, _ => false

end PlasVerif.Spec.TeXTests
