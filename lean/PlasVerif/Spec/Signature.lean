import PlasVerif.Model.Signature
/-!
The grammar of macro signatures property C05 quantifies over, written from the property text and the plasTeX
documentation of the `args` attribute ("Arguments delimited, typed and bound as the signature declares"):

  signature ::= item (' ' item)*
  item      ::= '*' | '+' | '-'                       -- modifier
              | '='                                   -- optional equals sign
              | name-spec                             -- mandatory, undelimited ("one token or group")
              | '[ ' name-spec ' ]' | '( ' name-spec ' )' | '< ' name-spec ' >' | '{ ' name-spec ' }'
  name-spec ::= name [ ':' type [ '(' delimiter ')' ] [ ':' subtype ] ]

Each item declares exactly one argument; its position in the signature is its index; the options are what
was written: the bracket pair, the type, the list delimiter (`None` when a type but no delimiter was given),
the subtype; arguments are expanded unless their type is `cs` or `nox`; `url` arguments get an (empty)
list of character substitutions.

Only `Argument`/`Options` (the observable result type) are taken from the Model file.
-/
namespace PlasVerif.Spec.Signature
open PlasVerif.Model.Signature (Argument Options)

inductive Modifier | star | plus | minus
deriving DecidableEq, Repr

inductive Delim | none | square | paren | angle | brace
deriving DecidableEq, Repr

structure TypeSpec where
  ty : List Nat
  delim : Option Nat := none
  sub : Option (List Nat) := none
deriving DecidableEq, Repr

inductive SigItem
  | modifier (m : Modifier)
  | equals
  | arg (d : Delim) (name : List Nat) (ty : Option TypeSpec)
deriving DecidableEq, Repr

abbrev Sig := List SigItem

/-! ### well-formedness -/
def letter (c : Nat) : Bool := (65 ≤ c && c ≤ 90) || (97 ≤ c && c ≤ 122)
def digit (c : Nat) : Bool := 48 ≤ c && c ≤ 57
/-- identifier character: letter, digit or underscore -/
def identChar (c : Nat) : Bool := letter c || digit c || c == 95
def blank (c : Nat) : Bool := c == 32 || (9 ≤ c && c ≤ 13) || (28 ≤ c && c ≤ 31)

/-- names: non-empty, first character a letter, then identifier characters -/
def wfName : List Nat → Bool
  | [] => false
  | c :: cs => letter c && cs.all identChar

/-- type and subtype names: non-empty identifiers (`str`, `Dimen`, `list`, …) -/
def wfIdent (w : List Nat) : Bool := !w.isEmpty && w.all identChar

/-- a list delimiter: one ASCII character that is neither an identifier character nor blank, and not the
colon (the colon separates the fields of the name-spec itself; see the `(:)` quirk in the proofs file) -/
def wfDelimChar (c : Nat) : Bool := c < 128 && !identChar c && !blank c && c != 58

def wfType (t : TypeSpec) : Bool :=
  wfIdent t.ty && (match t.delim with | some c => wfDelimChar c | none => true) &&
  (match t.sub with | some s => wfIdent s | none => true)

def wfItem : SigItem → Bool
  | .modifier _ => true
  | .equals => true
  | .arg _ name ty => wfName name && (match ty with | some t => wfType t | none => true)

/-- decidable well-formedness of a signature -/
def WF (sig : Sig) : Bool := sig.all wfItem

/-! ### rendering -/
def Modifier.char : Modifier → Nat
  | .star => 42 | .plus => 43 | .minus => 45

def Delim.opening : Delim → Option Nat
  | .none => Option.none | .square => some 91 | .paren => some 40 | .angle => some 60 | .brace => some 123
def Delim.closing : Delim → Option Nat
  | .none => Option.none | .square => some 93 | .paren => some 41 | .angle => some 62 | .brace => some 125

/-- `type[(d)][:subtype]` preceded by its colon -/
def typeText (t : TypeSpec) : List Nat :=
  58 :: t.ty ++ (match t.delim with | some c => [40, c, 41] | none => []) ++
    (match t.sub with | some s => 58 :: s | none => [])

/-- `name[:type[(d)][:subtype]]` -/
def nameSpec (name : List Nat) (ty : Option TypeSpec) : List Nat :=
  name ++ (match ty with | some t => typeText t | none => [])

/-- the blank-separated words of one item as the author writes them -/
def itemWords : SigItem → List (List Nat)
  | .modifier m => [[m.char]]
  | .equals => [[61]]
  | .arg d name ty =>
    (match d.opening with | some c => [[c]] | none => []) ++ [nameSpec name ty] ++
    (match d.closing with | some c => [[c]] | none => [])

/-- all words of the signature -/
def sigItems : Sig → List (List Nat)
  | [] => []
  | it :: rest => itemWords it ++ sigItems rest

def joinWords : List (List Nat) → List Nat
  | [] => []
  | [w] => w
  | w :: ws => w ++ 32 :: joinWords ws

/-- canonical spelling: every word separated by one space, e.g. `* [ opt:dict(;) ] < a:str > n:list:int = ( p )` -/
def renderSig (sig : Sig) : List Nat := joinWords (sigItems sig)

/-! ### the arguments the signature declares -/
def modifierName : List Nat := [42, 109, 111, 100, 105, 102, 105, 101, 114, 42]  -- '*modifier*'
def equalsName : List Nat := [42, 101, 113, 117, 97, 108, 115, 42]              -- '*equals*'

def Delim.spec : Delim → Option (List Nat)
  | .none => Option.none | .square => some [91, 93] | .paren => some [40, 41]
  | .angle => some [60, 62] | .brace => some [123, 125]

/-- `cs` and `nox` arguments are not expanded -/
def isUnexpanded (ty : List Nat) : Bool := ty = [99, 115] || ty = [110, 111, 120]
def isUrl (ty : List Nat) : Bool := ty = [117, 114, 108]

def expectedArg (i : Nat) : SigItem → Argument
  | .modifier m => ⟨modifierName, i, { spec := some [m.char] }⟩
  | .equals => ⟨equalsName, i, { spec := some [61] }⟩
  | .arg d name Option.none => ⟨name, i, { spec := d.spec, expanded := some true }⟩
  | .arg d name (some t) =>
    ⟨name, i, { spec := d.spec, type := some t.ty, delim := t.delim, hasDelimKey := true, subtype := t.sub,
                expanded := some (!isUnexpanded t.ty), charsubs := isUrl t.ty }⟩

def expectedFrom (i : Nat) : Sig → List Argument
  | [] => []
  | it :: rest => expectedArg i it :: expectedFrom (i + 1) rest

/-- one argument per item, index = position -/
def expected (sig : Sig) : List Argument := expectedFrom 0 sig


/-! ### any spelling: free blanks between the words -/

/-- the words with `gaps[i]` blanks after word `i` (one blank when the list runs out; after the last word any number) -/
def joinGaps : List (List Nat) → List Nat → List Nat
  | [], _ => []
  | [w], gs => w ++ List.replicate (gs.headD 0) 32
  | w :: w2 :: ws, gs => w ++ (List.replicate (gs.headD 1) 32 ++ joinGaps (w2 :: ws) gs.tail)

/-- the signature spelled with `lead` blanks in front and the given blanks between its words: `*[opt] arg`, `[ a:str ]b`, … -/
def renderSpaced (lead : Nat) (gaps : List Nat) (sig : Sig) : List Nat :=
  List.replicate lead 32 ++ joinGaps (sigItems sig) gaps

/-- a one-character bracket / modifier / `=` word: anything may follow it directly -/
def isPunctWord (w : List Nat) : Bool :=
  match w with
  | [c] => !identChar c && !blank c
  | _ => false

/-- may directly follow a name specification: not a word character (it would extend the name), not `:` or `(` (they
    would be read as its type / delimiter) -/
def followOK : List Nat → Bool
  | [] => true
  | c :: _ => !identChar c && c != 58 && c != 40

/-- blanks may be left out after a bracket/modifier/`=`, and before a word that cannot be glued to the previous one -/
def gapsOK : List (List Nat) → List Nat → Bool
  | [], _ => true
  | [_], _ => true
  | w :: w2 :: ws, gs => (decide (gs.headD 1 > 0) || isPunctWord w || followOK w2) && gapsOK (w2 :: ws) gs.tail

end PlasVerif.Spec.Signature
