/-!
# Spec vocabulary for C12: reading HTML character data

Written from the HTML syntax (WHATWG "character references", "data state"), not from plasTeX:
in character data `<` opens markup, `&` opens a character reference; the references a reader
resolves here are the named `&amp; &lt; &gt; &quot; &apos; &nbsp;` and the decimal `&#N;`
(an `&` that does not begin one of these is an ordinary character, as in every HTML parser).
`decode` is the text a reader displays for a piece of character data.  Characters are code points.
The document-level oracle uses Python's `html.parser` itself; stream `dec` ties `decode` to it.
-/
namespace PlasVerif.Spec.HtmlText

def isDigit (c : Nat) : Bool := 48 ≤ c && c ≤ 57

def parseDec (ds : List Nat) : Nat := ds.foldl (fun a d => a * 10 + (d - 48)) 0

/-- the maximal run of decimal digits at the head, and the rest -/
def spanDigits : List Nat → List Nat × List Nat
  | [] => ([], [])
  | c :: cs => if isDigit c then ((spanDigits cs).1.cons c, (spanDigits cs).2) else ([], c :: cs)

def stripPrefix? : List Nat → List Nat → Option (List Nat)
  | [], s => some s
  | _ :: _, [] => none
  | p :: ps, c :: cs => if p = c then stripPrefix? ps cs else none

/-- named references (name including the `;`, after the `&`) and the character they stand for -/
def namedRefs : List (List Nat × Nat) :=
  [([97, 109, 112, 59], 38),        -- amp;
   ([108, 116, 59], 60),            -- lt;
   ([103, 116, 59], 62),            -- gt;
   ([113, 117, 111, 116, 59], 34),  -- quot;
   ([97, 112, 111, 115, 59], 39),   -- apos;
   ([110, 98, 115, 112, 59], 160)]  -- nbsp;

def matchNamed : List (List Nat × Nat) → List Nat → Option (Nat × List Nat)
  | [], _ => none
  | (p, d) :: more, t =>
    match stripPrefix? p t with
    | some r => some (d, r)
    | none => matchNamed more t

/-- after `#`: the digits read, and what follows them: a reference iff ≥ 1 digit and a `;` -/
def numericTail (ds r : List Nat) : Option (Nat × List Nat) :=
  match ds, r with
  | _ :: _, 59 :: r' => some (parseDec ds, r')
  | _, _ => none

/-- `#` digits+ `;` -/
def matchNumeric : List Nat → Option (Nat × List Nat)
  | 35 :: u => numericTail (spanDigits u).1 (spanDigits u).2
  | _ => none

/-- the character reference that starts right after an `&`, if any: (character, rest) -/
def matchRef (t : List Nat) : Option (Nat × List Nat) :=
  match matchNamed namedRefs t with
  | some x => some x
  | none => matchNumeric t

theorem stripPrefix?_length : ∀ (p s r : List Nat), stripPrefix? p s = some r → r.length ≤ s.length
  | [], s, r, h => by simp [stripPrefix?] at h; simp [h]
  | _ :: _, [], r, h => by simp [stripPrefix?] at h
  | p :: ps, c :: cs, r, h => by
    simp only [stripPrefix?] at h
    split at h
    · have := stripPrefix?_length ps cs r h; simp; omega
    · cases h

theorem matchNamed_length : ∀ (tbl : List (List Nat × Nat)) (t : List Nat) (d : Nat) (r : List Nat),
    matchNamed tbl t = some (d, r) → r.length ≤ t.length
  | [], _, _, _, h => by simp [matchNamed] at h
  | (p, d') :: more, t, d, r, h => by
    simp only [matchNamed] at h
    split at h
    · rename_i r' hr
      cases h
      exact stripPrefix?_length _ _ _ hr
    · exact matchNamed_length more t d r h

theorem spanDigits_length (s : List Nat) : (spanDigits s).2.length ≤ s.length := by
  induction s with
  | nil => simp [spanDigits]
  | cons c cs ih =>
    simp only [spanDigits]
    split <;> simp <;> omega

theorem numericTail_length (ds r : List Nat) (d : Nat) (r' : List Nat)
    (h : numericTail ds r = some (d, r')) : r'.length ≤ r.length := by
  unfold numericTail at h
  split at h
  · cases h; simp
  · cases h

theorem matchNumeric_length (t : List Nat) (d : Nat) (r : List Nat)
    (h : matchNumeric t = some (d, r)) : r.length ≤ t.length := by
  unfold matchNumeric at h
  split at h
  · rename_i u
    have h1 := numericTail_length _ _ _ _ h
    have h2 := spanDigits_length u
    simp; omega
  · cases h

theorem matchRef_length (t : List Nat) (d : Nat) (r : List Nat)
    (h : matchRef t = some (d, r)) : r.length ≤ t.length := by
  unfold matchRef at h
  split at h
  · rename_i x hx
    cases h
    exact matchNamed_length _ _ _ _ hx
  · exact matchNumeric_length _ _ _ h

/-- The text displayed for a piece of character data: references resolved, everything else literal. -/
def decode : List Nat → List Nat
  | [] => []
  | c :: t =>
    if c = 38 then
      match h : matchRef t with
      | some (d, r) => d :: decode r
      | none => 38 :: decode t
    else c :: decode t
termination_by s => s.length
decreasing_by
  all_goals simp_wf
  · have := matchRef_length t d r h; omega

/-- every `&` of `s` begins a character reference -/
def refsOnly : List Nat → Bool
  | [] => true
  | c :: t => (c != 38 || (matchRef t).isSome) && refsOnly t

/-- Character data that cannot be read as markup: no `<`, no `>`, every `&` starts a reference. -/
def NoMarkup (s : List Nat) : Prop := 60 ∉ s ∧ 62 ∉ s ∧ refsOnly s = true

/-- 7-bit clean -/
def Ascii (s : List Nat) : Prop := ∀ c ∈ s, c ≤ 127

/-! ### text of a rendered tree (for the `Renderable.__str__` clause)
A *tag sequence* is template markup that contributes no character data: `<…>` groups only. -/

/-- remove complete `<…>` groups; what remains is character data (`inTag`: inside `<…`) -/
def stripTagsAux : Bool → List Nat → List Nat
  | _, [] => []
  | false, c :: cs => if c = 60 then stripTagsAux true cs else c :: stripTagsAux false cs
  | true, c :: cs => if c = 62 then stripTagsAux false cs else stripTagsAux true cs

def stripTags (s : List Nat) : List Nat := stripTagsAux false s

/-- the text a reader displays for a file: tags removed, references resolved -/
def textOf (s : List Nat) : List Nat := decode (stripTags s)

end PlasVerif.Spec.HtmlText
