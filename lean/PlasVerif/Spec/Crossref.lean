import PlasVerif.Model.Labels
/-!
Spec for C09, written from the property text (LaTeX's `\label`/`\ref` rule), not from the code.

A history is the sequence of events of a document in source order: an object gets numbered
(`numbered n`: from here on `n` is the object a `\label` refers to), its number is fixed
(`number n v`), a `\label{l}` is written (`label l none`; `label l (some n)` names its object
explicitly), a `\ref{l}`/`\pageref{l}` is written (`ref r s l`: referring object `r`, slot `s`).

The *order-free* meaning:
* `attach h l`   – the object that label `l` names: the object most recently numbered before the
                   (first) `\label{l}` event.  It looks only at `numbered`/`label` events.
* `resolveSpec`  – every reference to `l`, wherever it stands, means `attach h l`; a label that is
                   written nowhere (or names no object) gives *no object*.
* `identOf h n`  – the identifier of object `n`: the label last attached to it.
* `numberOf h n` – the number of object `n`.
-/
namespace PlasVerif.Spec.Crossref
open PlasVerif.Model.Labels

/-- what a reference denotes -/
inductive Resolution where
  | object (n : NodeId)
  | noObject
  deriving DecidableEq, Repr

/-- the object a label event names: explicitly given, else the current numbered object -/
def named (cur : Option NodeId) : Option NodeId → Option NodeId
  | some n => some n
  | none => cur

def attachFrom (cur : Option NodeId) : List Op → Label → Option NodeId
  | [], _ => none
  | .numbered n :: h, l => attachFrom (some n) h l
  | .label l' nd :: h, l => if l' = l ∧ l' ≠ 0 then named cur nd else attachFrom cur h l
  | _ :: h, l => attachFrom cur h l

def attach (h : List Op) (l : Label) : Option NodeId := attachFrom none h l

def resolveSpec (h : List Op) (l : Label) : Resolution :=
  match attach h l with
  | some n => .object n
  | none => .noObject

/-- what the model's `Target` means in the property's vocabulary -/
def Target.meaning : Target → Resolution
  | .node n => .object n
  | .placeholder _ => .noObject

/-- labels written in the history (blank ones are not labels) -/
def labelNames : List Op → List Label
  | [] => []
  | .label l _ :: h => if l = 0 then labelNames h else l :: labelNames h
  | _ :: h => labelNames h

/-- the (object, slot) pairs that are filled by the references of the history -/
def refKeys : List Op → List (RefId × Slot)
  | [] => []
  | .ref r s l :: h => if l = 0 then refKeys h else (r, s) :: refKeys h
  | _ :: h => refKeys h

/-- the objects that get a label, in order -/
def attachedNodes (cur : Option NodeId) : List Op → List NodeId
  | [] => []
  | .numbered n :: h => attachedNodes (some n) h
  | .label l nd :: h =>
    if l = 0 then attachedNodes cur h else
    match named cur nd with
    | some n => n :: attachedNodes cur h
    | none => attachedNodes cur h
  | _ :: h => attachedNodes cur h

/-- NF-doc: labels pairwise distinct -/
def LabelsDistinct (h : List Op) : Prop := (labelNames h).Nodup
/-- every reference fills its own slot of its own object (each `\ref` is parsed once) -/
def RefKeysDistinct (h : List Op) : Prop := (refKeys h).Nodup
/-- no object carries two labels -/
def ObjectsLabelledOnce (h : List Op) : Prop := (attachedNodes none h).Nodup

instance (h : List Op) : Decidable (LabelsDistinct h) := by unfold LabelsDistinct; infer_instance
instance (h : List Op) : Decidable (RefKeysDistinct h) := by unfold RefKeysDistinct; infer_instance
instance (h : List Op) : Decidable (ObjectsLabelledOnce h) := by unfold ObjectsLabelledOnce; infer_instance

/-- the `numbered`/`label`/`number` skeleton of a history (everything but the references) -/
def skeleton (h : List Op) : List Op := h.filter fun | .ref .. => false | _ => true

/-- identifier of object `n`: the label last attached to it -/
def identFrom (cur : Option NodeId) (acc : Option Label) : List Op → NodeId → Option Label
  | [], _ => acc
  | .numbered m :: h, n => identFrom (some m) acc h n
  | .label l nd :: h, n =>
    if l ≠ 0 ∧ named cur nd = some n then identFrom cur (some l) h n else identFrom cur acc h n
  | _ :: h, n => identFrom cur acc h n

def identOf (h : List Op) (n : NodeId) : Option Label := identFrom none none h n

/-- number of object `n`: the value last given to it -/
def numberFrom (acc : Option Num) : List Op → NodeId → Option Num
  | [], _ => acc
  | .number m v :: h, n => if m = n then numberFrom (some v) h n else numberFrom acc h n
  | _ :: h, n => numberFrom acc h n

def numberOf (h : List Op) (n : NodeId) : Option Num := numberFrom none h n

def isNumbered : Op → Bool
  | .numbered _ => true
  | _ => false

/-! ### several jobs in one directory

Other jobs' label files make *their* labels referable; the job's own file from an earlier run is
not an input of the current run.  A label written in the document always means the document's object. -/

/-- the entries a run of `job` may see: those of the other jobs -/
def foreignEntries (job : Nat) (files : List PauxFile) : List Entry :=
  (files.filter (fun f => f.job ≠ job)).flatMap PauxFile.entries

def resolveSpecX (job : Nat) (files : List PauxFile) (h : List Op) (l : Label) : Resolution :=
  if l ∈ labelNames h then resolveSpec h l
  else match (foreignEntries job files).find? (fun e => e.lab = l) with
    | some e => .object e.node
    | none => .noObject

def numberSpecX (job : Nat) (files : List PauxFile) (h : List Op) (l : Label) : Option Num :=
  if l ∈ labelNames h then (match attach h l with | some n => numberOf h n | none => none)
  else ((foreignEntries job files).find? (fun e => e.lab = l)).map Entry.num

/-- the other jobs' labels are pairwise distinct, name distinct objects and are not labels of this document -/
def ForeignOk (job : Nat) (files : List PauxFile) (h : List Op) : Prop :=
  ((foreignEntries job files).map Entry.lab).Nodup ∧ ((foreignEntries job files).map Entry.node).Nodup ∧
  ∀ l ∈ labelNames h, l ∉ (foreignEntries job files).map Entry.lab

instance (job : Nat) (files : List PauxFile) (h : List Op) : Decidable (ForeignOk job files h) := by
  unfold ForeignOk; infer_instance

end PlasVerif.Spec.Crossref
