import PlasVerif.Model.ListNumbering
/-!
Spec vocabulary for list numbering (from the LaTeX manual, C.6.2: the items of a list at
nesting level d are counted by the d-th list counter, starting at 1; `\item[label]` does not
count): forests of nested lists, their macro invocations in document order, and the number
every item must carry.
-/
namespace PlasVerif.Spec.ListNumbers
open PlasVerif.Model.ListNumbering

mutual
/-- a list = its items; an item = has a label?, the lists nested in it, in order -/
inductive LItems where
  | nil | cons (hasTerm : Bool) (subs : LLists) (rest : LItems)
inductive LLists where
  | nil | cons (l : LItems) (rest : LLists)
end

mutual
def LItems.events : LItems → List Ev
  | .nil => []
  | .cons t subs rest => .item t :: (subs.events ++ rest.events)
def LLists.events : LLists → List Ev
  | .nil => []
  | .cons l rest => .begin_ :: (l.events ++ (.end_ :: rest.events))
end

mutual
/-- items of a list at nesting level `d` (1-based) of which `v` have been counted already -/
def LItems.expect (d v : Nat) : LItems → List ItemObs
  | .nil => []
  | .cons t subs rest =>
    ⟨if t then 4 else d - 1, v + 1⟩ :: (subs.expect d ++ rest.expect d (if t then v else v + 1))
/-- lists written at nesting level `d` (their items are at level `d + 1`) -/
def LLists.expect (d : Nat) : LLists → List ItemObs
  | .nil => []
  | .cons l rest => l.expect (d + 1) 0 ++ rest.expect d
end

mutual
/-- nesting stays within the four levels LaTeX provides -/
def LItems.fits (d : Nat) : LItems → Bool
  | .nil => true
  | .cons _ subs rest => subs.fits d && rest.fits d
def LLists.fits (d : Nat) : LLists → Bool
  | .nil => true
  | .cons l rest => decide (d + 1 ≤ 4) && l.fits (d + 1) && rest.fits d
end

/-- number of counted (unlabelled) items -/
def LItems.counted : LItems → Nat
  | .nil => 0
  | .cons t _ rest => (if t then 0 else 1) + rest.counted

end PlasVerif.Spec.ListNumbers
