/-!
What a signed decimal numeral denotes (TeXbook ch. 24: ⟨number⟩ → ⟨optional signs⟩⟨unsigned number⟩; each sign may be
followed by blanks; the value is negated once per minus sign).  Independent of the code: positional notation by `foldl`.
-/
namespace PlasVerif.Spec.Numeral

/-- one sign of the prefix: `true` = minus, followed by `blanks` spaces -/
structure Sign where
  minus : Bool
  blanks : Nat

def digitChar (d : Nat) : Char := Char.ofNat (48 + d)

/-- the characters of the numeral -/
def spell (signs : List Sign) (digits : List Nat) : List Char :=
  signs.flatMap (fun s => (if s.minus then '-' else '+') :: List.replicate s.blanks ' ') ++ digits.map digitChar

def signValue : List Sign → Int
  | [] => 1
  | s :: r => (if s.minus then -1 else 1) * signValue r

/-- positional value of a digit list, most significant first -/
def decimalValue (digits : List Nat) : Nat := digits.foldl (fun acc d => acc * 10 + d) 0

/-- what the numeral denotes -/
def denote (signs : List Sign) (digits : List Nat) : Int := signValue signs * (decimalValue digits : Int)

end PlasVerif.Spec.Numeral
