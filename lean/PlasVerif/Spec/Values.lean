import PlasVerif.Model.Args
/-!
Spec for the typing clause of C05 (list and dictionary arguments), written from the property text: a list argument
`{i1,i2,…}` is the list of its items, a dictionary argument `{k1=v1,k2,…}` maps every key to the value written after
its `=` (a key without `=` is a flag, bound to True; a later occurrence of a key replaces an earlier one); items,
keys and values are the text written, with surrounding blanks stripped.  Items may contain balanced brace groups
(then the item is kept as tokens); the delimiter inside braces does not split.
-/
namespace PlasVerif.Spec.Values
open PlasVerif.Model.Numbers PlasVerif.Model.Args

/-- the items written with the delimiter between them -/
def joinItems (d : Nat) : List (List Tok) → List Tok
  | [] => []
  | [it] => it
  | it :: rest => it ++ .ch d :: joinItems d rest

/-- an item is brace balanced and shows the delimiter only inside braces: depth after the tokens, `none` otherwise -/
def itemScan (d : Nat) : Nat → List Tok → Option Nat
  | k, [] => some k
  | k, t :: ts =>
    if isBg t then itemScan d (k + 1) ts
    else if isEg t then (match k with | 0 => none | k' + 1 => itemScan d k' ts)
    else if k = 0 && spells d t then none
    else itemScan d k ts

def itemOK (d : Nat) (it : List Tok) : Bool := itemScan d 0 it == some 0

/-- the value of one item: its stripped text, or its tokens when it contains a group -/
def itemVal (it : List Tok) : Val := if hasGroup it then .toks it else .str (textOf it)

/-- the list the property prescribes (an empty argument is the list with one empty item, as `''.split(',')`) -/
def listVal (items : List (List Tok)) : Val := .list (items.map itemVal)

/-- plain text token: a character or a blank that is neither `=` nor the delimiter -/
def plainTok (d : Nat) (t : Tok) : Bool :=
  match t with
  | .ch c => c != 61 && c != d
  | .sp => d != 32
  | _ => false

structure Entry where
  key : List Tok
  value : Option (List Tok)      -- none: a flag

def Entry.render (e : Entry) : List Tok :=
  e.key ++ (match e.value with | none => [] | some v => .ch 61 :: v)

def Entry.ok (d : Nat) (e : Entry) : Bool :=
  !e.key.isEmpty && e.key.all (plainTok d) && (match e.value with | none => true | some v => v.all (plainTok d))

def joinEntries (d : Nat) : List Entry → List Tok
  | [] => []
  | [e] => e.render
  | e :: rest => e.render ++ .ch d :: joinEntries d rest

def entryVal (e : Entry) : Val :=
  match e.value with | none => .tt | some v => .str (textOf v)

/-- the dictionary the property prescribes: keys in order of first appearance, a later value replaces an earlier one -/
def dictVal (es : List Entry) : Val :=
  .dict (es.foldl (fun acc e => setKey (textOf e.key) (entryVal e) acc) [])

end PlasVerif.Spec.Values
