import PlasVerif.Model.Numbers
/-!
Spec for the numeric clause of C05, written from the property text and The TeXbook (ch. 10, 20, 24):
abstract syntax of TeX integer / decimal / dimension / glue literals, their spelling as a token
list (`render`), and the value TeX assigns to them (`den`).  Units: `1pt = 65536sp`, `1pc = 12pt`,
`1in = 72.27pt`, `72bp = 1in`, `2.54cm = 1in`, `10mm = 1cm`, `1157dd = 1238pt`, `1cc = 12dd`;
`ex`/`em` are font dependent in TeX and are taken as the code's documented estimates (5pt, 11pt).
`true` is the identity at magnification 1000.  Dimensions are exact rationals in sp (TeX itself
rounds them to an integer number of sp).  Only the token type is shared with the model.
-/
namespace PlasVerif.Spec.Literals
open PlasVerif.Model.Numbers (Tok)

def spaces (n : Nat) : List Tok := List.replicate n .sp

/-- `<optional signs>`: blanks, then signs each followed by blanks -/
structure Signs where
  lead : Nat
  items : List (Bool × Nat)        -- (is it a minus, blanks after it)

def signTok (m : Bool) : Tok := .ch (if m then 45 else 43)
def renderItems : List (Bool × Nat) → List Tok
  | [] => []
  | (m, k) :: r => signTok m :: (spaces k ++ renderItems r)
def Signs.render (s : Signs) : List Tok := spaces s.lead ++ renderItems s.items
/-- the sign is −1 iff the number of minus signs is odd -/
def parity : List (Bool × Nat) → Int
  | [] => 1
  | (m, _) :: r => if m then - parity r else parity r
def Signs.den (s : Signs) : Int := parity s.items

/-- value of a digit string in a base (Horner) -/
def digitsVal (base : Nat) (ds : List Nat) : Nat := ds.foldl (fun a d => a * base + d) 0
/-- the character TeX uses for a digit value: 0-9, A-F (upper case only) -/
def digitChar (d : Nat) : Nat := if d < 10 then 48 + d else 55 + d

inductive IntBody where
  | dec (ds : List Nat)          -- decimal constant, digit values
  | oct (ds : List Nat)          -- `'` octal
  | hex (ds : List Nat)          -- `"` hexadecimal
  | chr (c : Nat)                -- `` `c `` character token
  | chrCs (c : Nat)              -- `` `\c `` single-character control sequence
  | reg (v : Int)                -- internal integer (register)

structure IntLit where
  signs : Signs
  body : IntBody
  space : Bool                   -- the one optional space after a constant

def IntBody.wf : IntBody → Bool
  | .dec ds => !ds.isEmpty && ds.all (· < 10)
  | .oct ds => !ds.isEmpty && ds.all (· < 8)
  | .hex ds => !ds.isEmpty && ds.all (· < 16)
  | _ => true
/-- the code does not absorb a space after a character constant or a register -/
def IntLit.wf (l : IntLit) : Bool :=
  l.body.wf && (match l.body with | .chr _ | .chrCs _ | .reg _ => !l.space | _ => true)

def IntBody.render : IntBody → List Tok
  | .dec ds => ds.map (fun d => .ch (digitChar d))
  | .oct ds => .ch 39 :: ds.map (fun d => .ch (digitChar d))
  | .hex ds => .ch 34 :: ds.map (fun d => .ch (digitChar d))
  | .chr c => [.ch 96, .ch c]
  | .chrCs c => [.ch 96, .cs [c] false]
  | .reg v => [.reg v false]
def IntBody.den : IntBody → Int
  | .dec ds => digitsVal 10 ds
  | .oct ds => digitsVal 8 ds
  | .hex ds => digitsVal 16 ds
  | .chr c => c
  | .chrCs c => c
  | .reg v => v
def optSpace (b : Bool) : List Tok := if b then [.sp] else []
def IntLit.render (l : IntLit) : List Tok := l.signs.render ++ l.body.render ++ optSpace l.space
def IntLit.den (l : IntLit) : Int := l.signs.den * l.body.den

/-- decimal constant: integer part, optional `.`/`,` with fraction digits (either part may be empty) -/
structure DecBody where
  ip : List Nat
  sep : Option Bool              -- none: no separator; some true: `,`; some false: `.`
  fp : List Nat

def DecBody.wf (d : DecBody) : Bool :=
  d.ip.all (· < 10) && d.fp.all (· < 10) &&
  (match d.sep with | none => !d.ip.isEmpty && d.fp.isEmpty | some _ => true)
def DecBody.render (d : DecBody) : List Tok :=
  d.ip.map (fun x => .ch (digitChar x)) ++
  (match d.sep with | none => [] | some c => [.ch (if c then 44 else 46)]) ++
  d.fp.map (fun x => .ch (digitChar x))
def DecBody.den (d : DecBody) : Rat :=
  (digitsVal 10 d.ip : Nat) + ((digitsVal 10 d.fp : Nat) : Rat) / ((10 ^ d.fp.length : Nat) : Rat)

structure DecLit where
  signs : Signs
  body : DecBody
def DecLit.render (l : DecLit) : List Tok := l.signs.render ++ l.body.render
def DecLit.den (l : DecLit) : Rat := (l.signs.den : Rat) * l.body.den

/-- the physical units of TeX with their value in sp -/
def texUnits : List (List Nat × Rat) :=
  [([112, 116], 65536),                               -- pt
   ([112, 99], 12 * 65536),                           -- pc = 12pt
   ([105, 110], (7227 : Rat) / 100 * 65536),          -- in = 72.27pt
   ([98, 112], (7227 : Rat) / 100 * 65536 / 72),      -- bp: 72bp = 1in
   ([99, 109], (7227 : Rat) / 100 * 65536 / ((254 : Rat) / 100)),   -- cm: 2.54cm = 1in
   ([109, 109], (7227 : Rat) / 100 * 65536 / ((254 : Rat) / 10)),   -- mm: 25.4mm = 1in
   ([100, 100], (1238 : Rat) / 1157 * 65536),         -- dd: 1157dd = 1238pt
   ([99, 99], 12 * ((1238 : Rat) / 1157 * 65536)),    -- cc = 12dd
   ([115, 112], 1),                                   -- sp
   ([101, 120], 5 * 65536),                           -- ex (estimate documented in the code)
   ([101, 109], 11 * 65536)]                          -- em (estimate documented in the code)

/-- fil orders: name and order -/
def filNames : List (List Nat × Nat) :=
  [([102, 105, 108, 108, 108], 3), ([102, 105, 108, 108], 2), ([102, 105, 108], 1)]

/-- a dimension value: amount and order of infinity (0 = finite, sp) -/
structure DimVal where
  order : Nat
  amount : Rat
  deriving DecidableEq, Repr

inductive UnitKind where
  | phys (i : Nat)               -- index into `texUnits`
  | fil (i : Nat)                -- index into `filNames` (only after plus/minus)
  | reg (v : Int)                -- internal dimension/integer: "register multiple"

/-- unit of measure as written: blanks, optional `true` + blanks, the unit in any letter case, one optional space -/
structure UnitLit where
  pre : Nat
  tru : Option (List Nat × Nat)  -- spelling of `true` and blanks after it
  kind : UnitKind
  spelling : List Nat            -- the letters as written (ignored for `reg`)
  space : Bool

structure DimLit where
  signs : Signs
  body : DecBody ⊕ Int           -- factor + unit, or a bare internal dimension
  unit : UnitLit                 -- ignored when body is a register

def UnitLit.render (u : UnitLit) : List Tok :=
  spaces u.pre ++
  (match u.kind with
   | .reg v => [.reg v false]
   | _ => (match u.tru with | none => [] | some (w, k) => w.map .ch ++ spaces k) ++ u.spelling.map .ch ++ optSpace u.space)

def DimLit.render (l : DimLit) : List Tok :=
  l.signs.render ++ (match l.body with | .inl d => d.render ++ l.unit.render | .inr v => [.reg v false])

def UnitKind.den : UnitKind → Nat × Rat
  | .phys i => (0, ((texUnits[i]?).map (·.2)).getD 0)
  | .fil i => (((filNames[i]?).map (·.2)).getD 0, 1)
  | .reg v => (0, v)

def DimLit.den (l : DimLit) : DimVal :=
  match l.body with
  | .inl d => ⟨l.unit.kind.den.1, (l.signs.den : Rat) * d.den * l.unit.kind.den.2⟩
  | .inr v => ⟨0, (l.signs.den : Rat) * v⟩

/-- glue: dimension, optional `plus` stretch, optional `minus` shrink (keywords in any case, blanks before) -/
structure GlueLit where
  signs : Signs                  -- signs in front of the whole glue
  dim : DimLit
  plus : Option (Nat × List Nat × DimLit)     -- blanks before, spelling of `plus`, the dimension (fil units allowed)
  minus : Option (Nat × List Nat × DimLit)

def GlueLit.render (g : GlueLit) : List Tok :=
  g.signs.render ++ g.dim.render ++
  (match g.plus with | none => [] | some (k, w, d) => spaces k ++ w.map .ch ++ d.render) ++
  (match g.minus with | none => [] | some (k, w, d) => spaces k ++ w.map .ch ++ d.render)

structure GlueVal where
  dim : DimVal
  stretch : Option DimVal
  shrink : Option DimVal
  deriving DecidableEq, Repr

def GlueLit.den (g : GlueLit) : GlueVal :=
  ⟨⟨g.dim.den.order, (g.signs.den : Rat) * g.dim.den.amount⟩, g.plus.map (·.2.2.den), g.minus.map (·.2.2.den)⟩

end PlasVerif.Spec.Literals
