import PlasVerif.Model.Digest
/-!
Vocabulary of property C07, written from the property text: the depth-first reading of a
parsed tree (arguments before content), the well-formedness predicates (parent links,
paragraphs, sectioning) and the hypotheses under which the theorems are stated.
The tree type is the model's (`Model.Digest.Tree`); nothing here refers to how it is built.
-/
namespace PlasVerif.Spec.DocTree
open PlasVerif.Model.Digest PlasVerif.Generated.Digest

/-- ids of the words a node carries itself: an element's argument text, a text node's own text -/
def own (it : Item) : List Nat := if it.elem then it.argLeaves else it.src

mutual
/-- depth-first reading: arguments first, then children -/
def leaves : Tree → List Nat
  | .node it _ kids => own it ++ leavesL kids
def leavesL : List Tree → List Nat
  | [] => []
  | k :: ks => leaves k ++ leavesL ks
end

/-- tokens the protocol swallows by design: closers (`\end{..}`, `}`), `\setcounter` at the head of a list -/
def dropShape (it : Item) : Bool := it.elem && (it.modeEnd || it.egroup || it.setctr)
/-- `digest` leaves such an item untouched -/
def inert (it : Item) : Bool := it.dk == .none || (it.modeEnd && (it.dk == .env || it.dk == .listEnv))

mutual
/-- hypothesis on streams: blanks and swallowed tokens carry no words; paragraph tokens and
    swallowed tokens have no absorbing `digest`; paragraph tokens have no arguments -/
def clean : Tree → Bool
  | .node it p kids =>
    ((Tree.node it p kids).ws → leaves (.node it p kids) = []) &&
    (dropShape it → (leaves (.node it p kids) = [] ∧ inert it)) &&
    (it.level = parLevel → (it.argLeaves = [] ∧ it.elem = true ∧ inert it)) &&
    cleanL kids
def cleanL : List Tree → Bool
  | [] => true
  | k :: ks => clean k && cleanL ks
end

mutual
/-- every child's parent label is the node that lists it, recursively -/
def labelsOK : Tree → Bool
  | .node it _ kids => labelsL it.ref kids
def labelsL (r : Ref) : List Tree → Bool
  | [] => true
  | k :: ks => (k.parent == r) && labelsOK k && labelsL r ks
end

mutual
/-- paragraphs never contain paragraphs -/
def parNoPar : Tree → Bool
  | .node it _ kids => (it.level == parLevel → kids.all fun k => k.it.level != parLevel) && parNoParL kids
def parNoParL : List Tree → Bool
  | [] => true
  | k :: ks => parNoPar k && parNoParL ks
end

/-- children allowed inside a sectioning unit of level `l`: paragraphs and strictly deeper sectioning units -/
def secKidOK (l : Int) (k : Tree) : Bool :=
  k.it.level == parLevel || (l < k.it.level && k.it.level < endSectionsLevel)

/-- characters the substitution list reacts to -/
def trigger (c : Nat) : Bool := c == 96 || c == 39 || c == 34 || c == 45

mutual
/-- text nodes of a tree with the flag "no ancestor (or self) suppresses substitution" -/
def textsWithScope (inScope : Bool) : Tree → List (Bool × List Nat)
  | .node it _ kids =>
    if it.elem then textsWithScopeL (inScope && !it.nosub) kids else [(inScope, it.chars)]
def textsWithScopeL (inScope : Bool) : List Tree → List (Bool × List Nat)
  | [] => []
  | k :: ks => textsWithScope inScope k ++ textsWithScopeL inScope ks
end

end PlasVerif.Spec.DocTree

namespace PlasVerif.Spec.DocTree
open PlasVerif.Model.Digest
mutual
/-- all characters of the text nodes below a node, in document order (text nodes have no children) -/
def allChars : Tree → List Nat
  | .node it _ kids => if it.elem then allCharsL kids else it.chars
def allCharsL : List Tree → List Nat
  | [] => []
  | k :: ks => allChars k ++ allCharsL ks
end
end PlasVerif.Spec.DocTree
