import PlasVerif.Model.Digest
/-!
Vocabulary of property C07, written from the property text: the depth-first reading of a
parsed tree (arguments before content), the well-formedness predicates (parent links,
paragraphs, sectioning) and the hypotheses under which the theorems are stated.
The tree type is the model's (`Model.Digest.Tree`); nothing here refers to how it is built.
-/
namespace PlasVerif.Spec.DocTree
open PlasVerif.Model.Digest PlasVerif.Generated.Digest

/-- ids of the words a node carries itself: an element's argument text, a text node's own text -/
def own (it : Item) : List Nat := if it.elem then it.argLeaves else it.src

mutual
/-- depth-first reading: arguments first, then children -/
def leaves : Tree → List Nat
  | .node it _ kids => own it ++ leavesL kids
def leavesL : List Tree → List Nat
  | [] => []
  | k :: ks => leaves k ++ leavesL ks
end

/-- tokens the protocol swallows by design: closers (`\end{..}`, `}`), `\setcounter` at the head of a list -/
def dropShape (it : Item) : Bool := it.setctr || (it.elem && (it.modeEnd || it.egroup))
/-- `digest` leaves such an item untouched -/
def inert (it : Item) : Bool := it.dk == .none || (it.modeEnd && (it.dk == .env || it.dk == .listEnv))

/-- per-item part of the stream hypothesis:
    text has no absorbing digest and blank text carries no word; a `par`-like class (blank while empty)
    has no arguments; a paragraph-level item is an element without arguments, with `Macro.digest`, and is
    not a closer; swallowed tokens have an inert digest -/
def itemOK (it : Item) : Bool :=
  (it.elem || (inert it && (!it.ws || it.src.isEmpty))) &&
  (!it.dynws || it.argLeaves.isEmpty) &&
  (!(it.level == parLevel) || (it.argLeaves.isEmpty && it.elem && it.dk == .none && !dropShape it)) &&
  (!dropShape it || inert it)

mutual
/-- hypothesis on streams (decidable; evaluated by the driver on every recorded stream): every node
    satisfies `itemOK`, text nodes have no children, swallowed tokens carry no words -/
def clean : Tree → Bool
  | .node it _ kids =>
    itemOK it && (it.elem || kids.isEmpty) && (!dropShape it || (own it ++ leavesL kids).isEmpty) && cleanL kids
def cleanL : List Tree → Bool
  | [] => true
  | k :: ks => clean k && cleanL ks
end

mutual
/-- every child's parent label is the node that lists it, recursively -/
def labelsOK : Tree → Bool
  | .node it _ kids => labelsL it.ref kids
def labelsL (r : Ref) : List Tree → Bool
  | [] => true
  | k :: ks => (k.parent == r) && labelsOK k && labelsL r ks
end

mutual
/-- paragraphs never contain paragraphs **or sectioning units**: every child of a paragraph-level node
    has a level strictly above paragraph level -/
def parNoPar : Tree → Bool
  | .node it _ kids => (it.level == parLevel → kids.all fun k => decide (parLevel < k.it.level)) && parNoParL kids
def parNoParL : List Tree → Bool
  | [] => true
  | k :: ks => parNoPar k && parNoParL ks
end

/-- children allowed inside a sectioning unit of level `l`: paragraphs and strictly deeper sectioning units -/
def secKidOK (l : Int) (k : Tree) : Bool :=
  k.it.level == parLevel || (l < k.it.level && k.it.level < endSectionsLevel)

/-- characters the substitution list reacts to -/
def trigger (c : Nat) : Bool := c == 96 || c == 39 || c == 34 || c == 45

mutual
/-- text nodes of a tree with the flag "no ancestor (or self) suppresses substitution" -/
def textsWithScope (inScope : Bool) : Tree → List (Bool × List Nat)
  | .node it _ kids =>
    if it.elem then textsWithScopeL (inScope && !it.nosub) kids else [(inScope, it.chars)]
def textsWithScopeL (inScope : Bool) : List Tree → List (Bool × List Nat)
  | [] => []
  | k :: ks => textsWithScope inScope k ++ textsWithScopeL inScope ks
end

end PlasVerif.Spec.DocTree

namespace PlasVerif.Spec.DocTree
open PlasVerif.Model.Digest
mutual
/-- all characters of the text nodes below a node, in document order (text nodes have no children) -/
def allChars : Tree → List Nat
  | .node it _ kids => if it.elem then allCharsL kids else it.chars
def allCharsL : List Tree → List Nat
  | [] => []
  | k :: ks => allChars k ++ allCharsL ks
end
end PlasVerif.Spec.DocTree

namespace PlasVerif.Spec.DocTree
open PlasVerif.Model.Digest PlasVerif.Generated.Digest
/-- "sectioning skeleton" streams (hypothesis of `sections_nest`): below paragraph level there are only
    fresh sectioning commands (levels strictly between DOCUMENT and ENDSECTIONS, `SectionUtils.digest`) and
    inert document-level closers; everything at or above paragraph level has an inert digest
    (text, paragraph tokens, commands whose arguments were parsed at expansion time). -/
def secSkel (x : Tree) : Bool :=
  if x.it.level < parLevel then
    (x.it.dk == .sec && x.it.elem && x.kids.isEmpty && decide (documentLevel < x.it.level) &&
      decide (x.it.level < endSectionsLevel)) ||
    (inert x.it && decide (x.it.level ≤ documentLevel))
  else inert x.it
end PlasVerif.Spec.DocTree
