import PlasVerif.Model.Filenames
/-!
Spec for C15, written from the property text and the documentation of `Filenames`:
templates as trees (literal text and variables with an optional width), their linearisation
into the normalised text the generator works on, the denotation of one template under a
namespace and a running number, and the reference generator (static names first and in order,
then per request the first alternative whose variables are all bound and whose name is fresh,
numbers advancing exactly on numbered candidates, error once nothing fresh can be formed).
-/
namespace PlasVerif.Spec.Filenames
open PlasVerif.Model.Filenames PlasVerif.Generated.Filenames

/-- a piece of a filename template: literal text, or `$name` / `$name(width)` (width = digit string) -/
inductive Seg where
  | lit (s : Str)
  | var (name : Str) (width : Option Str)
  deriving DecidableEq, Repr

abbrev Tmpl := List Seg

/-- normalised spelling: `${name}` and `${name.width}` -/
def Seg.lin : Seg → Str
  | .lit s => s
  | .var n none => cDollar :: cLBrace :: n ++ [cRBrace]
  | .var n (some w) => cDollar :: cLBrace :: n ++ cDot :: w ++ [cRBrace]

def lin (t : Tmpl) : Str := t.flatMap Seg.lin

/-- documented grammar: literals contain no `$`; names are identifiers; widths are digit strings -/
def Seg.wf : Seg → Bool
  | .lit s => s.all (· ≠ cDollar)
  | .var n w =>
    (match n with | c :: r => isIdStart c && r.all isWord | [] => false) &&
    (match w with | none => true | some d => d ≠ [] && d.all isDigit)

def Seg.name? : Seg → Option Str
  | .lit _ => none
  | .var n _ => some n

def names (t : Tmpl) : List Str := t.filterMap Seg.name?

/-- well-formed template: well-formed pieces, every variable used at most once -/
def wf (t : Tmpl) : Bool := t.all Seg.wf && decide (names t).Nodup

/-- forbidden characters replaced (all at once) -/
def cleanSpec (bad sub v : Str) : Str := v.flatMap (fun c => if c ∈ bad then sub else [c])

/-- the value a variable contributes: the running number zero-padded to the width, or the bound
    value limited to its first `width` words; forbidden characters replaced -/
def Seg.value (cfg : Config) (env : Env) (num : Nat) : Seg → Option Str
  | .lit s => some s
  | .var n w =>
    if n = numKey then some (cleanSpec cfg.bad cfg.sub (pad ((w.map digitsVal).getD 0) num))
    else match envGet env n, w with
      | none, _ => none
      | some v, none => some (cleanSpec cfg.bad cfg.sub v)
      | some v, some d => some (cleanSpec cfg.bad cfg.sub (limitWords (digitsVal d) v))

/-- denotation of a template: `none` when a variable is not bound -/
def render (cfg : Config) (env : Env) (num : Nat) : Tmpl → Option Str
  | [] => some []
  | s :: t => match s.value cfg env num, render cfg env num t with
    | some a, some b => some (a ++ b)
    | _, _ => none

/-- the candidate consumes a number -/
def numbered (t : Tmpl) (env : Env) : Bool := (names t).contains numKey || envHas env numKey

/-- final name: extension added when missing -/
def candidate (cfg : Config) (env : Env) (num : Nat) (t : Tmpl) : Option Str :=
  (render cfg env num t).map (addExt cfg.ext)

structure SState where
  statics : List Tmpl
  wildcard : List Tmpl
  num : Nat
  taken : List Str
  base : Env
  dead : Bool

/-- first template in the list whose variables are all bound and whose name is not taken;
    numbered candidates that are formed advance the number whether issued or skipped.
    Returns the name (if any), the templates after the one used, the number afterwards. -/
def firstFresh (cfg : Config) (taken : List Str) (env : Env) : List Tmpl → Nat → Option Str × List Tmpl × Nat
  | [], num => (none, [], num)
  | t :: ts, num =>
    match candidate cfg env num t with
    | none => firstFresh cfg taken env ts num
    | some name =>
      let num' := if numbered t env then num + 1 else num
      if name ∈ taken then firstFresh cfg taken env ts num' else (some name, ts, num')

/-- up to `fuel` passes over the wildcard alternatives -/
def passes (cfg : Config) (taken : List Str) (env : Env) (wild : List Tmpl) : Nat → Nat → Option Str × Nat
  | 0, num => (none, num)
  | fuel + 1, num =>
    match firstFresh cfg taken env wild num with
    | (some name, _, num') => (some name, num')
    | (none, _, num') => passes cfg taken env wild fuel num'

def sinit (statics wildcard : List Tmpl) (vars : Env) (reserved : List Str) : SState :=
  { statics := statics, wildcard := wildcard, num := 1, taken := reserved, base := vars, dead := false }

/-- one request with bindings `b` and a budget of `fuel` wildcard passes:
    namespace = initial variables updated with `b` -/
def srequestFuel (cfg : Config) (fuel : Nat) (st : SState) (b : Env) : SState × Result :=
  if st.dead then (st, .error .valueError)
  else
    let env := envUpdate st.base b
    match firstFresh cfg st.taken env st.statics st.num with
    | (some name, rest, num') => ({ st with statics := rest, num := num', taken := name :: st.taken }, .name name)
    | (none, _, num') =>
      match passes cfg st.taken env st.wildcard fuel num' with
      | (some name, num'') => ({ st with statics := [], num := num'', taken := name :: st.taken }, .name name)
      | (none, num'') => ({ st with statics := [], num := num'', dead := true }, .error .valueError)

/-- one request: the give-up bound is a budget of `passBound + 1` passes for this request -/
def srequest (cfg : Config) (st : SState) (b : Env) : SState × Result := srequestFuel cfg (passBound + 1) st b

def srun (cfg : Config) : SState → List Env → List Result
  | _, [] => []
  | st, b :: bs => let (st', r) := srequest cfg st b; r :: srun cfg st' bs

end PlasVerif.Spec.Filenames
