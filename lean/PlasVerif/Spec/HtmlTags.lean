/-!
# Spec vocabulary for C12 (post-processing clause): tags, and the non-blank character data of a file

`WellTagged`: every `<` opens a tag that is closed by the next `>` and contains no further `<`
(what templates emit around escaped text, which itself contains neither `<` nor `>`).
`nsText blank s`: the character data of `s` (everything outside tags) without the characters `blank` calls
white space.  `Fills a b`: `b` is `a` with the literal reference `&nbsp;` inserted at some places.
-/
namespace PlasVerif.Spec.HtmlTags

def wellTaggedAux : Bool → List Nat → Bool
  | false, [] => true
  | true, [] => false
  | false, c :: cs => if c = 60 then wellTaggedAux true cs else wellTaggedAux false cs
  | true, c :: cs => if c = 62 then wellTaggedAux false cs else if c = 60 then false else wellTaggedAux true cs

def WellTagged (s : List Nat) : Prop := wellTaggedAux false s = true

def nsTextAux (blank : Nat → Bool) : Bool → List Nat → List Nat
  | _, [] => []
  | false, c :: cs =>
    if c = 60 then nsTextAux blank true cs
    else if blank c then nsTextAux blank false cs else c :: nsTextAux blank false cs
  | true, c :: cs => if c = 62 then nsTextAux blank false cs else nsTextAux blank true cs

def nsText (blank : Nat → Bool) (s : List Nat) : List Nat := nsTextAux blank false s

/-- `&nbsp;` -/
def nbspRef : List Nat := [38, 110, 98, 115, 112, 59]

inductive Fills : List Nat → List Nat → Prop
  | nil : Fills [] []
  | keep (c : Nat) {a b : List Nat} : Fills a b → Fills (c :: a) (c :: b)
  | fill {a b : List Nat} : Fills a b → Fills a (38 :: 110 :: 98 :: 115 :: 112 :: 59 :: b)

end PlasVerif.Spec.HtmlTags
