import PlasVerif.Model.Persist
/-!
Spec for C20, written from the property text: a *label set* gives each label a number, a title
and a target location (all as rendered by one renderer); the store keeps one label set per
renderer.  `render` turns a label set into what the code sees at the end of a run (labelled
nodes with `ref`, `title`, `url`, `id` attributes); `Shows` says what a later run must see for
a label: the same number, title and target.
-/
namespace PlasVerif.Spec.LabelStore
open PlasVerif.Model.Persist PlasVerif.Generated.Persist

/-- what the property fixes per label; `none` = the node has no such datum (e.g. an equation has no title) -/
structure Info where
  number : Option String
  title  : Option String
  target : Option String
  deriving Repr, DecidableEq, Inhabited

/-- label ↦ info, labels pairwise distinct -/
abbrev LabelSet := List (String × Info)

def LabelSet.WF (L : LabelSet) : Prop := (∀ li ∈ L, li.1 ≠ "") ∧ (L.map (·.1)).Nodup

instance (L : LabelSet) : Decidable L.WF := by unfold LabelSet.WF; infer_instance

def optNode : Option String → SrcVal
  | none => .none
  | some s => .node s

def optStr : Option String → SrcVal
  | none => .none
  | some s => .val (.str s)

/-- the labelled node at the end of the run: number and title are document nodes that the
    renderer turns into strings, the target is the URL string, the id is the (non-empty) label -/
def renderNode (label : String) (i : Info) : SrcNode :=
  [("ref", optNode i.number), ("title", optNode i.title), ("url", optStr i.target), ("id", .val (.str label))]

def render (L : LabelSet) : Src := L.map (fun (l, i) => (l, renderNode l i))

def optVal : Option String → Option Val
  | none => none
  | some s => some (.str s)

/-- where a later run reads the three data of the property from: attribute of the labelled node at the end of the
    run ↦ `vars()` key of the restored node (`Macro.title` reads `@title`, `Renderable.url` reads `urloverride`) -/
def readerSlots : List (String × String) := [("ref", "ref"), ("title", "@title"), ("url", "urloverride")]

/-- does a stored attribute equal the spec'd datum -/
def agrees : Option Val → Option String → Bool
  | some (.str s), some t => s == t
  | none, none => true
  | _, _ => false

/-- executable form of `Shows` -/
def showsB (n : Node) (i : Info) : Bool :=
  agrees (aget "ref" n) i.number && agrees (aget "@title" n) i.title && agrees (aget "urloverride" n) i.target

/-- a restored node shows the info: number under `ref`, title under `title` (stored by the
    setter as `@title`), target as the URL override -/
def Shows (n : Node) (i : Info) : Prop := showsB n i = true

instance (n : Node) (i : Info) : Decidable (Shows n i) := by unfold Shows; infer_instance

/-- every label of the set is present in `labels` and shows its info -/
def ShowsAll (labels : Labels) (L : LabelSet) : Prop :=
  ∀ l i, (l, i) ∈ L → ∃ n, aget (.str l) labels = some n ∧ Shows n i

/-! ### well-formed source nodes (hypotheses of the round trip at the level of arbitrary attribute values) -/

/-- the `vars()` key under which an attribute of the file ends up on the restored node
    (`remap` of `Macro.restore`, then the property setter of the class) -/
def slotOf (k : Key) : String :=
  match aget (remapKey k) deleteOnFalsy with
  | some s => s
  | none => (aget (remapKey k) setterStore).getD (remapKey k)

/-- a labelled node the code can write and read back: every attribute whose setter deletes on a falsy
    value (`id`) is truthy or `None`, and `macroName` is a string or `None` -/
def srcOkB (n : SrcNode) : Bool :=
  refAttributes.all (fun name =>
    !(aget (remapKey (.str name)) deleteOnFalsy).isSome ||
      (match persistVal (getattrSrc n name) with
       | none => true
       | some v => v.truthy)) &&
  (match persistVal (getattrSrc n "macroName") with
   | none => true
   | some (.str _) => true
   | some _ => false)

def SrcOk (n : SrcNode) : Prop := srcOkB n = true

/-- `persistentLabels` is a dict (distinct keys) of nodes satisfying `SrcOk` -/
def SrcWF (src : Src) : Prop := (keys src).Nodup ∧ ∀ kn ∈ src, SrcOk kn.2

/-- label `k` of `src` is in `labels`, bound to the node `Macro.restore` builds from what `Macro.persist` stored -/
def RestoredAll (labels : Labels) (src : Src) : Prop :=
  ∀ k n, (k, n) ∈ src → ∃ node, aget (.str k) labels = some node ∧ restoreEntry (.dict (macroPersist n)) = .ok node

end PlasVerif.Spec.LabelStore
