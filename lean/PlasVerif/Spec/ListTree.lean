import PlasVerif.Model.Lists
/-!
Spec vocabulary of C10 (written from the property text): the *document trees* the property
quantifies over — blocks of text, groups, environments, lists with their items, tables with
their rows and cells, nested without bound — their rendering into the expanded token stream
(the tokens the macros of the list/array packages emit, with the context depth TeX grouping
gives them), and the tree the statement prescribes (`node`): one item per `\item` in order,
each holding everything up to the next `\item` of the same list; one row per row, one cell per
cell, each holding what was written between the separators; nested structures inside the item
or cell that contains them.
-/
namespace PlasVerif.Spec.ListTree
open PlasVerif.Model.Lists

/-- kinds that stand for a single token of text or a command without content of its own -/
def isLeafKind : Kind → Bool
  | .text _ | .space | .par | .cmd _ | .hline | .cline _ _ | .vline | .mcol _ _ _ => true
  | _ => false

mutual
inductive Block where
  | leaf (k : Kind)
  | grp (bs : Blocks)                                   -- `{ … }`
  | env (ty : Nat) (bs : Blocks)                        -- `\begin{ty} … \end{ty}`, `$ … $`
  | list (ty : Nat) (lead : List Bool) (items : Items)  -- list environment; `lead` = the blanks before the first `\item` (true = blank line / `\par`, false = space)
  | table (ty : Nat) (c : Blocks) (cs : Cells) (rs : Rows)   -- first cell, rest of first row, further rows
inductive Blocks where
  | nil | cons (b : Block) (bs : Blocks)
inductive Items where
  | nil | cons (term : Nat) (lead : List Bool) (body : Blocks) (rest : Items)   -- `\item[term]`, blanks (spaces / blank lines), body
  /-- an item whose body ends in a bare declaration (`\bfseries …`: an environment token without end) holding `dbody` -/
  | consD (term : Nat) (lead : List Bool) (body : Blocks) (ty : Nat) (dbody : Blocks) (rest : Items)
inductive Cells where
  | nil | cons (c : Blocks) (rest : Cells)              -- `& cell`
inductive Rows where
  | nil | cons (c : Blocks) (cs : Cells) (rest : Rows)  -- `\\ cell & cell …`
end

/-- blanks as tokens: a space token, or the childless `\par` a blank line produces -/
def blanks (d : Nat) (lead : List Bool) : Stream := lead.map fun p => mkT d (if p then Kind.par else Kind.space)

mutual
/-- tokens of a block written at context depth `d` -/
def Block.render (d : Nat) : Block → Stream
  | .leaf k => [mkT d k]
  | .grp bs => mkT (d + 1) .grpB :: (bs.render (d + 1) ++ [mkT d .grpE])
  | .env ty bs => mkT (d + 1) (.begin_ .env ty) :: (bs.render (d + 1) ++ [mkT d (.end_ .env ty)])
  | .list ty nsp is =>
    mkT (d + 1) (.begin_ .list ty) :: (blanks (d + 1) nsp ++ (is.render (d + 1) ++ [mkT d (.end_ .list ty)]))
  | .table ty c cs rs =>
    mkT (d + 2) (.begin_ .array ty) :: mkT (d + 2) .row :: mkT (d + 2) .cell ::
      (c.render (d + 2) ++ (cs.render (d + 2) ++ (rs.render (d + 2) ++ [mkT d (.end_ .array ty)])))
def Blocks.render (d : Nat) : Blocks → Stream
  | .nil => []
  | .cons b bs => b.render d ++ bs.render d
def Items.render (d : Nat) : Items → Stream
  | .nil => []
  | .cons term nsp body rest => mkT d (.item term) :: (blanks d nsp ++ (body.render d ++ rest.render d))
  | .consD term nsp body ty db rest =>
    mkT d (.item term) :: (blanks d nsp ++ (body.render d ++ (mkT (d + 1) (.begin_ .env ty) :: (db.render (d + 1) ++ rest.render d))))
def Cells.render (d : Nat) : Cells → Stream
  | .nil => []
  | .cons c rest => mkT d .amp :: mkT d .cell :: (c.render d ++ rest.render d)
def Rows.render (d : Nat) : Rows → Stream
  | .nil => []
  | .cons c cs rest => mkT d .endrow :: mkT d .row :: mkT d .cell :: (c.render d ++ (cs.render d ++ rest.render d))
end

mutual
/-- the tree the property prescribes -/
def Block.node (d : Nat) : Block → Node
  | .leaf k => mkT d k
  | .grp bs => .mk ⟨d + 1, .grpB⟩ (bs.nodes (d + 1))
  | .env ty bs => .mk ⟨d + 1, .begin_ .env ty⟩ (bs.nodes (d + 1))
  | .list ty _ is => .mk ⟨d + 1, .begin_ .list ty⟩ (is.nodes (d + 1))
  | .table ty c cs rs =>
    .mk ⟨d + 2, .begin_ .array ty⟩
      (.mk ⟨d + 2, .row⟩ (.mk ⟨d + 2, .cell⟩ (c.nodes (d + 2)) :: cs.nodes (d + 2)) :: rs.nodes (d + 2))
def Blocks.nodes (d : Nat) : Blocks → List Node
  | .nil => []
  | .cons b bs => b.node d :: bs.nodes d
def Items.nodes (d : Nat) : Items → List Node
  | .nil => []
  | .cons term _ body rest => .mk ⟨d, .item term⟩ (body.nodes d) :: rest.nodes d
  | .consD term _ body ty db rest =>
    .mk ⟨d, .item term⟩ (body.nodes d ++ [.mk ⟨d + 1, .begin_ .env ty⟩ (db.nodes (d + 1))]) :: rest.nodes d
def Cells.nodes (d : Nat) : Cells → List Node
  | .nil => []
  | .cons c rest => .mk ⟨d, .cell⟩ (c.nodes d) :: rest.nodes d
def Rows.nodes (d : Nat) : Rows → List Node
  | .nil => []
  | .cons c cs rest => .mk ⟨d, .row⟩ (.mk ⟨d, .cell⟩ (c.nodes d) :: cs.nodes d) :: rest.nodes d
end

/-- first block is not a blank (an item's leading blanks are counted in `lead`, not in its body) -/
def Blocks.startsNonWs : Blocks → Bool
  | .nil => true
  | .cons (.leaf .space) _ => false
  | .cons (.leaf .par) _ => false
  | .cons _ _ => true

mutual
/-- well-formedness: leaves are leaf kinds; item bodies do not start with a blank -/
def Block.wf : Block → Bool
  | .leaf k => isLeafKind k
  | .grp bs => bs.wf
  | .env _ bs => bs.wf
  | .list _ _ is => is.wf
  | .table _ c cs rs => c.wf && cs.wf && rs.wf
def Blocks.wf : Blocks → Bool
  | .nil => true
  | .cons b bs => b.wf && bs.wf
def Items.wf : Items → Bool
  | .nil => true
  | .cons _ _ body rest => body.startsNonWs && body.wf && rest.wf
  | .consD _ _ body _ db rest => body.startsNonWs && body.wf && db.wf && rest.wf
def Cells.wf : Cells → Bool
  | .nil => true
  | .cons c rest => c.wf && rest.wf
def Rows.wf : Rows → Bool
  | .nil => true
  | .cons c cs rest => c.wf && cs.wf && rest.wf
end

mutual
/-- fuel that suffices to digest the rendering (any larger amount works as well) -/
def Block.cost : Block → Nat
  | .leaf _ => 2
  | .grp bs => bs.cost + 4
  | .env _ bs => bs.cost + 4
  | .list _ nsp is => is.cost + nsp.length + 4
  | .table _ c cs rs => c.cost + cs.cost + rs.cost + 10
def Blocks.cost : Blocks → Nat
  | .nil => 0
  | .cons b bs => b.cost + bs.cost + 1
def Items.cost : Items → Nat
  | .nil => 0
  | .cons _ nsp body rest => body.cost + nsp.length + rest.cost + 4
  | .consD _ nsp body _ db rest => body.cost + db.cost + nsp.length + rest.cost + 10
def Cells.cost : Cells → Nat
  | .nil => 0
  | .cons c rest => c.cost + rest.cost + 4
def Rows.cost : Rows → Nat
  | .nil => 0
  | .cons c cs rest => c.cost + cs.cost + rest.cost + 8
end

def Block.isLeaf : Block → Bool
  | .leaf _ => true
  | _ => false

def Items.length : Items → Nat
  | .nil => 0
  | .cons _ _ _ rest => rest.length + 1
  | .consD _ _ _ _ _ rest => rest.length + 1
def Items.terms : Items → List Nat
  | .nil => []
  | .cons t _ _ rest => t :: rest.terms
  | .consD t _ _ _ _ rest => t :: rest.terms
/-- what every item must hold: its body, then (if it ends in a declaration) the declaration node with its own content -/
def Items.children (d : Nat) : Items → List (List Node)
  | .nil => []
  | .cons _ _ b rest => b.nodes d :: rest.children d
  | .consD _ _ b ty db rest => (b.nodes d ++ [.mk ⟨d + 1, .begin_ .env ty⟩ (db.nodes (d + 1))]) :: rest.children d
def Cells.length : Cells → Nat
  | .nil => 0
  | .cons _ rest => rest.length + 1
def Cells.toList : Cells → List Blocks
  | .nil => []
  | .cons c rest => c :: rest.toList
def Rows.toList : Rows → List (List Blocks)
  | .nil => []
  | .cons c cs rest => (c :: cs.toList) :: rest.toList

end PlasVerif.Spec.ListTree
