import PlasVerif.Driver.C01
import PlasVerif.Driver.C04
import PlasVerif.Driver.C19
import PlasVerif.Driver.C18
import PlasVerif.Driver.C09
import PlasVerif.Driver.C08
import PlasVerif.Driver.C15
import PlasVerif.Driver.C07
import PlasVerif.Driver.C16
import PlasVerif.Driver.C20
import PlasVerif.Driver.C03
import PlasVerif.Driver.C10
import PlasVerif.Driver.C11
import PlasVerif.Driver.C13
import PlasVerif.Driver.C14
import PlasVerif.Driver.C06
import PlasVerif.Driver.C05
import PlasVerif.Driver.C12
import PlasVerif.Driver.C17
import PlasVerif.Driver.C02
/-!
Line-protocol driver: one request per line `<property> <stream> <payload…>`, one
answer per line `<model output>\t<spec output or ->[\t<aux>]`.  Imports only `Model`,
`Spec`, `Generated` and `Driver` modules (never `Proofs`/`Properties`), so it still
builds when a proof is broken.
-/
open PlasVerif.Driver

def dispatch (line : String) : String :=
  match (line.splitOn " ").filter (· ≠ "") with
  | "C01" :: r => C01.handle r
  | "C04" :: r => C04.handle r
  | "C19" :: r => C19.handle r
  | "C18" :: r => C18.handle r
  | "C09" :: r => C09.handle r
  | "C08" :: r => C08.handle r
  | "C15" :: r => C15.handle r
  | "C07" :: r => C07.handle r
  | "C16" :: r => C16.handle r
  | "C20" :: r => C20.handle r
  | "C03" :: r => C03.handle r
  | "C10" :: r => C10.handle r
  | "C11" :: r => C11.handle r
  | "C13" :: r => C13.handle r
  | "C14" :: r => C14.handle r
  | "C06" :: r => C06.handle r
  | "C05" :: r => C05.handle r
  | "C12" :: r => C12.handle r
  | "C17" :: r => C17.handle r
  | "C02" :: r => C02.handle r
  | _ => "bad-op"

partial def loop (h : IO.FS.Stream) (out : IO.FS.Stream) : IO Unit := do
  let line ← h.getLine
  if line.isEmpty then return ()
  out.putStrLn (dispatch (line.trimAsciiEnd.toString))
  loop h out

def main : IO Unit := do
  let out ← IO.getStdout
  loop (← IO.getStdin) out
  out.flush
