-- Root of the `PlasVerif` library: every property file (they import their models, specs and proofs).
import PlasVerif.Properties.C01
import PlasVerif.Properties.C04
import PlasVerif.Properties.C19
import PlasVerif.Properties.C18
import PlasVerif.Properties.C09
import PlasVerif.Properties.C08
import PlasVerif.Properties.C15
import PlasVerif.Properties.C07
import PlasVerif.Properties.C16
import PlasVerif.Properties.C20
import PlasVerif.Properties.C03
import PlasVerif.Properties.C10
import PlasVerif.Properties.C11
import PlasVerif.Properties.C13
import PlasVerif.Properties.C14
import PlasVerif.Properties.C06
import PlasVerif.Properties.C05
