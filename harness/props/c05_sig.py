"""C05 helpers for the signature compiler `Macro.arguments` (imported by harness/props/c05.py).

streams
  sig     : `line` = the `args` string as space separated decimal code points; driver answers
            `showArgs (compileArgs s)\t-`; implementation vs model only (ValueError paths, lexer corners,
            hand-spelled variants of well-formed signatures).
  sigtree : `line` = structured encoding of a Spec `Sig` with a spacing style per item (see
            lean/PlasVerif/Driver/C05Sig.lean); the driver renders it, answers
            `model\tspec\t<rendered code points>\t<c|v>`; the implementation compiles the rendered string
            (aux[0]) with the real code.  spec = `showArgs (.ok (expected sig))`.

canonical observation (identical to Lean `showArgs`):
  `ok` or `ok a1 a2 …`, argument = `name|index|k=v,k=v…` (option keys sorted), values: str = `s` + code points
  joined by `.`, None = `N`, True/False = `T`/`F`, [] = `L`; `err:ValueError`, `err:other:<Name>`.
"""
from framework import Case

TYPES = ['str', 'int', 'float', 'dimen', 'list', 'dict', 'Tok', 'nox', 'cs', 'url', 'Number', 'Dimen', 'Glue',
         'chr', 'char', 'id', 'idref', 'ref', 'label', 'XTok', 'number', 'length', 'dimension', 'glue', 'Length',
         'MuGlue', 'MuDimen', 'TeXDimen', 'Integer', 'any', 'BoxSpecification', 'TeXGlue', 'double', 'decimal']
SUBTYPES = ['int', 'str', 'float', 'dimen', 'chr', 'nox', 'Number', 'url']
DELIMCHARS = ';,|/.!&~@#%^?\'"`$\\*+-=[]<>{}()'
NAMES = ['self', 'opt', 'arg1', 'arg2', 'name', 'title', 'toc', 'pos', 'width', 'n', 'a', 'b1', 'x_y', 'Key', 'p', 'q9',
         'label', 'cs', 'url', 'list', 'int', 'colspec', 'A', 'zz_', 'modifier', 'equals']
MALFORMED_ALPHABET = 'abcxyz019_:()[]<>{}*+-=;, '


def cps(s):
    return ' '.join(str(ord(c)) for c in s)


def dots(s):
    return '.'.join(str(ord(c)) for c in s)


# ---------------------------------------------------------------- generation

def gen_name(rng):
    if rng.random() < 0.7:
        return rng.choice(NAMES)
    first = rng.choice('abcdefghijklmnopqrstuvwxyzABCDEFGHIJKLMNOPQRSTUVWXYZ')
    return first + ''.join(rng.choice('abcxyzABZ0189_') for _ in range(rng.randint(0, 6)))


def gen_tree(rng):
    """a well-formed Sig: list of items ('M', ch) | ('E',) | ('A', delim 0-4, name, type|None, delimch|None, sub|None)"""
    items = []
    if rng.random() < 0.35:
        items.append(('M', rng.choice('*+-') if rng.random() < 0.3 else '*'))
    for _ in range(rng.randint(1, 6)):
        r = rng.random()
        if r < 0.08:
            items.append(('E',))
            continue
        if r < 0.12:
            items.append(('M', rng.choice('*+-')))
            continue
        d = rng.choice([0, 0, 1, 1, 2, 3, 4])
        ty = dl = sub = None
        if rng.random() < 0.65:
            ty = rng.choice(TYPES)
            if rng.random() < 0.3 or (ty in ('list', 'dict') and rng.random() < 0.5):
                dl = rng.choice(DELIMCHARS)
            if rng.random() < 0.25 or (ty == 'list' and rng.random() < 0.4):
                sub = rng.choice(SUBTYPES)
        items.append(('A', d, gen_name(rng), ty, dl, sub))
    return items


def gen_styles(rng, items):
    k = rng.random()
    if k < 0.35:
        return [0] * len(items)          # the canonical spelling of theorem compile_render
    if k < 0.5:
        return [3] * len(items)          # `[name]` everywhere
    return [rng.randrange(16) for _ in items]


def encode_tree(items, styles):
    w = []
    for it, st in zip(items, styles):
        w.append(str(st))
        if it[0] == 'M':
            w += ['M', str(ord(it[1]))]
        elif it[0] == 'E':
            w.append('E')
        else:
            _, d, name, ty, dl, sub = it
            w += ['A', str(d), dots(name), dots(ty) if ty is not None else '-',
                  str(ord(dl)) if dl is not None else '-', dots(sub) if sub is not None else '-']
    return ' '.join(w)


OPEN, CLOSE = ' [(<{', ' ])>}'


def spell_tree(rng, items):
    """free-hand spelling used on the `sig` stream (model vs implementation only): tabs/newlines as blanks,
    leading/trailing blanks, occasionally a wrong or missing closing bracket (the code ignores closers)"""
    out = []
    for it in items:
        if it[0] == 'M':
            out.append(it[1])
        elif it[0] == 'E':
            out.append('=')
        else:
            _, d, name, ty, dl, sub = it
            s = name
            if ty is not None:
                s += ':' + ty + ('(' + dl + ')' if dl is not None else '') + (':' + sub if sub is not None else '')
            if d:
                c = CLOSE[d]
                r = rng.random()
                if r < 0.08:
                    c = rng.choice(')]>}')
                elif r < 0.12:
                    c = ''
                sp = rng.choice(['', ' ', '  ', '\t'])
                s = OPEN[d] + sp + s + rng.choice(['', ' ', ' \n ']) + c
            out.append(s)
    blanks = [' ', ' ', ' ', '  ', '\t', '\n', ' \t ']
    s = ''
    for i, w in enumerate(out):
        if i:
            s += rng.choice(blanks)
        s += w
    if rng.random() < 0.2:
        s = rng.choice(blanks) + s
    if rng.random() < 0.2:
        s += rng.choice(blanks)
    return s


def gen_malformed(rng):
    r = rng.random()
    if r < 0.5:
        return ''.join(rng.choice(MALFORMED_ALPHABET) for _ in range(rng.randint(0, 14)))
    # mutate a well-formed spelling: insert / delete / replace a few characters
    s = list(spell_tree(rng, gen_tree(rng)))
    for _ in range(rng.randint(1, 3)):
        k = rng.random()
        p = rng.randrange(len(s) + 1)
        if k < 0.4:
            s.insert(p, rng.choice(MALFORMED_ALPHABET))
        elif k < 0.7 and s:
            del s[min(p, len(s) - 1)]
        elif s:
            s[min(p, len(s) - 1)] = rng.choice(MALFORMED_ALPHABET)
    return ''.join(s)


CORNERS = ['', ' ', 'a:', 'a:b(', 'a:b(;)', 'a:b(;):c', 'a:b:c', 'a:b:c:d', 'a:b(:)', 'a:b(:):c', 'a:b( )', 'a:b())', 'a:b(x):c',
           'a::b', 'a:b(c', '[ * ]', '[ ] *', '[ a ] *', '* a', 'a * b', '1a', '_a', 'a_1', '9', '[ = a ]', '= a', '[ [ a',
           '{ self }', 'a b:cs c:nox d:url', '[a:list(,):int]', 'a:b(;)c', 'a:b(;):', ';', '[ a:b ( c ) ]', 'a:b (', '* + -',
           '[a)', '(a:Dimen]', '[ 1 ]', 'a:1', 'a:_', 'a:b:_']


def gen_sig_cases(rng, n):
    """~55% sigtree (well-formed, spec oracle), ~30% free-hand spellings of well-formed signatures and
    ~15% malformed/random strings on `sig` (model vs implementation)"""
    for s in CORNERS:
        yield Case('sig', cps(s), {'kind': 'sig', 'wf': False})
    for _ in range(n):
        r = rng.random()
        if r < 0.55:
            items = gen_tree(rng)
            yield Case('sigtree', encode_tree(items, gen_styles(rng, items)), {'kind': 'sig', 'wf': True})
        elif r < 0.85:
            yield Case('sig', cps(spell_tree(rng, gen_tree(rng))), {'kind': 'sig', 'wf': True})
        else:
            yield Case('sig', cps(gen_malformed(rng)), {'kind': 'sig', 'wf': False})


# ---------------------------------------------------------------- implementation side

def show_val(v):
    if v is None:
        return 'N'
    if v is True:
        return 'T'
    if v is False:
        return 'F'
    if isinstance(v, str):
        return 's' + dots(v)
    if isinstance(v, list):
        return 'L' + '/'.join(show_val(x) for x in v)
    return '?' + type(v).__name__


def show_args(arguments):
    out = ['ok']
    for a in arguments:
        out.append('%s|%s|%s' % (show_val(a.name), a.index,
                                 ','.join('%s=%s' % (k, show_val(v)) for k, v in sorted(a.options.items()))))
    return ' '.join(out)


def compile_real(s):
    """fresh `plasTeX.Command` subclass with `args = s`; `.arguments` read on an instance"""
    import plasTeX
    cls = type('SigProbe', (plasTeX.Command,), {'args': s})
    try:
        return show_args(cls().arguments)
    except ValueError:
        return 'err:ValueError'
    except Exception as e:
        return 'err:other:' + type(e).__name__


def sig_string(case, aux=None):
    words = aux[0].split() if case.stream == 'sigtree' else case.line.split()
    return ''.join(chr(int(w)) for w in words)


def impl_sig(case, aux=None):
    return compile_real(sig_string(case, aux))


# ---------------------------------------------------------------- self-test

if __name__ == '__main__':
    import os, random, subprocess, sys
    import framework  # noqa: F401  (puts VERIF_REPO on sys.path)
    lean_dir = os.path.join(os.path.dirname(os.path.abspath(__file__)), '..', '..', 'lean')
    scratch = os.environ.get('C05SIG_SCRATCH', '/root/work/c05/scratch_sig/Main.lean')
    rng = random.Random(int(os.environ.get('VERIF_SEED', '1')))
    cases = list(gen_sig_cases(rng, int(os.environ.get('N', '3000'))))
    req = ''.join('%s %s\n' % (c.stream, c.line) for c in cases)
    p = subprocess.run(['lake', 'env', 'lean', '--run', scratch], cwd=lean_dir, input=req, capture_output=True, text=True)
    if p.returncode != 0:
        sys.exit('driver failed: ' + p.stderr[:2000])
    lines = p.stdout.split('\n')[:-1]
    assert len(lines) == len(cases), (len(lines), len(cases))
    bad = prop_bad = spec_n = errs = canon = 0
    for c, ln in zip(cases, lines):
        f = ln.split('\t')
        if f[0] == 'bad-op':
            print('BAD-OP', c.stream, c.line)
            bad += 1
            continue
        model, spec, aux = f[0], f[1], f[2:]
        ob = impl_sig(c, aux)
        errs += ob.startswith('err')
        canon += (len(aux) > 1 and aux[1] == 'c')
        if ob != model:
            bad += 1
            print('MISMATCH impl/model', repr(sig_string(c, aux)), '\n  impl ', ob, '\n  model', model)
        if spec != '-':
            spec_n += 1
            if ob != spec:
                prop_bad += 1
                print('PROPERTY', repr(sig_string(c, aux)), '\n  impl', ob, '\n  spec', spec)
    print('cases=%d distinct=%d with_spec=%d canonical=%d errors=%d impl!=model=%d impl!=spec=%d' % (
        len(cases), len({c.key() for c in cases}), spec_n, canon, errs, bad, prop_bad))
    sys.exit(1 if bad or prop_bad else 0)
