"""C10 - Lists and tables keep their shape: items, rows, cells and spans as written.

streams (through the Lean driver)
  cspec : column-specification trees of the Spec grammar (l c r, p{..}, |, @{..}, >{..}, *{n}{..}); the driver
          spells them as tokens (aux), runs Model.compileColspec and the Spec denotation; the implementation
          side calls the real `Array.compileColspec` on real tokens.
  ctoks : arbitrary colspec token lists (also malformed: `|` alone, `<{x}` first, missing arguments): impl vs model.
  bcmd  : `BorderCommand.applyBorders` on real `\\hline`/`\\cline` elements and real cells with colspans:
          which cells get the border (impl vs Model.walk vs Spec.markRow).
  tree  : block trees of the Spec grammar (lists of the 3 kinds, nested, terms, multi-paragraph items, groups,
          environments, math, tabulars in items and cells): the driver renders them to the expanded-token
          stream, digests with the model, and gives the prescribed tree; the implementation side parses
          the LaTeX spelling as a real document and reads the DOM.
  table : colspec tree + table tree: model = digestion + colspan + borders + colspec styles + row deletion;
          spec = Spec.denTable (rule normal form); implementation = real document, (colspan, borders, style,
          content) of every cell of every remaining row.
  rec   : expanded-token streams RECORDED from real runs (plasTeX.TeX.bufferediter replaced while parsing
          generated and ~15% malformed documents) replayed through the model's digestion: DOM shape vs model.
  pos   : forests of nested lists (Spec.ListNumbers: up to four levels, labelled and unlabelled items): the driver
          spells the macro invocations, runs Model.ListNumbering (List.invoke / item.invoke / postArgument: nesting
          depth, counter of the level, position, stepping and resets) and the Spec numbering; the implementation
          side parses a real document (random mix of itemize/enumerate/description/trivlist) TWICE in the same
          process and reads counter + position of every item, the final list depth and the list counters.
  posev : invocation sequences outside that grammar (unclosed lists, a fifth and sixth level): impl vs model.
document level (extra_checks, stream doc10): generated lists/tabulars, observation compared with the
generator's own expectation computed in Python from the tree (independent of the Lean side).
"""
import logging, json, random as _random
import extract
from framework import Case, Violation

ID = 'C10'
LEAN_MODULE = 'PlasVerif.Properties.C10'
LEVEL_TEXT = ('Lean 4 theorems over a line-by-line model of the digestion loops (Environment.digest, Macro.digestUntil, bgroup.digest, List.digest, List.item.digest, '
              'ArrayRow.digest, ArrayCell.digest) and of Arrays.py after digestion (compileColspec, colspan from \\multicolumn, ArrayCell.borders, BorderCommand.applyBorders, '
              'ArrayRow/Array.applyBorders, colspec styles, numCols): digest_roundtrip / items_roundtrip / table_roundtrip prove for EVERY tree of the grammar (lists, tables, groups, '
              'environments nested without bound) that digesting its token stream rebuilds exactly one item per \\item, one row per row, one cell per cell with the written content; '
              'multicolumn_span, full_row_spans_sum, colspec_compile/colspec_count (incl. *{n}{..} push-back, p{}, @{}, >{}), hline_marks_row, cline_marks_exactly, vbar_marks_columns, '
              'borders_keep_cells, table_pipeline (tokens -> digestion -> Array.applyBorders = specTable of the rows as written, for every table), item_keeps_trailing_declaration / declaration_stops_at_item (an \\item ends a bare declaration opened in the previous item: the next item is not swallowed), table_rules_adjacent (the index/mutation loop of Array.applyBorders equals the structural specTable: a rule-only row marks the bottom of the nearest content row above, a rule-only first row the top of the second row), link_cells_endpoints (Array.linkCells colspecStart/End = the declared columns a spanning cell covers), item_positions / list_state_restored (List.invoke, item.invoke, postArgument: every item of a forest nested <= 4 deep is numbered by the counter of its level with its rank among the unlabelled items; depth and counters are restored), table_rows_kept (Array.applyBorders keeps exactly the non-border-only rows with their cells untouched) and cell_format_isolated (a declaration stops at & / \\\\) are proved for all rows/specifications. The models are tied to the code by differential execution of the real classes and of real documents, '
              'including replay of recorded real token streams. Carried by correspondence only: which macro emits which phantom token and context depth, paragraphs(), '
              'argument parsing of \\item[..]/\\multicolumn/\\cline, the reading of rule placement from the written source (Spec.denTable, rule normal form) is compared on every run; refstepcounter/currentlabel and the \\the<counter> formatting of item numbers belong to C08.')
LEVEL_NOTE = ('Trusted: Lean kernel (axioms propext, Classical.choice, Quot.sound only), translator (ColumnType.columnTypes), the correspondence harness, its canonicaliser '
              '(blanks dropped; par wrappers dropped inside items/cells/groups/environments but shown as a direct child of a list, array or row; text compared per character) and generators, CPython. Not verified: longtable (own digest of head/foot rows), tabularx/tabular* widths, booktabs trim and rule widths (parsed, ignored), ArrayRow/Array.source.')
TECHNIQUE = 'Lean 4 proof (mutual structural induction over document trees / specification trees / list forests, exact fuel accounting, loop-to-structural refinement for Array.applyBorders) + regenerated column-type and list-counter reset tables + differential correspondence incl. recorded token streams'
TRUSTED = ['python oracle harness/props/c10.py:expect_* (the generator\'s own expectation for the doc10 stream)',
           'recording shim replacing plasTeX.TeX.bufferediter inside the harness process']
ASSUMPTIONS = ['rule normal form for the Spec denotation of tables: \\hline/\\cline at the start of a row or alone in a row; \\cline spans aligned with cell boundaries',
               'bare declarations (\\bfseries ..) in item bodies and cells are generated for the rec and doc10 streams and covered by item_keeps_trailing_declaration / cell_format_isolated; the Spec block grammar of the tree/table streams has no declaration node',
               'every document of a run is parsed in the same process without resetting any plasTeX state in between; the pos stream parses each document twice and requires equal results']
RULE = ('trees generated recursively from the seed: lists (3 kinds, depth<=4, terms, multi-paragraph items, spaces / blank lines / \\par between \\begin{..} and the first \\item and after an \\item, groups/environments/math/tabulars inside), tabulars (1-5 columns, 1-6 rows, '
        'random colspecs with | p{} @{} >{} *{n}{}, \\multicolumn, \\hline/\\cline and the booktabs rules, \\\\ \\\\* \\\\[..] \\tabularnewline \\cr, [pos] arguments, tabular / tabular* / tabularx / tabulary / array / amsmath matrices, trivlist / list / enumerate[..], empty cells, groups, math, nested tabulars), list forests for the numbering streams, ~15% malformed documents for the rec stream; '
        'non-trivial = spec defined and the input has >= 2 items / >= 2 cells / a star, bar or argument column / a span; distinct = distinct request line')
EXHAUSTIVE = {}
CASE_TIMEOUT = 30

logging.disable(logging.CRITICAL)

# ---------------------------------------------------------------- translator

ALIGN = {'left': 1, 'center': 2, 'right': 3}


def gen_arrays():
    from plasTeX.Base.LaTeX.Arrays import ColumnType
    rows = []
    for name, cls in ColumnType.columnTypes.items():
        if not isinstance(name, str) or len(name) != 1:
            raise ValueError('column type name %r' % (name,))
        a = cls.columnAttributes.get('text-align')
        if a is not None and a not in ALIGN:
            raise ValueError('text-align %r' % (a,))
        extra = set(cls.columnAttributes) - {'text-align'}
        if extra:
            raise ValueError('column attributes %r' % (extra,))
        rows.append((ord(name), ALIGN.get(a, 0)))
    rows.sort()
    src = (extract.HEADER % ('plasTeX/Base/LaTeX/Arrays.py (ColumnType.columnTypes)', 'exact') +
           'namespace PlasVerif.Generated.Arrays\n'
           '/-! column letter (code point) -> text-align (0 none, 1 left, 2 center, 3 right) of `ColumnType.columnTypes` -/\n'
           'def columnTypes : List (Nat × Nat) := [' + ', '.join('(%d, %d)' % r for r in rows) + ']\n'
           'end PlasVerif.Generated.Arrays\n')
    return 'PlasVerif/Generated/Arrays.lean', src, 'exact'


def gen_list_counters():
    """List.counters and the reset chain of those counters in the context of an article document (probed on the live context)"""
    from plasTeX.TeX import TeX
    from plasTeX import TeXDocument
    from plasTeX.Base.LaTeX.Lists import List
    doc = TeXDocument()
    tex = TeX(doc)
    tex.input('\\documentclass{article}\\begin{document}\\end{document}')
    tex.parse()
    names = list(List.counters)
    if not names or not all(isinstance(n, str) and n.isalpha() for n in names):
        raise ValueError('List.counters = %r' % (names,))
    reset = []
    for n in names:
        rb = doc.context.counters[n].resetby
        if rb is None:
            reset.append('none')
        elif rb in names:
            reset.append('some %d' % names.index(rb))
        else:
            raise ValueError('counter %s reset by %r' % (n, rb))
    src = (extract.HEADER % ('plasTeX/Base/LaTeX/Lists.py (List.counters) and the counters declared by the article class', 'probed') +
           'namespace PlasVerif.Generated.ListCounters\n'
           '/-! `List.counters` (names as code points) and, for each, the index of the list counter that resets it\n'
           '    (`Counter.resetby`), after `\\documentclass{article}` -/\n'
           'def counterNames : List (List Nat) := [' + ', '.join('[' + ', '.join(str(ord(c)) for c in n) + ']' for n in names) + ']\n'
           'def resetBy : List (Option Nat) := [' + ', '.join(reset) + ']\n'
           'end PlasVerif.Generated.ListCounters\n')
    return 'PlasVerif/Generated/ListCounters.lean', src, 'probed'


GENERATED = [gen_arrays, gen_list_counters]

# ---------------------------------------------------------------- names

CMDS = {1: 'textbf', 2: 'emph'}
ENVS = {1: 'center', 2: 'quote', 3: 'math', 4: 'flushleft', 5: 'bfseries', 6: 'itshape', 7: 'bf', 8: 'displaymath'}
LISTS = {1: 'itemize', 2: 'enumerate', 3: 'description', 4: 'trivlist', 5: 'list'}
ARRS = {1: 'tabular', 2: 'array', 3: 'tabular*', 4: 'tabularx', 5: 'tabulary', 6: 'matrix', 7: 'pmatrix', 8: 'bmatrix'}
MATH_ARRS = ('array', 'matrix', 'pmatrix', 'bmatrix')
CMD_ID = {v: k for k, v in CMDS.items()}
ENV_ID = {v: k for k, v in ENVS.items()}
LIST_ID = {v: k for k, v in LISTS.items()}
ARR_ID = {v: k for k, v in ARRS.items()}
LETTERS = 'abcdefghkmnoqruvwxyz'

# ---------------------------------------------------------------- colspec trees
# item: ['c', code] | ['p', code, [codes]] | ['|'] | ['@', [codes]] | ['>', [codes]] | ['*', n, [items]]


def gen_cspec(rng, ncols, depth=0, top=True):
    """specification with exactly ncols columns (ncols >= 1 at top level)"""
    items = []
    if top and rng.random() < 0.3:
        items.append(['@', [ord(c) for c in rng.choice(['', '', ':', 'ab'])]])
    if rng.random() < 0.4:
        items.append(['|'])
        if rng.random() < 0.15:
            items.append(['|'])
    left = ncols
    while left > 0:
        r = rng.random()
        if r < 0.18 and depth < 2 and left >= 2:
            # star: n copies of a body with k columns
            k = rng.randint(1, max(1, left // 2))
            n = rng.randint(1, left // k) if rng.random() < 0.9 else 0
            body = gen_cspec(rng, k, depth + 1, False)
            items.append(['*', n, body])
            left -= n * k
            continue
        if rng.random() < 0.15:
            items.append(['>', [ord(c) for c in rng.choice(['x', 'ab', ''])]])
        if r < 0.35:
            items.append(['p', ord(rng.choice('ppd')), [ord(c) for c in rng.choice(['2cm', '1in', '.', '3em'])]])
        else:
            items.append(['c', ord(rng.choice('lcrlcrLCRJX'))])
        left -= 1
        if rng.random() < 0.35:
            items.append(['|'])
        if rng.random() < 0.15:
            items.append(['@', [ord(c) for c in rng.choice(['', ':', 'q'])]])
    return items


def cspec_words(items):
    out = []
    for it in items:
        k = it[0]
        if k == 'c': out.append('c%d' % it[1])
        elif k == 'p': out.append('p%d:%s' % (it[1], ','.join(map(str, it[2]))))
        elif k == '|': out.append('|')
        elif k == '@': out.append('@:' + ','.join(map(str, it[1])))
        elif k == '>': out.append('>:' + ','.join(map(str, it[1])))
        elif k == '*':
            out.append('*%s(' % ','.join(str(ord(c)) for c in str(it[1])))
            out += cspec_words(it[2]) + [')']
    return out


def cspec_tex(items):
    out = []
    for it in items:
        k = it[0]
        if k == 'c': out.append(chr(it[1]))
        elif k == 'p': out.append(chr(it[1]) + '{' + ''.join(map(chr, it[2])) + '}')
        elif k == '|': out.append('|')
        elif k == '@': out.append('@{' + ''.join(map(chr, it[1])) + '}')
        elif k == '>': out.append('>{' + ''.join(map(chr, it[1])) + '}')
        elif k == '*': out.append('*{%d}{%s}' % (it[1], cspec_tex(it[2])))
    return ''.join(out)


def cspec_cols(items, out=None, lb=None):
    """python expectation: list of [align, bl, br] (None when a left rule has no column to sit on)"""
    from plasTeX.Base.LaTeX.Arrays import ColumnType
    top = out is None
    if top:
        out, lb = [], [False]
    for it in items:
        k = it[0]
        if k in 'cp':
            cls = ColumnType.columnTypes.get(chr(it[1]))
            a = ALIGN.get(cls.columnAttributes.get('text-align'), 0) if cls else 0
            out.append([a, False, False])
        elif k == '|':
            if out: out[-1][2] = True
            else: lb[0] = True
        elif k == '*':
            for _ in range(it[1]):
                cspec_cols(it[2], out, lb)
    if top:
        if lb[0]:
            if not out:
                return None
            out[0][1] = True
        return out
    return out


def cols_str(cols):
    return 'ok:' + ' '.join('%d.%d.%d' % (a, int(bl), int(br)) for a, bl, br in cols)


# ---------------------------------------------------------------- block trees
# ['L', code] | ['G', blocks] | ['V', ty, blocks] | ['I', ty, lead, [[term, lead, blocks], ...]] (lead: blanks as a string over s=space, P=blank line, Q=\\par) | ['A', ty, cspec, rows] rows = [[cell blocks, ...], ...]


HLINES = ['\\hline ', '\\toprule ', '\\midrule ', '\\bottomrule ', '\\toprule[1pt]', '\\midrule[.5pt]']
CLINES = ['\\cline{%s}', '\\cmidrule{%s}', '\\cmidrule(lr){%s}', '\\cmidrule[1pt](l){%s}']
ROWSEPS = ['\\\\', '\\\\*', '\\\\[2pt]', '\\tabularnewline ', '\\cr ', '\\\\ ']


def leaf_tex(code, var=0):
    """`var` selects among the spellings that are the same kind of token (\\hline / booktabs rules, \\cline / \\cmidrule)"""
    if code.startswith('t'): return chr(int(code[1:]))
    if code == 's': return ' '
    if code == 'P': return '\n\n'
    if code.startswith('cl'): return CLINES[var % len(CLINES)] % code[2:]
    if code.startswith('c'): return '\\%s{q}' % CMDS[int(code[1:])]
    if code == 'hl': return HLINES[var % len(HLINES)]
    if code == 'vl': return '\\vline '
    if code.startswith('mc'):
        n, a, bl, br, s = code[2:].split('.')
        spec = ('|' if bl == '1' else '') + {'1': 'l', '2': 'c', '3': 'r'}[a] + ('|' if br == '1' else '')
        return '\\multicolumn{%s}{%s}{%s}' % (n, spec, chr(int(s)))
    raise ValueError(code)


LEAD_TEX = {'s': ' ', 'P': '\n\n', 'Q': '\\par '}


def lead_tex(lead):
    return ''.join(LEAD_TEX[c] for c in lead)


def lead_word(lead):
    return lead.replace('Q', 'P')


def blocks_tex(bs):
    return ''.join(block_tex(b) for b in bs)


def block_tex(b):
    k = b[0]
    if k == 'L': return leaf_tex(b[1], b[2] if len(b) > 2 else 0)
    if k == 'G': return '{' + blocks_tex(b[1]) + '}'
    if k == 'V':
        name = ENVS[b[1]]
        if name == 'math': return '$' + blocks_tex(b[2]) + '$'
        return '\\begin{%s}%s\\end{%s}' % (name, blocks_tex(b[2]), name)
    if k == 'D':
        return '\\%s %s' % (ENVS[b[1]], blocks_tex(b[2]))
    if k == 'I':
        name = LISTS[b[1]]
        s = '\\begin{%s}' % name + ('{-}{}' if name == 'list' else '') + (b[4] if len(b) > 4 else '') + lead_tex(b[2])
        for term, nsp, body in b[3]:
            s += '\\item' + ('[%s]' % chr(term) if term else '') + (lead_tex(nsp) or ' ')
            s += blocks_tex(body)
        return s + '\\end{%s}' % name
    if k == 'A':
        name = ARRS[b[1]]
        opts = b[4] if len(b) > 4 else {}
        seps = opts.get('seps', [])
        body = ''
        for i, row in enumerate(b[3]):
            if i:
                body += ROWSEPS[seps[i - 1] % len(ROWSEPS)] if i - 1 < len(seps) else '\\\\'
            body += '&'.join(blocks_tex(c) for c in row)
        pos = opts.get('pos', '')
        if name.endswith('matrix'):            # amsmath: no column specification
            return '$\\begin{%s}%s\\end{%s}$' % (name, body, name)
        head = {'tabular': pos, 'array': pos, 'tabular*': '{5cm}' + pos, 'tabularx': '{5cm}', 'tabulary': '{5cm}'}[name]
        s = '\\begin{%s}%s{%s}%s\\end{%s}' % (name, head, cspec_tex(b[2]), body, name)
        return '$' + s + '$' if name == 'array' else s
    raise ValueError(k)


def blocks_words(bs):
    out = []
    for b in bs:
        out += block_words(b)
    return out


def block_words(b):
    k = b[0]
    if k == 'L': return ['L' + b[1]]
    if k == 'G': return ['G('] + blocks_words(b[1]) + [')']
    if k == 'V': return ['V%d(' % b[1]] + blocks_words(b[2]) + [')']
    if k == 'I':
        out = ['I%d.%s(' % (b[1], lead_word(b[2]))]
        for term, nsp, body in b[3]:
            if body and body[-1][0] == 'D':      # the item ends in a bare declaration (Spec: Items.consD)
                out += (['itD%d.%s.%d(' % (term, lead_word(nsp), body[-1][1])] + blocks_words(body[:-1]) + [')'] +
                        ['D('] + blocks_words(body[-1][2]) + [')'])
            else:
                out += ['it%d.%s(' % (term, lead_word(nsp))] + blocks_words(body) + [')']
        return out + [')']
    if k == 'A':
        out = ['A%d(' % b[1]]
        for i, row in enumerate(b[3]):
            if i: out.append('nl')
            for j, cell in enumerate(row):
                if j: out.append('&')
                out += blocks_words(cell)
        out.append(')')
        return (['V3('] + out + [')']) if ARRS[b[1]] in MATH_ARRS else out
    raise ValueError(k)


def shape_of(b):
    """python expectation of the canonical shape (blanks and par dropped)"""
    k = b[0]
    if k == 'L':
        return [] if b[1] in ('s', 'P') else [b[1]]
    if k == 'G': return ['{('] + shapes_of(b[1]) + [')']
    if k in ('V', 'D'): return ['Be%d(' % b[1]] + shapes_of(b[2]) + [')']
    if k == 'I':
        out = ['Bl%d(' % b[1]]
        for term, nsp, body in b[3]:
            out += ['i%d(' % term] + shapes_of(body) + [')']
        return out + [')']
    if k == 'A':
        out = ['Ba%d(' % b[1]]
        for row in b[3]:
            out.append('row(')
            for cell in row:
                out += ['cell('] + shapes_of(cell) + [')']
            out.append(')')
        out.append(')')
        return (['Be3('] + out + [')']) if ARRS[b[1]] in MATH_ARRS else out
    raise ValueError(k)


def shapes_of(bs):
    out = []
    for b in bs:
        out += shape_of(b)
    return out


class Gen:
    def __init__(self, rng, maxdepth=4, decl=False, itemdecl=False):
        self.rng, self.maxdepth, self.decl, self.itemdecl = rng, maxdepth, decl, decl or itemdecl

    def text(self, n=None):
        return [['L', 't%d' % ord(self.rng.choice(LETTERS))] for _ in range(n or self.rng.randint(1, 3))]

    def inline(self, depth, in_math=False):
        """a few inline blocks (no leading blank)"""
        r, out = self.rng, []
        for _ in range(r.randint(1, 3)):
            x = r.random()
            if x < 0.5 or depth >= self.maxdepth:
                out += self.text()
            elif x < 0.62:
                out.append(['G', self.inline(depth + 1, in_math)])
            elif x < 0.72 and not in_math:
                out.append(['V', 3, self.text()])
            elif x < 0.8 and not in_math:
                out.append(['L', 'c%d' % r.choice([1, 2])])
            elif x < 0.88:
                out.append(['G', [[('D' if self.decl else 'V'), r.choice([5, 6, 7]), self.text()]]])      # {\bfseries ab}
            else:
                out += self.text(1)
            if r.random() < 0.3 and not in_math:
                out.append(['L', 's'])
                out += self.text(1)
        return out

    def item_body(self, depth, ldepth):
        r = self.rng
        out = self.inline(depth) if r.random() < 0.9 else []
        if r.random() < 0.3:
            out += [['L', 'P']] + self.inline(depth)                            # second paragraph
        if ldepth < 4 and depth < self.maxdepth and r.random() < 0.35:
            out.append(self.list(depth + 1, ldepth + 1))
            if r.random() < 0.5:
                out += self.text()
        if depth < self.maxdepth and r.random() < 0.15:
            out.append(['V', r.choice([1, 2, 4]), self.inline(depth + 1)])
        if depth < self.maxdepth and r.random() < 0.12:
            out.append(self.table(depth + 1, simple=True))
        while out and is_blank(out[0]):
            out.pop(0)
        if self.itemdecl and r.random() < 0.15:
            # \item ... \bfseries xy [nested list]: a bare declaration runs up to the next \item of this list (or its end)
            inner = self.text()
            if ldepth < 4 and depth < self.maxdepth and r.random() < 0.3:
                inner = inner + [self.list(depth + 1, ldepth + 1)] + (self.text() if r.random() < 0.5 else [])
            out.append(['D', r.choice([5, 6, 7]), inner])
        return out

    def list(self, depth=0, ldepth=1):
        r = self.rng
        ty = r.choice([1, 2, 3, 1, 2, 3, 4, 5])
        items = []
        for _ in range(r.randint(1, 4) if r.random() < 0.95 else 0):
            term = ord(r.choice('STUVW')) if ty == 3 or r.random() < 0.1 else 0
            items.append([term, self.lead(0.12) if not term else 's' + self.lead(0.12).replace('s', ''), self.item_body(depth, ldepth)])
        opt = r.choice(['[a]', '[i]', '[(1)]']) if ty == 2 and r.random() < 0.2 else ''
        return ['I', ty, self.lead(0.3), items] + ([opt] if opt else [])

    def lead(self, ppar):
        """blanks between \\begin{list} and the first \\item / after an \\item: spaces, blank lines, \\par"""
        r = self.rng
        out = 's' if r.random() < 0.5 else ''
        if r.random() < ppar:
            out += r.choice(['P', 'P', 'Q', 'Ps', 'PP', 'QP'])
        return out

    def cell(self, depth, simple):
        r = self.rng
        x = r.random()
        if x < 0.15:
            return [] if r.random() < 0.5 else [['L', 's']]
        out = self.inline(depth)
        if not simple and depth < self.maxdepth and r.random() < 0.08:
            out.append(self.table(depth + 1, simple=True))
        if r.random() < 0.1:
            out.append(['V', r.choice([5, 6]), self.text()])
        if self.decl and r.random() < 0.25:
            out.append(['D', r.choice([5, 6, 7]), self.text()])                 # \bfseries ab: declaration up to the end of the cell
        return out

    def table(self, depth=0, simple=False, ncols=None):
        r = self.rng
        ncols = ncols or (r.randint(1, 3) if simple else r.randint(1, 5))
        nrows = r.randint(1, 3) if simple else r.randint(1, 6)
        spec = gen_cspec(r, ncols)
        rows = []
        for i in range(nrows):
            if not simple and i == 0 and r.random() < 0.05:
                rows.append([self.rules(ncols)])                                 # rules alone in the first row
                continue
            if not simple and i > 0 and r.random() < 0.07:
                rows.append([self.rules(ncols, [cell_span(c)[0] for c in rows[-1]])])    # a row of rules only
                continue
            cells, col = [], 1
            while col <= ncols:
                if not simple and r.random() < 0.2 and col <= ncols:
                    n = r.randint(1, ncols - col + 1)
                    st = '%d.%d.%d' % (r.randint(1, 3), r.random() < 0.3, r.random() < 0.3)
                    cells.append([['L', 'mc%d.%s.%d' % (n, st, ord(r.choice(LETTERS)))]])
                    col += n
                else:
                    cells.append(self.cell(depth, simple))
                    col += 1
                if r.random() < 0.06:
                    break                                                        # short row
            if r.random() < (0.15 if simple else 0.4):
                cells[0] = self.rules(ncols, [cell_span(c)[0] for c in cells]) + cells[0]
            if not simple and r.random() < 0.08:
                # outside the rule normal form (Spec.specTable / table_pipeline still say what must happen): a rule after the
                # content of the last cell (marks the bottom of this row), a rule or \vline at the start of another cell
                k = r.randrange(len(cells))
                x = r.random()
                if x < 0.4 and not (cells[-1] and cells[-1][-1][0] == 'D'):       # (after a declaration the rule would belong to it)
                    cells[-1] = cells[-1] + self.rules(ncols, [cell_span(c)[0] for c in cells])
                elif x < 0.7:
                    cells[k] = [['L', 'vl']] + cells[k]
                else:
                    cells[k] = self.rules(ncols, [cell_span(c)[0] for c in cells]) + cells[k]
            rows.append(cells)
        if r.random() < 0.6:
            rows.append([self.rules(ncols, [cell_span(c)[0] for c in rows[-1]]) if r.random() < 0.6 else []])  # what follows the last \\
        ty = r.choice([1, 1, 1, 3, 4, 5])
        opts = {'seps': [r.randrange(len(ROWSEPS)) if r.random() < 0.4 else 0 for _ in rows[1:]]}
        if ty in (1, 3) and r.random() < 0.2:
            opts['pos'] = r.choice(['[t]', '[b]', '[c]'])
        return ['A', ty, spec, rows, opts]

    def math_array(self):
        """$\\begin{array}{..} .. \\end{array}$: cells in math mode (letters and groups only)"""
        r = self.rng
        ncols, nrows = r.randint(1, 4), r.randint(1, 4)
        rows = []
        for i in range(nrows):
            cells = [self.text() + ([['G', self.text()]] if r.random() < 0.3 else []) if r.random() < 0.85 else [] for _ in range(ncols)]
            if r.random() < 0.3:
                cells[0] = self.rules(ncols) + cells[0]
            rows.append(cells)
        if r.random() < 0.5:
            rows.append([self.rules(ncols) if r.random() < 0.5 else []])
        ty = r.choice([2, 2, 6, 7, 8])
        return ['A', ty, gen_cspec(r, ncols) if ty == 2 else [], rows, {'seps': [r.randrange(len(ROWSEPS)) if r.random() < 0.3 else 0 for _ in rows[1:]]}]

    def rules(self, ncols, spans=None):
        r = self.rng
        out = []
        for _ in range(r.randint(1, 2) if r.random() < 0.2 else 1):
            var = r.randrange(6) if r.random() < 0.35 else 0
            if r.random() < 0.55 or ncols == 1:
                out.append(['L', 'hl', var])
            else:
                # \cline aligned with the cell boundaries of the row it touches when known
                starts = [1]
                for s in (spans or [1] * ncols):
                    starts.append(starts[-1] + s)
                i = r.randrange(len(starts) - 1)
                j = r.randrange(i, len(starts) - 1)
                out.append(['L', 'cl%d-%d' % (starts[i], starts[j + 1] - 1), var])
        if r.random() < 0.3:
            out.insert(0, ['L', 's'])
        return out


# ---------------------------------------------------------------- python expectation for tables (doc10)

def cell_span(cell):
    m = [b for b in cell if b[0] == 'L' and b[1].startswith('mc')]
    if not m:
        return 1, None
    n, a, bl, br, s = m[-1][1][2:].split('.')
    return int(n), [int(a), bl == '1', br == '1']


def is_blank(b): return b[0] == 'L' and b[1] in ('s', 'P')
def is_rule(b): return b[0] == 'L' and (b[1] == 'hl' or b[1].startswith('cl'))


def expect_table(t):
    """rows of (span, marks, style, shape) the property prescribes; None outside the rule normal form"""
    cols = cspec_cols(t[2])
    if cols is None:
        return None
    parts = []
    for row in t[3]:
        lead, rest = [], list(row[0])
        while rest and (is_blank(rest[0]) or is_rule(rest[0])):
            if is_rule(rest[0]): lead.append(rest[0][1])
            rest.pop(0)
        others = rest + [b for c in row[1:] for b in c]
        if any(is_rule(b) or (b[0] == 'L' and b[1] == 'vl') for b in others):
            return None
        parts.append((lead, all(is_blank(b) for b in others), row))
    if len(parts) > 1 and parts[0][1]:
        # rules alone in the first row belong to the top of the second row
        parts[1] = (parts[0][0] + parts[1][0], parts[1][1], parts[1][2])
        parts[0] = ([], True, parts[0][2])
    out = []
    for i, (lead, rule_only, row) in enumerate(parts):
        if rule_only:
            continue
        bottom = []
        for l2, ro2, _ in parts[i + 1:]:
            if not ro2: break
            bottom += l2
        cells, start = [], 1
        for cell in row:
            span, own = cell_span(cell)
            def covers(rule):
                if rule == 'hl': return True
                a, b = rule[2:].split('-')
                return int(a) <= start <= int(b)
            marks = ('T' if any(covers(x) for x in lead) else '') + ('B' if any(covers(x) for x in bottom) else '')
            st = [0, False, False]
            for spec in cols[start - 1:start - 1 + span]:
                s = own or spec
                st = [s[0] if s[0] else st[0], st[1] or s[1], st[2] or s[2]]
            # linkCells: a spanning cell is linked to the first and last declared column it covers (0-based), if they exist
            link = '%d-%d' % (start - 1, start + span - 2) if span > 1 and start + span - 2 < len(cols) else '-'
            cells.append('%d;%s;%d.%d.%d;%s;%s' % (span, marks, st[0], int(st[1]), int(st[2]), link, ' '.join(shapes_of([kept_rows(b) for b in cell]))))
            start += span
        out.append(' | '.join(cells))
    return ' / '.join(out)


# ---------------------------------------------------------------- implementation side

_state = {}


def _classes():
    if not _state:
        import plasTeX.TeX as T
        import plasTeX
        from plasTeX.Base.LaTeX.Arrays import Array
        from plasTeX.Base.LaTeX.Lists import List
        from plasTeX.Base.TeX.Text import bgroup, egroup
        from plasTeX.Base.TeX.Primitives import par, MathShift
        _state.update(T=T, plasTeX=plasTeX, Array=Array, List=List, bgroup=bgroup, egroup=egroup, par=par, MathShift=MathShift,
                      orig=T.bufferediter)
        known = {plasTeX.Macro.digest, plasTeX.Environment.digest, List.digest, List.item.digest, Array.digest, Array.ArrayRow.digest,
                 Array.ArrayCell.digest, Array.multicolumn.digest, bgroup.digest, egroup.digest, par.digest}
        _state['known'] = known
    return _state


def tokcode(t):
    """kind code of a real stream token / DOM node (the model's vocabulary)"""
    S = _classes()
    Array, List, Macro = S['Array'], S['List'], S['plasTeX'].Macro
    if t.nodeType != Macro.ELEMENT_NODE:
        return 's' if t.isElementContentWhitespace else 't%d' % ord(str(t)[0])
    if type(t).digest not in S['known']:
        raise RuntimeError('unmodelled digest: %s' % type(t).__name__)
    if isinstance(t, S['par']): return 'P'
    if isinstance(t, Array.ArrayRow): return 'row'
    if isinstance(t, Array.ArrayCell): return 'cell'
    if isinstance(t, Array.CellDelimiter): return '&'
    if isinstance(t, Array.EndRow): return 'nl'
    if isinstance(t, List.item):
        term = t.attributes.get('term') if t.attributes else None
        return 'i%d' % (ord(term.textContent[0]) if term is not None and term.textContent else 0)
    if isinstance(t, S['egroup']): return '}'
    if isinstance(t, S['bgroup']): return '{'
    end = t.macroMode == Macro.MODE_END
    if isinstance(t, Array): return ('Ea%d' if end else 'Ba%d') % ARR_ID.get(t.nodeName, 9)
    if isinstance(t, List): return ('El%d' if end else 'Bl%d') % LIST_ID.get(t.nodeName, 9)
    if t.nodeName == 'document': return 'Ee0' if end else 'Be0'
    if isinstance(t, S['plasTeX'].Environment): return ('Ee%d' if end else 'Be%d') % ENV_ID.get(t.nodeName, 99)
    if t.level < Macro.ENDSECTIONS_LEVEL: return 'lo'
    if t.nodeName == 'setcounter': return 'sc'
    if isinstance(t, Array.cline):
        sp = t.attributes['span']
        try:
            return 'cl%d-%d' % (int(sp[0]), int(sp[1]))
        except (TypeError, ValueError, IndexError):
            return 'cl?'                      # not the pair of integers \cline{i-j} must give: reported as a mismatch, not a crash
    if isinstance(t, Array.hline): return 'hl'
    if isinstance(t, Array.vline): return 'vl'
    if isinstance(t, Array.multicolumn):
        st = t.colspec.style
        txt = t.textContent
        return 'mc%d.%d.%d.%d.%d' % (t.attributes['colspan'], ALIGN.get(st.get('text-align'), 0), 'border-left' in st, 'border-right' in st,
                                     ord(txt[0]) if txt else 0)
    return 'c%d' % CMD_ID.get(t.nodeName, 99)


CONTAINER = ('B', '{', 'i', 'row', 'cell')


def dom_shape(node, out, strict=False):
    """canonical shape of the children of a DOM node.  Blanks are dropped; `par` wrappers are dropped inside items,
    cells, groups, environments, but shown (`P( .. )`) as a direct child of a list, array or row (`strict`):
    the children of those must be the items / rows / cells themselves."""
    S = _classes()
    Macro = S['plasTeX'].Macro
    for c in node.childNodes:
        if c.nodeType != Macro.ELEMENT_NODE:
            out += ['t%d' % ord(ch) for ch in str(c) if not ch.isspace()]
            continue
        code = tokcode(c)
        if code == 'P':
            if strict:
                out.append('P(')
            dom_shape(c, out)
            if strict:
                out.append(')')
        elif code.startswith(('B', '{', 'i')) or code in ('row', 'cell'):
            out.append(code + '(')
            dom_shape(c, out, code.startswith(('Bl', 'Ba')) or code == 'row')
            out.append(')')
        else:
            out.append(code)
    return out


def run_doc(body, record=False):
    """parse a real document; returns (document element, recorded top-level stream or None)"""
    S = _classes()
    T = S['T']
    # no state is reset between documents: list depth and open-math tracking are per document (fixes 50c58f0 / C17),
    # and thousands of documents share this process - anything leaking from one into the next shows up as a mismatch
    recs = []
    if record:
        class rec(S['orig']):
            def __init__(self, obj):
                it, me = iter(obj), []
                recs.append(me)
                def nx():
                    t = next(it)
                    me.append((t, t.contextDepth))
                    return t
                self._next, self._buffer = nx, []
        T.bufferediter = rec
    try:
        doc = S['plasTeX'].TeXDocument()
        tex = T.TeX(doc)
        tex.input('\\documentclass{article}' + ('\\usepackage{amsmath}' if 'matrix}' in body else '') + '\\begin{document}' + body + '\\end{document}')
        tex.parse()
    finally:
        T.bufferediter = S['orig']
    els = doc.getElementsByTagName('document')
    return (els[0] if els else None), (recs[0] if recs else None)


def canon_exc(e):
    n = type(e).__name__
    return 'err:' + (n if n in ('IndexError',) else 'overrun')


def first_arrays(node):
    """the array-like nodes (tabular, tabular*, tabularx, tabulary, array) in document order"""
    S = _classes()
    out = []

    def walk(n):
        for c in n.childNodes:
            if c.nodeType == S['plasTeX'].Macro.ELEMENT_NODE:
                if isinstance(c, S['Array']):
                    out.append(c)
                walk(c)
    walk(node)
    return out


def obs_table(tab):
    rows = []
    for row in tab.childNodes:
        cells = []
        for cell in row.childNodes:
            a = cell.attributes
            span = a.get('colspan', 1) if a else 1
            st = cell.style
            marks = ''.join(m for m, k in (('T', 'top'), ('B', 'bottom'), ('L', 'left'), ('R', 'right')) if ('border-%s-style' % k) in st)
            cs = tab.colspec or []
            ids = [id(x) for x in cs]
            a0, a1 = getattr(cell, 'colspecStart', None), getattr(cell, 'colspecEnd', None)
            if a0 is None and a1 is None:
                link = '-'
            else:
                link = '%s-%s' % (ids.index(id(a0)) if id(a0) in ids else '?', ids.index(id(a1)) if id(a1) in ids else '?')
            cells.append('%d;%s;%d.%d.%d;%s;%s' % (span, marks, ALIGN.get(st.get('text-align'), 0), 'border-left' in st, 'border-right' in st,
                                                   link, ' '.join(dom_shape(cell, []))))
        rows.append(' | '.join(cells))
    return ' / '.join(rows)


def impl(case, aux):
    S = _classes()
    st = case.stream
    if st in ('cspec', 'ctoks'):
        words = (aux[0] if st == 'cspec' else case.line).split()
        s = ''.join({'bg': '{', 'eg': '}', 'sp': ' '}.get(w) or chr(int(w)) for w in words)
        doc = S['plasTeX'].TeXDocument()
        tex = S['T'].TeX(doc)
        tex.input(s)
        toks = list(tex.itertokens())
        try:
            out = S['Array'].compileColspec(tex, toks)
        except Exception as e:
            return canon_exc(e)
        return cols_str([(ALIGN.get(o.style.get('text-align'), 0), 'border-left' in o.style, 'border-right' in o.style) for o in out])
    if st == 'bcmd':
        w = case.line.split()
        a, b, loc, col0 = int(w[0]), int(w[1]), w[2], int(w[3])
        spans = [int(x) for x in w[4:]]
        doc = S['plasTeX'].TeXDocument()
        S['T'].TeX(doc)
        doc.context.loadBaseMacros()
        cmd = S['Array'].hline() if (a, b) == (0, 0) else S['Array'].cline()
        cmd.ownerDocument = doc
        if (a, b) != (0, 0):
            cmd.attributes['span'] = [a, b]
        cells = []
        for sp in spans:
            c = S['Array'].ArrayCell()
            c.ownerDocument = doc
            if sp:
                c.attributes['colspan'] = sp
            cells.append(c)
        if col0 != 1:
            return 'skip'
        try:
            cmd.applyBorders(cells, location=loc)
        except Exception as e:
            return canon_exc(e)
        return 'ok:' + ''.join('1' if ('border-%s-style' % loc) in c.style else '0' for c in cells)
    if st == 'rec':
        return case.meta['impl']
    if st in ('pos', 'posev'):
        events = (aux[0] if st == 'pos' else case.line).split()
        tex = events_tex(events, case.meta['seed'])
        case.meta['tex'] = tex
        try:
            first = numbering_obs(tex)
            second = numbering_obs(tex)        # a second document in the same process must behave the same
        except Exception as e:
            return 'err:' + type(e).__name__
        return first if first == second else 'unstable: %s THEN %s' % (first, second)
    if st in ('tree', 'table'):
        try:
            de, _ = run_doc(case.meta['tex'])
        except Exception as e:
            return 'err:' + type(e).__name__
        if st == 'tree':
            return 'ok:' + ' '.join(dom_shape(de, []))
        tabs = first_arrays(de)
        return 'ok:' + obs_table(tabs[0]) if tabs else 'no-table'
    raise ValueError(st)


def events_tex(events, seed):
    """spell an invocation sequence (B = \\begin{list}, E = \\end, I0 = \\item, I1 = \\item[label]) with a random mix of the list kinds"""
    rng = _random.Random(seed)
    out, stack = [], []
    for e in events:
        if e == 'B':
            name = rng.choice(['itemize', 'enumerate', 'description', 'enumerate', 'trivlist'])
            stack.append(name)
            out.append('\\begin{%s}' % name + rng.choice(['', '\n', '\n\n']))
        elif e == 'E':
            out.append('\\end{%s}' % (stack.pop() if stack else 'itemize') + rng.choice(['', ' ', '\n\n']))
        else:
            out.append('\\item' + ('[%s]' % rng.choice('STUV') if e == 'I1' else '') + ' ' + rng.choice(LETTERS) + rng.choice(['', ' ', '\n\n' + rng.choice(LETTERS)]))
    return ''.join(out)


def numbering_obs(tex):
    """(counter index, position) of every item in document order, final list depth and list counters"""
    S = _classes()
    Macro, List = S['plasTeX'].Macro, S['List']
    doc = S['plasTeX'].TeXDocument()
    t = S['T'].TeX(doc)
    t.input('\\documentclass{article}\\begin{document}' + tex + '\\end{document}')
    t.parse()
    names = list(List.counters)
    out = []

    def walk(n):
        for c in n.childNodes:
            if c.nodeType == Macro.ELEMENT_NODE:
                if isinstance(c, List.item):
                    out.append('%d.%d' % (names.index(c.counter) if c.counter in names else 4, c.position))
                walk(c)
                if c.attributes:
                    for v in c.attributes.values():
                        if hasattr(v, 'childNodes'):
                            walk(v)
    walk(doc)
    return 'ok:%s | d=%d c=%s' % (' '.join(out), doc.userdata.get('list-depth', 0), ','.join(str(doc.context.counters[n].value) for n in names))


def gen_forest(rng, depth=0, maxdepth=4):
    """words of a forest of nested lists (Spec.ListNumbers): lists ::= ('[' items ']')*, items ::= (('i0'|'i1') lists)*"""
    out = []
    for _ in range(rng.randint(1, 2) if depth == 0 else (1 if rng.random() < 0.8 else 2)):
        out.append('[')
        for _ in range(rng.randint(0, 4)):
            out.append('i1' if rng.random() < 0.2 else 'i0')
            if depth + 1 < maxdepth and rng.random() < 0.35:
                out += gen_forest(rng, depth + 1, maxdepth)
        out.append(']')
    return out


def gen_events(rng):
    """invocation sequences that are not forests of depth <= 4: unclosed lists, a fifth and sixth level
    (\\item is a macro local to the list environments: outside any list it is not invoked)"""
    out, depth = [], 0
    for _ in range(rng.randint(1, 14)):
        r = rng.random()
        if r < 0.3 and depth < 6:
            out.append('B'); depth += 1
        elif r < 0.5 and depth > 0:
            out.append('E'); depth -= 1
        elif depth > 0:
            out.append('I1' if rng.random() < 0.2 else 'I0')
    if rng.random() < 0.6:
        out += ['E'] * depth
    return out


def judge(o):
    st = o.case.stream
    if st == 'rec' and o.case.meta and o.case.meta.get('expect'):
        # a recorded stream of a well-formed generated document is inside the property's domain: the expected tree is the
        # generator's own (so a model/implementation difference on it is an alarm, not an out-of-domain note)
        o.spec = o.case.meta['expect']
    if o.impl == 'skip':
        o.corr_ok = o.prop_ok = True
        return
    o.corr_ok = (o.impl == o.model)
    o.prop_ok = (o.spec in ('-', '') or o.impl == o.spec)
    if st == 'table' and len(o.aux) > 2 and o.aux[2].startswith('ok:') and not o.impl.startswith('err'):
        # Spec.specTable of the rows as written (theorem table_pipeline) is defined for every placement of rule commands,
        # also outside the rule normal form of denTable: the real finished rows must equal it
        if o.spec in ('-', ''):
            o.spec = o.aux[2]
        if o.impl != o.aux[2]:
            o.prop_ok = False
            o.note = 'finished rows differ from specTable of the written rows: ' + o.aux[2][:200]
    if st == 'cspec' and o.spec not in ('-', ''):
        # colspec_count: the number of columns is the declared count
        if o.impl.startswith('ok:') and len(o.aux) > 2 and len(o.impl[3:].split()) != int(o.aux[2]):
            o.prop_ok = False
            o.note = 'column count %d, declared %s' % (len(o.impl[3:].split()), o.aux[2])


def nontrivial(o):
    if o.spec in ('-', '') or o.impl.startswith('err'):
        return False
    st = o.case.stream
    if st == 'cspec': return any(w[0] in '*|p@' for w in o.case.line.split())
    if st == 'bcmd': return len(o.case.line.split()) > 5
    if st == 'tree': return o.case.line.count('it') >= 2 or o.case.line.count('&') >= 1
    if st == 'table': return '&' in o.case.line or 'nl' in o.case.line
    if st == 'pos': return o.case.line.count('i') >= 2
    if st == 'rec': return o.case.line.count(':i') >= 2 or o.case.line.count(':&') >= 1
    return False


# ---------------------------------------------------------------- generation

def tree_case(b, stream='tree'):
    return Case(stream, '2 ' + ' '.join(block_words(b)), {'tex': block_tex(b), 'ast': b})


def table_case(t):
    return Case('table', ' '.join(cspec_words(t[2])) + ' ; ' + ' '.join(block_words(t)), {'tex': block_tex(t), 'ast': t})


MALFORM = ['drop_end', 'drop_brace', 'extra_amp', 'extra_nl', 'stray_rule', 'item_outside', 'trailing_rule', 'decl_in_item', 'vline']


def malform(rng, tex):
    kind = rng.choice(MALFORM)
    import re
    if kind == 'drop_end':
        ends = [m for m in re.finditer(r'\\end\{(itemize|enumerate|description|trivlist|list|center|quote)\}', tex)]
        if ends:
            m = rng.choice(ends)
            return tex[:m.start()] + tex[m.end():]
    if kind == 'drop_brace':
        idx = [i for i, c in enumerate(tex) if c == '}' and (i + 1 == len(tex) or tex[i + 1] not in '{[') and tex[max(0, i - 12):i].count('\\') == 0 and tex[max(0, i - 4):i].count('{') == 0]
        if idx:
            i = rng.choice(idx)
            return tex[:i] + tex[i + 1:]
    pos = [m.start() for m in re.finditer(r'(?<=[a-z])(?=[a-z])', tex) if '\\' not in tex[max(0, m.start() - 14):m.start()] and '{' not in tex[max(0, m.start() - 3):m.start()]]
    if not pos:
        return tex
    i = rng.choice(pos)
    ins = {'extra_amp': '&', 'extra_nl': '\\\\', 'stray_rule': '\\hline ', 'item_outside': '\\item ', 'trailing_rule': ' \\hline\\\\',
           'decl_in_item': '\\bfseries ', 'vline': '\\vline '}.get(kind, '')
    in_tab = tex.rfind('\\begin{tabular', 0, i) > tex.rfind('\\end{tabular', 0, i)
    if kind in ('extra_amp', 'extra_nl', 'stray_rule', 'trailing_rule', 'vline') and not in_tab:
        return tex
    return tex[:i] + ins + tex[i:]


def rec_case(tex, origin='gen'):
    """run the real document with the recording shim; the case carries the recorded stream"""
    try:
        de, rec = run_doc(tex, record=True)
    except RecursionError:
        return None
    except Exception as e:
        return None
    try:
        words, started = [], False
        for t, d in rec:
            code = tokcode(t)
            if code == 'Be0':
                started = True
            if started:
                # the document environment has level DOCUMENT_LEVEL: its digest makes no context-depth test (depth 0 here)
                words.append('%d:%s' % (0 if code == 'Be0' else d, code))
        shape = 'ok:' + ' '.join(['Be0('] + dom_shape(de, []) + [')'])
    except RuntimeError:
        return None
    return Case('rec', ' '.join(words), {'tex': tex, 'impl': shape}, origin)


def gen_ctoks(rng):
    if rng.random() < 0.25:
        # (a column letter or `> @ *` whose argument is missing at the very end reads past the colspec: that is
        #  tex.readArgument at the end of its input, C05's subject, not generated here)
        return rng.choice([['124'], ['60', 'bg', '120', 'eg', '108'], ['124', '124'],
                           ['sp', '108', 'sp', '124', 'sp', '99'], ['108', '112', 'sp', 'bg', '50', 'eg'], ['42', '50', '108', '114'],
                           ['108', '60', 'bg', '120', 'eg', '124']])
    alphabet = ['108', '99', '114', '124', '124', 'sp', '112 bg 50 eg', '64 bg eg', '64 bg 58 eg', '62 bg 120 eg', '60 bg 120 eg',
                '42 bg 50 eg bg 108 124 eg', '42 bg 51 eg bg 99 eg', '88', '100 bg 46 eg', '42 bg 50 eg bg 42 bg 50 eg bg 108 eg 124 eg']
    out = []
    for _ in range(rng.randint(1, 6)):
        out += rng.choice(alphabet).split()
    return out


def generate(ctx):
    rng = ctx.rng
    q = ctx.tier == 'quick'
    for _ in range(1200 if q else 12000):
        spec = gen_cspec(rng, rng.randint(1, 6))
        yield Case('cspec', ' '.join(cspec_words(spec)), {'ast': spec})
    for _ in range(800 if q else 6000):
        yield Case('ctoks', ' '.join(gen_ctoks(rng)), None)
    for _ in range(1500 if q else 15000):
        n = rng.randint(1, 6)
        spans = [rng.choice([0, 0, 1, 2, 3, 0]) for _ in range(n)]
        total = sum(s or 1 for s in spans)
        if rng.random() < 0.25:
            a = b = 0
        else:
            a = rng.randint(1, total + 1)
            b = rng.randint(a, total + 1) if rng.random() < 0.9 else rng.randint(1, total)
        yield Case('bcmd', '%d %d %s 1 %s' % (a, b, rng.choice(['top', 'bottom']), ' '.join(map(str, spans))), None)
    for _ in range(250 if q else 4000):
        yield Case('pos', ' '.join(gen_forest(rng)), {'seed': rng.randrange(1 << 30)})
    for _ in range(120 if q else 2000):
        yield Case('posev', ' '.join(gen_events(rng)), {'seed': rng.randrange(1 << 30)})
    g = Gen(rng, itemdecl=True)
    for _ in range(300 if q else 2500):
        yield tree_case(g.list())
    for _ in range(120 if q else 1200):
        yield tree_case(g.table())
    for _ in range(40 if q else 500):
        yield tree_case(g.math_array())
    for _ in range(500 if q else 5000):
        yield table_case(g.table())
    n_rec = 400 if q else 4000
    made = 0
    g = Gen(rng, decl=True)
    while made < n_rec:
        b = g.list() if rng.random() < 0.45 else g.table()
        tex = block_tex(b)
        expect = 'ok:' + ' '.join(['Be0('] + shape_of(kept_rows(b)) + [')'])
        if rng.random() < 0.15:
            tex = malform(rng, tex)
            expect = None
            ctx.count('rec:malformed')
        c = rec_case(tex)
        made += 1
        if c is None:
            ctx.count('rec:impl-error-or-unmodelled')
            continue
        if expect:
            c.meta['expect'] = expect       # well-formed generated document: the generator's own tree is the oracle (in domain)
        yield c


D7_TABLE = ['A', 1, [['c', 108], ['c', 108], ['c', 108]],
            [[[['L', 't120']], [['L', 't121']], [['L', 't122']]],
             [[['L', 'cl3-3'], ['L', 'mc2.2.0.0.97']], [['L', 't98']]],
             [[]]]]
D15_TABLE = ['A', 1, [['@', []], ['c', 108], ['|'], ['c', 99]], [[[['L', 't120']], [['L', 't121']]], [[]]]]
# linkCells witness: \multicolumn{2}{c}{a}&\multicolumn{2}{c}{b} under {lcrp{1cm}} (second spanning cell starts at column 3, not at its index 1)
LINK_TABLE = ['A', 1, [['c', 108], ['c', 99], ['c', 114], ['p', 112, [49, 99, 109]]],
              [[[['L', 'mc2.2.0.0.97']], [['L', 'mc2.2.0.0.98']]], [[['L', 't120']], [['L', 't121']], [['L', 't122']], [['L', 't119']]]]]


def corpus():
    cs = [table_case(D7_TABLE), table_case(D15_TABLE), table_case(LINK_TABLE),
          Case('bcmd', '3 3 top 1 2 0', None),
          Case('cspec', '@: c108 | c99', {'ast': D15_TABLE[2]}),
          Case('ctoks', '64 bg eg 108 124 99', None),
          tree_case(['I', 3, 's', [[84, 's', [['L', 't97'], ['L', 'P'], ['L', 't98'], ['I', 1, '', [[0, '', [['L', 't120']]], [0, '', []]]], ['L', 't99']]], [85, 's', []]]]),
          # blank line / \\par between \\begin{..} and the first \\item, top level and nested in a multi-paragraph item
          tree_case(['I', 2, 'sP', [[0, '', [['L', 't97'], ['L', 'P'], ['L', 't98'], ['I', 1, 'P', [[0, '', [['L', 't120']]], [0, 'P', [['L', 't121']]]]], ['L', 't99']]], [0, '', [['L', 't98']]]]]),
          tree_case(['I', 3, 'Q', [[84, 's', [['L', 't97']]], [85, 'sQ', [['L', 't98']]]]])]
    for c in cs:
        c.origin = 'corpus'
    r = rec_case('\\begin{tabular}{ll}\\bfseries a & b \\\\ \\hline c & $d$ \\\\ \\hline \\end{tabular}', 'corpus')
    r2 = rec_case(block_tex(ITEM_DECL_AST), 'corpus')        # former known finding item-absorbed-by-declaration
    if r2:
        r2.meta['expect'] = 'ok:' + ' '.join(['Be0('] + shape_of(ITEM_DECL_AST) + [')'])
    return cs + [x for x in (r, r2) if x]


# ---------------------------------------------------------------- shrink / search

def _shrinks(b):
    """smaller variants of a block tree"""
    k = b[0]
    if k == 'A':
        rows = b[3]
        for i in range(len(rows)):
            if len(rows) > 1:
                yield ['A', b[1], b[2], rows[:i] + rows[i + 1:]]
        for i, row in enumerate(rows):
            for j in range(len(row)):
                if len(row) > 1:
                    yield ['A', b[1], b[2], rows[:i] + [row[:j] + row[j + 1:]] + rows[i + 1:]]
                cell = row[j]
                for x in range(len(cell)):
                    yield ['A', b[1], b[2], rows[:i] + [row[:j] + [cell[:x] + cell[x + 1:]] + row[j + 1:]] + rows[i + 1:]]
        spec = b[2]
        for i in range(len(spec)):
            if len(spec) > 1:
                yield ['A', b[1], spec[:i] + spec[i + 1:], rows]
    if k == 'I':
        items = b[3]
        for i in range(len(items)):
            if len(items) > 1:
                yield ['I', b[1], b[2], items[:i] + items[i + 1:]]
            t, n, body = items[i]
            for x in range(len(body)):
                yield ['I', b[1], b[2], items[:i] + [[t, n, body[:x] + body[x + 1:]]] + items[i + 1:]]
                if body[x][0] in ('I', 'A'):
                    yield body[x]


def shrink(ctx, o, evaluate):
    if o.case.stream not in ('tree', 'table') or not o.case.meta or 'ast' not in o.case.meta:
        return o
    best, improved, rounds = o, True, 0
    while improved and rounds < 40:
        improved, rounds = False, rounds + 1
        cands = []
        for v in _shrinks(best.case.meta['ast']):
            try:
                cands.append(table_case(v) if (best.case.stream == 'table' and v[0] == 'A') else tree_case(v))
            except Exception:
                pass
        for r in evaluate(cands[:60]):
            if not r.prop_ok and not r.impl.startswith('err'):
                best, improved = r, True
                break
    return best


def search(ctx, evaluate, corr_bad):
    rng = _random.Random(ctx.seed + 104729)
    g = Gen(rng, itemdecl=True)
    cases = []
    for _ in range(3000):
        spec = gen_cspec(rng, rng.randint(1, 6))
        cases.append(Case('cspec', ' '.join(cspec_words(spec)), {'ast': spec}, 'search'))
    for _ in range(4000):
        n = rng.randint(1, 6)
        spans = [rng.choice([0, 1, 2, 3]) for _ in range(n)]
        total = sum(s or 1 for s in spans)
        a = rng.randint(1, total)
        cases.append(Case('bcmd', '%d %d top 1 %s' % (a, rng.randint(a, total), ' '.join(map(str, spans))), None, 'search'))
    for _ in range(1500):
        cases.append(table_case(g.table()))
    for _ in range(700):
        cases.append(tree_case(g.list()))
    for c in cases:
        c.origin = 'search'
    bad = [o for o in evaluate(cases) if not o.prop_ok]
    if bad:
        o = shrink(ctx, bad[0], evaluate)
        return Violation('implementation differs from the property oracle (found by search)', {'kind': 'failing-input', 'outcome': o.to_json()})
    return None


# ---------------------------------------------------------------- document level: doc10

# former known finding item-absorbed-by-declaration (fixed): \begin{itemize}\item \bfseries x \item y\end{itemize}
ITEM_DECL_AST = ['I', 1, '', [[0, '', [['D', 5, [['L', 't120'], ['L', 's']]]]], [0, '', [['L', 't121']]]]]


def extra_checks(ctx):
    rng = _random.Random(ctx.seed * 13 + 5)
    g = Gen(rng, decl=True)
    n = 600 if ctx.tier == 'quick' else 6000
    viol, samples, distinct = [], [], set()
    witnesses = [ITEM_DECL_AST,
                 ['I', 2, 'P', [[0, '', [['L', 't97'], ['D', 6, [['L', 't120'], ['I', 1, '', [[0, '', [['L', 't121']]], [0, '', [['D', 5, [['L', 't122']]]]]]]]]]],
                                [0, '', [['L', 't98']]]]]]
    for i in range(-len(witnesses), n):
        ast = witnesses[i] if i < 0 else g.math_array() if i % 9 == 0 else g.list() if i % 2 else g.table()
        why, r = check_doc_pair(ast)
        tex = block_tex(ast)
        if tex.count('\\item') >= 2 or tex.count('&') >= 1:
            distinct.add(tex)
        if i < 2:
            samples.append({'document': tex, 'observed': r})
        if why:
            viol.append(Violation('document level: ' + why, {'kind': 'failing-input', 'extra': {'ast': ast, 'document': tex}, 'observed': r, 'why': why}))
            break
    return viol, {'evaluations': n, 'distinct_nontrivial': len(distinct), 'samples': samples, 'stream': 'doc10'}


def kept_rows(ast):
    """a tree with the rule-only rows of every table removed (what remains after Array.applyBorders)"""
    k = ast[0]
    if k == 'L': return ast
    if k == 'G': return ['G', [kept_rows(b) for b in ast[1]]]
    if k in ('V', 'D'): return [k, ast[1], [kept_rows(b) for b in ast[2]]]
    if k == 'I': return ['I', ast[1], ast[2], [[t, n, [kept_rows(b) for b in body]] for t, n, body in ast[3]]]
    rows = [[[kept_rows(b) for b in c] for c in r] for r in ast[3]
            if not all(all(is_blank(b) or is_rule(b) or (b[0] == 'L' and b[1] == 'vl') for b in c) for c in r)]
    return ['A', ast[1], ast[2], rows]


def check_doc_pair(ast):
    tex = block_tex(ast)
    try:
        de, _ = run_doc(tex)
    except Exception as e:
        return 'exception %s' % type(e).__name__, repr(e)[:200]
    shape = ' '.join(dom_shape(de, []))
    exp = ' '.join(shape_of(kept_rows(ast)))
    if shape != exp:
        return 'items/rows/cells differ from what is written', {'expected': exp, 'observed': shape}
    if ast[0] == 'A':
        want = expect_table(ast)
        if want is not None:
            tab = first_arrays(de)[0]
            got = obs_table(tab)
            if got != want:
                return 'spans/borders/styles differ', {'expected': want, 'observed': got}
            ncols = len(cspec_cols(ast[2]))
            sums = [sum(cell_span(c)[0] for c in r) for r in kept_rows(ast)[3]]
            if sums and max(sums) == ncols and tab.numCols != ncols:
                return 'numCols differs from the declared column count', {'expected': ncols, 'observed': tab.numCols}
    return None, shape


def replay_extra(ctx, extra):
    why, r = check_doc_pair(extra['ast'])
    print('replay doc10:', why or 'holds', json.dumps(r)[:600])
    return bool(why)
