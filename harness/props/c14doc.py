"""Document-level oracle of C14 (stream doc14): generated LaTeX documents rendered by the real renderers;
every internal href must name a produced file and (with a fragment) an element with that id in that file;
ids unique per file; a resolved \\ref shows the number of its target; with a toc every file is reachable.

The oracle is written from the property text and LaTeX's numbering rules (article/book), not from the code.
"""
import os, re, sys, shutil, tempfile, logging, random
from html.parser import HTMLParser

BASE_URL = 'http://example.org/out'
THEMES = [('HTML5', 'default'), ('HTML5', 'minimal'), ('XHTML', 'default')]

# ---------------------------------------------------------------- document generator (Spec side)

ROMAN = ['', 'I', 'II', 'III', 'IV', 'V', 'VI', 'VII', 'VIII', 'IX', 'X']
WORDS = ['alpha', 'beta', 'gamma', 'delta', 'omega', 'kappa', 'sigma', 'lambda', 'theta', 'zeta']
# index keys: every group of the index (letters, digits/symbols, underscore), display forms (key@display),
# page formats (|textbf) and cross references (|see{..})
INDEXKEYS = WORDS + ['Alpha', 'Omega', '2nd', '42', '\\_\\_init\\_\\_', '\\_private', '\\#hash', '\\$var',
                     'zeta@\\textbf{zeta}', 'beta|textbf', 'gamma|see{alpha}', '\\_under@\\texttt{\\_under}',
                     # letters outside ASCII, next to plain keys with the same base letter (they share an index group)
                     'Eccles cake', '\u00c9clair', '\u00e9mile', 'Apfel', '\u00c4rger', '\u00e4hnlich', 'Ufer', '\u00fcber',
                     '\u00d1and\u00fa', 'nadir', '\u00d8rsted', 'omega@\u03a9mega', '\u03a9']
# labels that differ only in characters that are not allowed in file names, or that equal names the
# filename template hands out by itself
SEPS = [':', '.', '-', ';']
RESERVED = ['index', 'sect0001', 'sect0002', 'paper', 'start']
FILENAMES = [None, None, None, None, 'paper', 'paper.html', '[$id, sect$num(4)]', 'index [$title, sect$num(4)]',
             'start [$id, node$num(3)]', 'index [$id(2), $title, sect$num]']
# contexts an inline construct (index entry, footnote, citation, reference) can stand in: boxes and font commands that
# take their content as argument, environments, list items (directly after \item, after text, in the optional label),
# table cells.  Blanks are discarded in several of these positions; the construct must survive.
W_INLINE = ['\\textbf{%s}', '\\emph{%s}', '\\mbox{%s}', '\\fbox{%s}', '\\centerline{%s}', '\\parbox{6cm}{%s}',
            '\\begin{center}%s\\end{center}', '\\begin{quote}%s\\end{quote}', '\\begin{minipage}{6cm}%s\\end{minipage}',
            '\\begin{itemize}\\item %s \\item other\\end{itemize}', '\\begin{itemize}\\item word %s\\end{itemize}',
            '\\begin{enumerate}\\item first \\item%s\\end{enumerate}', '\\begin{description}\\item[%s] body\\end{description}',
            '\\begin{tabular}{ll}%s & b \\\\ c & d\\end{tabular}', '\\begin{tabular}{ll}a & %s \\\\ c & d\\end{tabular}']
W_INDEX_ONLY = ['\\begin{itemize}%s\\item text\\end{itemize}', '\\begin{enumerate}%s \\item text \\item more\\end{enumerate}']
# contexts for block constructs (equations, theorems, lists)
W_BLOCK = ['\\begin{center}%s\\end{center}', '\\begin{quote}%s\\end{quote}', '\\begin{minipage}{8cm}%s\\end{minipage}',
           '\\begin{itemize}\\item %s\\end{itemize}', '\\begin{itemize}\\item text %s \\item more\\end{itemize}']
# ways of setting the caption (with its label) of a float
W_CAPTION = ['%s', '%s', '\\centering %s', '\\parbox{8cm}{%s}', '\\centerline{\\parbox{8cm}{%s}}', '\\begin{center}%s\\end{center}',
             '\\begin{minipage}{6cm}%s\\end{minipage}', '\\fbox{\\parbox{6cm}{%s}}']
LEVELS = {'article': ['section', 'subsection', 'subsubsection'],
          'book': ['chapter', 'section', 'subsection']}
LEVELNUM = {'part': -1, 'chapter': 0, 'section': 1, 'subsection': 2, 'subsubsection': 3}


class DocGen:
    """Builds a document description: a tree of sections with body items.  `expected` maps every label to
    the number LaTeX prints for it (article/book counter rules)."""

    def __init__(self, rng, size=None):
        self.rng = rng
        self.cls = rng.choice(['article', 'article', 'book'])
        self.size = size if size is not None else rng.choice([1, 2, 2, 3])
        self.labels = []          # label names in document order
        self.expected = {}        # label -> printed number
        self.kind = {}            # label -> kind
        self.nlab = 0
        self.use_index = rng.random() < 0.6
        # how the index is written: \printindex, or the theindex environment makeindex generates (pasted / \input
        # from the .ind file), or both; and whether it comes before or after the bibliography
        self.index_form = rng.choice(['print', 'print', 'print', 'env', 'env'])      # (two indexes in one file repeat the group ids A, B, ...: not generated)
        self.index_first = rng.random() < 0.3
        self.use_bib = rng.random() < 0.5
        self.bibkeys = ['key%s' % c for c in 'abc'[:rng.randint(1, 3)]] if self.use_bib else []
        self.toc_cmd = rng.random() < 0.5
        self.sections = []        # list of dicts
        self.collide = rng.random() < 0.3     # section labels that collide as file names
        self.used = set()

    def newlabel(self, kind, number):
        self.nlab += 1
        style = self.rng.random()
        base = '%s%d' % (kind[:3], self.nlab)
        if style < 0.15: base = kind[:3] + ':' + 'x%d' % self.nlab
        elif style < 0.25: base = kind[:3] + '-' + 'x%d' % self.nlab
        elif style < 0.32 and kind != 'equation': base = kind[:3] + '_' + 'x%d' % self.nlab   # '_' in a math-mode label: see ASSUMPTIONS
        elif style < 0.38: base = kind[:3] + '.' + 'x%d' % self.nlab
        if self.collide and kind in ('section', 'subsection', 'subsubsection', 'chapter') and self.rng.random() < 0.7:
            cands = [st + sep + 'setup' for st in ('sec', 'part') for sep in SEPS] + RESERVED
            cands = [c for c in cands if c not in self.used]
            if cands:
                base = self.rng.choice(cands)
        self.used.add(base)
        self.labels.append(base)
        self.expected[base] = number
        self.kind[base] = kind
        return base

    def build(self):
        rng = self.rng
        names = LEVELS[self.cls]
        cnt = {'eq': 0, 'fig': 0, 'tab': 0, 'thm': 0}
        secs = []
        top = rng.randint(1, 2 + self.size)
        c = [0, 0, 0]

        def body(prefix):
            items = []
            for _ in range(rng.randint(0, 2 + self.size)):
                r = rng.random()
                if r < 0.22:
                    items.append(('text',))
                elif r < 0.36:
                    items.append(('foot',))
                elif r < 0.48 and self.use_index:
                    items.append(('index', rng.choice(INDEXKEYS), rng.choice(WORDS) if rng.random() < 0.3 else None))
                elif r < 0.58 and self.bibkeys:
                    items.append(('cite', rng.choice(self.bibkeys)))
                elif r < 0.68:
                    cnt['eq'] += 1
                    items.append(('eq', self.newlabel('equation', prefix + str(cnt['eq']))))
                elif r < 0.76:
                    cnt['fig'] += 1
                    items.append(('fig', self.newlabel('figure', prefix + str(cnt['fig']))))
                elif r < 0.82:
                    cnt['tab'] += 1
                    items.append(('tab', self.newlabel('table', prefix + str(cnt['tab']))))
                elif r < 0.88:
                    cnt['thm'] += 1
                    items.append(('thm', self.newlabel('theorem', str(cnt['thm']))))
                elif r < 0.94:
                    n = rng.randint(1, 3)
                    items.append(('enum', [self.newlabel('item', str(i + 1)) if rng.random() < 0.6 else None for i in range(n)]))
                else:
                    items.append(('ref',))
                if rng.random() < 0.5:
                    items.append(('ref',))
            return items

        def mk(depth, number, prefix):
            name = names[depth]
            lab = self.newlabel(name, number) if rng.random() < 0.8 else None
            node = {'name': name, 'number': number, 'label': lab, 'title': ' '.join(rng.choice(WORDS).capitalize() for _ in range(rng.randint(1, 2))),
                    'body': body(prefix), 'kids': []}
            if depth + 1 < len(names):
                nk = rng.choice([0, 0, 1, 2, 3]) if depth > 0 else rng.choice([0, 1, 2, 3])
                for k in range(nk):
                    node['kids'].append(mk(depth + 1, '%s.%d' % (number, k + 1), prefix))
            return node

        self.pre = body('') if self.cls == 'article' and rng.random() < 0.4 else []
        for t in range(top):
            if self.cls == 'book':
                cnt['eq'] = cnt['fig'] = cnt['tab'] = 0
                secs.append(mk(0, str(t + 1), '%d.' % (t + 1)))
            else:
                secs.append(mk(0, str(t + 1), ''))
        self.sections = secs
        return self

    # ------------------------------------------------------------ LaTeX spelling
    def latex(self):
        rng = random.Random(self.rng.random())
        labels = list(self.labels)
        out = ['\\documentclass{%s}' % self.cls]
        if self.use_index:
            out.append('\\usepackage{makeidx}\\makeindex')
        out.append('\\newtheorem{thm}{Theorem}')
        out.append('\\begin{document}')
        if self.toc_cmd:
            out.append('\\tableofcontents')
        nref = [0]

        def ref():
            if not labels:
                return 'none'
            l = rng.choice(labels)
            nref[0] += 1
            if rng.random() < 0.15:
                return 'P%dP%s Q \\pageref{%s} Z' % (nref[0], '', l)
            return 'R%dR \\ref{%s} Z' % (nref[0], l)

        self.reforder = []

        def inline(snippet, index=False):
            """put an inline construct into up to two nested contexts"""
            for depth in range(2):
                if rng.random() < (0.6 if index and depth == 0 else 0.35):
                    ws = W_INLINE + (W_INDEX_ONLY if index else [])
                    w = rng.choice(ws)
                    if not snippet.startswith('\\'):
                        w = w.replace('\\item%s', '\\item %s')      # a control word needs its delimiter before letters
                    snippet = w % snippet
                    index = False
            return snippet

        def block(snippet):
            return rng.choice(W_BLOCK) % snippet if rng.random() < 0.25 else snippet

        def items(its):
            for it in its:
                k = it[0]
                if k == 'text':
                    out.append('Some %s text.' % rng.choice(WORDS))
                elif k == 'foot':
                    out.append(inline(('Word\\footnote{note %s} more.' if rng.random() < 0.75 else '\\footnote{note %s}') % rng.choice(WORDS)))
                elif k == 'index':
                    key = it[1]
                    if it[2] is not None:      # sub-entry: goes before a page format / see
                        head, bar, fmt = key.partition('|')
                        key = head + '!' + it[2] + bar + fmt
                    shape = rng.random()
                    if shape < 0.55:
                        out.append(inline('term\\index{%s}' % key))               # inside running text
                    elif shape < 0.85:
                        out.append(inline('\\index{%s}' % key, index=True))       # the sole content of its paragraph / context
                    else:                                                         # several entries and nothing else
                        out.append('\\index{%s}\n\\index{%s}' % (key, rng.choice(WORDS)))
                elif k == 'cite':
                    out.append(inline(('see \\cite{%s}.' if rng.random() < 0.75 else '\\cite{%s}') % it[1]))
                elif k == 'eq':
                    out.append(block('\\begin{equation}\\label{%s} x=%d \\end{equation}' % (it[1], rng.randint(1, 9))))
                elif k == 'fig':
                    out.append('\\begin{figure}Picture %s\\end{figure}' % (rng.choice(W_CAPTION) % ('\\caption{Cap %s}\\label{%s}' % (rng.choice(WORDS), it[1]))))
                elif k == 'tab':
                    out.append('\\begin{table}%s\\begin{tabular}{ll}a&b\\\\c&d\\end{tabular}\\end{table}' % (rng.choice(W_CAPTION) % ('\\caption{Tab %s}\\label{%s}' % (rng.choice(WORDS), it[1]))))
                elif k == 'thm':
                    out.append(block('\\begin{thm}\\label{%s} Claim %s.\\end{thm}' % (it[1], rng.choice(WORDS))))
                elif k == 'enum':
                    out.append('\\begin{enumerate}' + ' '.join('\\item%s entry %s' % ('\\label{%s}' % l if l else '', rng.choice(WORDS))
                                                              for l in it[1]) + '\\end{enumerate}')
                elif k == 'ref':
                    if labels:
                        l = rng.choice(labels)
                        nref[0] += 1
                        self.reforder.append(l)
                        if rng.random() < 0.15:
                            out.append(inline('PG%dPG \\pageref{%s} ZZ' % (nref[0], l)))
                        else:
                            out.append(inline('RF%dRF \\ref{%s} ZZ' % (nref[0], l)))
                out.append('')

        def sec(n):
            out.append('\\%s{%s}%s' % (n['name'], n['title'], '\\label{%s}' % n['label'] if n['label'] else ''))
            items(n['body'])
            for k in n['kids']:
                sec(k)

        items(self.pre)
        for s in self.sections:
            sec(s)
        back = []
        if self.bibkeys:
            back.append('\\begin{thebibliography}{9}' + ' '.join('\\bibitem{%s} Author %s' % (k, k) for k in self.bibkeys) +
                        '\\end{thebibliography}')
        if self.use_index:
            env = '\\begin{theindex} ' + ' '.join('\\item %s, %d' % (rng.choice(WORDS), rng.randint(1, 9)) for _ in range(rng.randint(1, 3))) + ' \\end{theindex}'
            idx = {'print': ['\\printindex'], 'env': [env], 'both': ['\\printindex', env]}[self.index_form]
            back = idx + back if self.index_first else back + idx
        out.extend(back)
        out.append('\\end{document}')
        return '\n'.join(out)


def gen_document(rng, size=None):
    g = DocGen(rng, size).build()
    src = g.latex()
    return {'source': src, 'expected': dict(g.expected), 'refs': list(g.reforder), 'cls': g.cls}


def gen_config(rng):
    rend, theme = rng.choice(THEMES)
    return {'renderer': rend, 'theme': theme,
            'split': rng.choice([-10, -1, 0, 1, 1, 2, 2, 3, 4]),
            'tocdepth': rng.choice([0, 1, 2, 3, 3, 5]),
            'nonfiles': rng.random() < 0.4,
            'baseurl': rng.choice(['', '', BASE_URL, BASE_URL + '/']),
            'filename': rng.choice(FILENAMES)}


# ---------------------------------------------------------------- rendering with the real code

def render(source, cfg):
    """returns {filename: content} of every produced .html file (or raises)"""
    logging.disable(logging.CRITICAL)
    from plasTeX.TeX import TeX, TeXDocument
    from plasTeX.Config import defaultConfig
    import importlib
    config = defaultConfig()
    if cfg['renderer'] == 'HTML5':
        from plasTeX.Renderers.HTML5.Config import addConfig
        addConfig(config)
    config['files']['split-level'] = cfg['split']
    if cfg.get('filename'):
        config['files']['filename'] = cfg['filename']
    config['document']['toc-depth'] = cfg['tocdepth']
    config['document']['toc-non-files'] = cfg['nonfiles']
    config['document']['base-url'] = cfg['baseurl']
    config['document']['sec-num-depth'] = 3   # LaTeX's secnumdepth of the article class: everything the generator labels is numbered
    config['general']['theme'] = cfg['theme']
    config['general']['copy-theme-extras'] = False
    config['images']['imager'] = 'none'
    config['images']['vector-imager'] = 'none'
    config['images']['enabled'] = False
    doc = TeXDocument(config=config)
    tex = TeX(doc)
    tex.input(source)
    d = tempfile.mkdtemp(prefix='c14-')
    old = os.getcwd()
    try:
        os.chdir(d)
        doc.userdata['working-dir'] = d
        doc.userdata['jobname'] = 'job'
        tex.parse()
        Renderer = importlib.import_module('plasTeX.Renderers.' + cfg['renderer']).Renderer
        rend = Renderer()
        rend.render(doc)
        files = {}
        docs = doc.getElementsByTagName('document')
        start = rend.files.get(docs[0]) if docs else None
        for root, _, fs in os.walk(d):
            for f in fs:
                if f.endswith('.html'):
                    p = os.path.join(root, f)
                    files[os.path.relpath(p, d)] = open(p, encoding='utf-8', errors='replace').read()
        render.start = start
        return files
    finally:
        os.chdir(old)
        shutil.rmtree(d, ignore_errors=True)


# ---------------------------------------------------------------- output analysis (html.parser)

class Page(HTMLParser):
    def __init__(self):
        HTMLParser.__init__(self, convert_charrefs=True)
        self.ids = []          # every identifier occurrence (id of any element, name of <a>)
        self.links = []        # (href, kind)  kind = 'a' | 'link:<rel>'
        self.flat = []         # text with \x01href\x02text\x03 around <a>
        self.in_a = 0

    def handle_starttag(self, tag, attrs):
        a = dict(attrs)
        ident = set()
        if a.get('id') is not None:
            ident.add(a['id'])
        if tag == 'a' and a.get('name') is not None:
            ident.add(a['name'])
        self.ids.extend(sorted(ident))
        if tag == 'a' and a.get('href') is not None:
            self.links.append((a['href'], 'a'))
            self.flat.append('\x01%s\x02' % a['href'])
            self.in_a += 1
        elif tag == 'link' and a.get('href') is not None:
            rel = (a.get('rel') or '').lower()
            if rel not in ('stylesheet', 'icon', 'shortcut icon'):
                self.links.append((a['href'], 'link:' + rel))

    def handle_startendtag(self, tag, attrs):
        self.handle_starttag(tag, attrs)
        if tag == 'a':
            self.handle_endtag(tag)

    def handle_endtag(self, tag):
        if tag == 'a' and self.in_a:
            self.in_a -= 1
            self.flat.append('\x03')

    def handle_data(self, data):
        self.flat.append(data)


def split_href(href, baseurl):
    """-> (internal?, file part, fragment or None)"""
    base = baseurl[:-1] if baseurl.endswith('/') else baseurl
    h = href
    if base and h.startswith(base + '/'):
        h = h[len(base) + 1:]
    if re.match(r'^[a-zA-Z][a-zA-Z0-9+.-]*:', h) or h.startswith('//'):
        return False, None, None
    if '#' in h:
        f, frag = h.split('#', 1)
    else:
        f, frag = h, None
    return True, f, frag


def analyse(files, doc, cfg, start=None):
    """list of problems (strings) of the rendered output against the property text"""
    probs = []
    pages = {}
    for name, content in files.items():
        p = Page()
        p.feed(content)
        p.close()
        pages[name] = p
    # ids unique within each file
    for name, p in sorted(pages.items()):
        seen = set()
        for i in p.ids:
            if i in seen:
                probs.append('duplicate-id: %r occurs twice in %s' % (i, name))
                break
            seen.add(i)
    idsets = {n: set(p.ids) for n, p in pages.items()}
    # every internal link lands
    graph = {n: set() for n in pages}
    for name, p in sorted(pages.items()):
        for href, kind in p.links:
            internal, f, frag = split_href(href, cfg['baseurl'])
            if not internal:
                continue
            target = f if f else name
            target = os.path.normpath(os.path.join(os.path.dirname(name), target)) if f else name
            if target not in pages:
                probs.append('dangling-file: %s has %s href=%r but no file %r was produced' % (name, kind, href, target))
                continue
            if kind == 'a':
                graph[name].add(target)
            if frag is not None and frag != '' and frag not in idsets[target]:
                probs.append('dangling-fragment: %s has %s href=%r but %s has no element with id %r' % (name, kind, href, target, frag))
            if frag == '':
                probs.append('empty-fragment: %s has %s href=%r' % (name, kind, href))
    # a resolved reference shows the number of its target and lands on the labelled element
    flat = {n: ''.join(p.flat) for n, p in pages.items()}
    alltext = '\n'.join(flat[n] for n in sorted(flat))
    for i, lab in enumerate(doc['refs']):
        if lab is None:
            continue
        m = re.search(r'RF%dRF\s*(\x01([^\x02]*)\x02([^\x03]*)\x03|\?\?)?' % (i + 1), alltext)
        mp = re.search(r'PG%dPG\s*(\x01([^\x02]*)\x02([^\x03]*)\x03|\?\?)?' % (i + 1), alltext)
        m = m or mp
        if m is None:
            probs.append('ref-lost: marker of reference %d to %r not in the output' % (i + 1, lab))
            continue
        if m.group(1) is None or m.group(1) == '??':
            probs.append('ref-unresolved: reference %d to the defined label %r is rendered as %r' % (i + 1, lab, m.group(1)))
            continue
        href, text = m.group(2), m.group(3).strip()
        if mp is None and text != doc['expected'][lab]:
            probs.append('ref-number: \\ref{%s} shows %r, the number of its target is %r' % (lab, text, doc['expected'][lab]))
        internal, f, frag = split_href(href, cfg['baseurl'])
        srcs = [n for n in flat if m.group(0) in flat[n]]
        target = f if f else (srcs[0] if srcs else '')
        if internal and target in idsets and lab not in idsets[target]:
            probs.append('ref-target: \\ref{%s} links to %r but %s has no element with id %r' % (lab, href, target, lab))
    # reachability with a table of contents
    start = start or 'index.html'
    if toc_present(doc, cfg, pages) and start in pages:
        seen, todo = {start}, [start]
        while todo:
            x = todo.pop()
            for y in graph[x]:
                if y not in seen:
                    seen.add(y); todo.append(y)
        miss = sorted(set(pages) - seen)
        if miss:
            probs.append('unreachable: with a table of contents, %s cannot be reached from %s' % (miss, start))
    return probs


def cross_links(files, cfg):
    n = 0
    for name, content in files.items():
        p = Page(); p.feed(content); p.close()
        for href, kind in p.links:
            internal, f, frag = split_href(href, cfg['baseurl'])
            if internal and f and f != name and kind == 'a':
                n += 1
    return n


def toc_present(doc, cfg, pages):
    """the configuration asks for a table of contents and the theme has one"""
    return cfg['tocdepth'] >= 1 and cfg['theme'] == 'default' and len(pages) > 1


def check(doc, cfg):
    """-> (problems, summary) ; rendering exceptions are problems too"""
    try:
        files = render(doc['source'], cfg)
    except Exception as e:  # the renderer must not crash on a document of the grammar
        return ['render-error: %s: %s' % (type(e).__name__, str(e)[:200])], {'files': 0}
    probs = analyse(files, doc, cfg, getattr(render, 'start', None))
    return probs, {'files': len(files), 'cross': cross_links(files, cfg)}


if __name__ == '__main__':
    sys.path.insert(0, os.environ.get('VERIF_REPO', '/repo'))
    seed = int(sys.argv[1]) if len(sys.argv) > 1 else 0
    n = int(sys.argv[2]) if len(sys.argv) > 2 else 20
    rng = random.Random(seed)
    import time, collections
    t = time.time()
    hist = collections.Counter()
    for i in range(n):
        doc = gen_document(rng)
        cfg = gen_config(rng)
        probs, s = check(doc, cfg)
        for p in probs:
            hist[p.split(':')[0] + ' ' + cfg['renderer'] + '/' + cfg['theme']] += 1
        if probs and '-v' in sys.argv:
            print(cfg); print(doc['source']); print('\n'.join(probs)); print('-----')
    print(time.time() - t, 's')
    for k, v in sorted(hist.items()):
        print(v, k)
