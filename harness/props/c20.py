"""C20 - Cross-document label data survives a round trip and never blocks processing.

streams (every file the model sees is described by the *shape* of what `pickle.load` returned for the
real bytes; the real bytes travel in `meta` and are what the implementation side works on)
  persist : real `Context.persist(file, r)` with generated `persistentLabels` on a file holding the given bytes;
            observation = exception class or the shape of `pickle.load` of the re-saved file;
            property: no exception, the file loads, the section of r holds every current label as `Macro.persist` specifies
  restore : real `Context.restore(file, r)` in a fresh context; observation = `context.labels` (key -> vars(node));
            property: no exception escapes
  rt      : persist on the given old file, then restore in a fresh context; property: every saved label is back
            with every persisted attribute under the slot a later run reads it from
  hist    : histories over one file: saves under 2-3 renderers, damage in between (truncation / bit flips of the
            file as it is at that moment, foreign pickles, empty, deleted), finally a restore;
            property: the labels of the last undamaged save of that renderer are all back
  xr      : the xr package reading the file: real `\\externaldocument[prefix]{job}[url]`; observation = context.labels;
            property: no exception escapes (every truncation point, bit flips, foreign pickles), nothing invented
  xrrt    : persist, then xr: every saved label is there under prefix+label with its saved record (url option prepended)
  url     : the real `Renderable.url` property (where the saved target location comes from) on ONE node object through 1-3
            successive renders whose file tables / base urls differ; property: the answer in each render is the answer
            that render gives on its own (nothing is carried from one render to the next)
  dirs    : the real `Compile.parse` of a document in a working directory with 0-2 paux directories, each holding .paux
            files of other documents (same base names in several directories, the job's own name among them);
            property: no exception, every label of every file that is not named like the job is restored, nothing else
  raw     : files whose loaded value has no shape in the model (aliasing, exotic keys, surrogates): property only
Every real call happens while another, long-lived context of the same process holds labels of its own (a build script
converting several documents): none of them may appear in what is saved or restored ("the same set": the third driver
field lists the labels that may legitimately be present).
`extra_checks` (document level): two real documents rendered with HTML5/XHTML in one directory; the second one
\\ref's labels of the first; the .paux of the first is damaged in every class of way between runs.
"""
import os, sys, io, base64, json, pickle, logging, tempfile, shutil, random, resource, contextlib, ast, inspect, textwrap
import extract
from framework import Case, Violation, REPO

ID = 'C20'
LEAN_MODULE = 'PlasVerif.Properties.C20'
LEVEL_TEXT = ('Lean 4 theorems over a line-by-line model of Context.persist/restore and Macro.persist/restore with the pickle codec as a '
              'parameter (only law: dec (enc v) = some v): restore_total and persist_total (no exception for ANY previous file content: '
              'missing, undecodable = empty/truncated/bit-flipped, or decodable to a value of any shape), persist_then_loadable (the new file '
              'decodes to a dict whose section holds every current label), roundtrip / restored_attributes / roundtrip_same_set (every saved '
              'label is restored with every persisted attribute, for every previous file content), per_renderer_separation, history_total and '
              'history_roundtrip (any sequence of saves under any renderers with arbitrary damage in between), truncation_harmless, and '
              'labels_survive (the statement in the vocabulary number/title/target), persist_invents_nothing / roundtrip_invents_nothing (the same '
              'set: no label that the run did not save and the old file did not hold), and for the xr package (second reader of the file) '
              'xr_unreadable_is_noop, xrR_roundtrip, xrR_invents_nothing, xr_roundtrip_partial with the kernel-checked counterexample '
              'xr_mixes_renderers_counterexample (known finding), and for the source of the saved target (Renderable.url) target_is_of_this_render, '
              'target_names_a_file_of_this_render, enclosingFile_mem, and for the files another run reads (Compile.parse) parse_total, '
              'parse_restores_every_other_file, parse_invents_nothing. The attribute tables (refAttributes, remap, setters, '
              'read-only names) are regenerated from the live classes on every run; the model is tied to the code by differential execution '
              'on real files: every truncation point of every generated file, random 1-8 bit flips, foreign pickles of every value shape, '
              'empty/missing files and save/damage/restore histories across renderers. Template lookup of the restored node (\\ref -> href) '
              'is carried by the document-level stream only.')
LEVEL_NOTE = ('Trusted: Lean kernel (axioms propext, Classical.choice, Quot.sound only), harness/extract.py + the table prober in '
              'harness/props/c20.py, the correspondence harness and its generators, CPython and pickle (law dec(enc v)=v assumed; shape '
              'of pickle.load results fed to the model). Not modelled: failure of pickle.dump/open (only logged by the code; seen by the '
              'next run as a truncated file), aliasing inside a pickle, hostile pickles, OS-level atomicity.')
TECHNIQUE = 'Lean 4 proof (induction over dict-ordered loops and over histories, codec as a parameter) + regenerated attribute tables + differential correspondence on real files'
TRUSTED = ['pickle: only dec(enc v) = some v is assumed; what pickle.load returns for damaged bytes is observed and fed to the model by shape',
           'Renderable.url / templates reading urloverride, @title, ref of a restored node: document-level stream only']
ASSUMPTIONS = ['pickle.load(pickle.dump(v)) == v for the value shapes written by persist',
               'memory available to pickle.load is bounded (RLIMIT_AS set while the real code reads damaged files), so absurd length fields fail fast',
               'no hostile (code-executing) pickles: only damage to benign files and pickles of plain data are read']
RULE = ('non-trivial = the spec oracle is defined (well-formed label set) with at least one label, or the file decodes to a dict; '
        'distinct = distinct driver request line (all truncation points of one file share one line: they count once)')
EXHAUSTIVE = {'quick': 'every truncation point (all prefixes) of every generated base file, for restore and for persist-then-restore',
              'thorough': 'every truncation point (all prefixes) of every generated base file, for restore and for persist-then-restore'}
CASE_TIMEOUT = 30

logging.disable(logging.CRITICAL)

# ---------------------------------------------------------------- translator

SHAPES = [('str', 'v'), ('int', 5), ('none', None), ('list', [1]), ('dict', {'a': 1}), ('empty', ''), ('zero', 0)]
TRUTHY = {'str', 'int', 'list', 'dict'}
_tables = {}


def _fresh_macro_class():
    import plasTeX
    return type('Macro', (plasTeX.UnrecognizedMacro,), {})


def probe_tables():
    """setattr behaviour of a Macro instance for every attribute name it has (finite domain: dir(instance))"""
    if _tables:
        return _tables
    import plasTeX
    cls = _fresh_macro_class()
    ref = list(plasTeX.Macro.refAttributes)
    if not all(isinstance(x, str) for x in ref):
        raise ValueError('refAttributes is not a list of str')
    # remap: the dict literal of Macro.restore (exact); fallback: behaviour of restore on each attribute
    remap, mode = None, 'exact'
    try:
        tree = ast.parse(textwrap.dedent(inspect.getsource(plasTeX.Macro.restore)))
        for node in ast.walk(tree):
            if isinstance(node, ast.Assign) and len(node.targets) == 1 and isinstance(node.targets[0], ast.Name) \
                    and node.targets[0].id == 'remap' and isinstance(node.value, ast.Dict):
                remap = {ast.literal_eval(k): ast.literal_eval(v) for k, v in zip(node.value.keys, node.value.values)}
        if remap is None or not all(isinstance(k, str) and isinstance(v, str) for k, v in remap.items()):
            remap = None
    except Exception:
        remap = None
    names = sorted(set(dir(cls())) | set(ref) | set((remap or {}).values()) | {'urloverride'})
    setter, delete, readonly, exotic = {}, {}, [], []
    for name in names:
        res = {}
        for tag, v in SHAPES:
            n = cls()
            before = dict(vars(n))
            try:
                setattr(n, name, v)
                after = vars(n)
                ch = [k for k in after if k not in before or after[k] is not before[k]]
                gone = [k for k in before if k not in after]
                res[tag] = ('set', tuple(ch), tuple(gone), len(ch) == 1 and after[ch[0]] is v)
            except Exception as e:
                res[tag] = ('err',)
        kinds = {r[0] for r in res.values()}
        if kinds == {'err'}:
            readonly.append(name)
        elif kinds == {'set'}:
            slots = {r[1] for r in res.values()}
            if len(slots) == 1 and len(next(iter(slots))) == 1 and all(r[3] and not r[2] for r in res.values()):
                slot = next(iter(slots))[0]
                if slot != name:
                    setter[name] = slot
            else:
                exotic.append(name)
        else:
            ok = all(res[t][0] == 'set' and len(res[t][1]) == 1 and res[t][3] for t in TRUTHY) and \
                 all(res[t][0] == 'err' for t, _ in SHAPES if t not in TRUTHY)
            slots = {res[t][1] for t in TRUTHY} if ok else set()
            if ok and len(slots) == 1:
                slot = next(iter(slots))[0]
                # falsy value with the slot present must delete it
                n = cls(); setattr(n, name, 'v'); setattr(n, name, '')
                if slot in vars(n):
                    exotic.append(name)
                else:
                    delete[name] = slot
            else:
                exotic.append(name)
    if remap is None:
        mode = 'probed'
        remap = {}
        for name in ref:
            n = cls(); n.restore({name: 'v'})
            ch = [k for k, v in vars(n).items() if v == 'v']
            direct = delete.get(name, setter.get(name, name))
            if ch and ch[0] != direct:
                remap[name] = ch[0]
    _tables.update(ref=ref, remap=remap, setter=setter, delete=delete, readonly=readonly, exotic=exotic, mode=mode)
    return _tables


def gen_persist():
    t = probe_tables()
    ls = extract.lean_str
    pairs = lambda d: '[' + ', '.join('(%s, %s)' % (ls(k), ls(v)) for k, v in sorted(d.items())) + ']'
    strs = lambda xs: '[' + ', '.join(ls(x) for x in xs) + ']'
    src = (extract.HEADER % ('plasTeX/__init__.py (Macro.refAttributes, Macro.restore remap, attribute setters of Macro)',
                             'probed' if t['mode'] == 'probed' else 'probed') +
           'namespace PlasVerif.Generated.Persist\n'
           '/-- `Macro.refAttributes` (exact: value of the class constant) -/\n'
           'def refAttributes : List String := %s\n'
           '/-- the `remap` dictionary literal of `Macro.restore` (%s) -/\n'
           'def remap : List (String × String) := %s\n'
           '/-- attribute names whose assignment on a fresh `Macro` instance lands under another `vars()` key (property setters; probed) -/\n'
           'def setterStore : List (String × String) := %s\n'
           '/-- attribute names whose setter stores a truthy value under the given key and `delattr`s that key on a falsy value (probed) -/\n'
           'def deleteOnFalsy : List (String × String) := %s\n'
           '/-- attribute names whose assignment raises for every value shape (read-only properties, slots; probed) -/\n'
           'def readOnlyAttrs : List String := %s\n'
           '-- value-dependent names, outside the model (never generated): %s\n'
           'end PlasVerif.Generated.Persist\n' % (
               strs(t['ref']), 'exact: AST' if t['mode'] == 'exact' else 'probed through Macro.restore', pairs(t['remap']),
               pairs(t['setter']), pairs(t['delete']), strs(t['readonly']), ' '.join(t['exotic'])))
    return 'PlasVerif/Generated/Persist.lean', src, 'probed'


GENERATED = [gen_persist]

# ---------------------------------------------------------------- value shapes <-> words


class Exotic(Exception):
    pass


def cps(s):
    for ch in s:
        if 0xD800 <= ord(ch) <= 0xDFFF:
            raise Exotic('surrogate')
    return '.'.join(str(ord(c)) for c in s)


def uncps(w):
    return ''.join(chr(int(x)) for x in w.split('.')) if w else ''


def key_word(k):
    if isinstance(k, str): return 'ks' + cps(k)
    if isinstance(k, bool): raise Exotic('bool key')      # equals the int as a key but prints differently
    if isinstance(k, int): return 'ki%d' % k
    if k is None: return 'kN'
    raise Exotic('key ' + type(k).__name__)


def shape_words(v, out, seen, depth=0):
    if depth > 40:
        raise Exotic('deep')
    if v is None: out.append('N')
    elif v is True: out.append('T')
    elif v is False: out.append('F')
    elif type(v) is int: out.append('i%d' % v)
    elif type(v) is str: out.append('s' + cps(v))
    elif type(v) is list:
        if id(v) in seen: raise Exotic('alias')
        seen.add(id(v))
        out.append('L%d' % len(v))
        for x in v: shape_words(x, out, seen, depth + 1)
    elif type(v) is dict:
        if id(v) in seen: raise Exotic('alias')
        seen.add(id(v))
        out.append('D%d' % len(v))
        for k, x in v.items():
            out.append(key_word(k))
            shape_words(x, out, seen, depth + 1)
    elif isinstance(v, (float, bytes, tuple, frozenset, set, bytearray, complex)):
        if isinstance(v, (tuple, frozenset, set)) and len(v) > 0 and any(isinstance(x, (list, dict, set, bytearray)) for x in v):
            raise Exotic('container in opaque')
        out.append('o1' if v else 'o0')
    else:
        raise Exotic('type ' + type(v).__name__)


def shape(v):
    out = []
    shape_words(v, out, set())
    return ' '.join(out)


def parse_words(ws, i=0):
    """inverse of shape(): returns (python value, next index); opaque values become the marker tuples ('o', bool)"""
    w = ws[i]
    if w == 'N': return None, i + 1
    if w == 'T': return True, i + 1
    if w == 'F': return False, i + 1
    if w in ('o1', 'o0'): return ('o', w == 'o1'), i + 1
    if w[0] == 'i': return int(w[1:]), i + 1
    if w[0] == 's': return uncps(w[1:]), i + 1
    if w[0] == 'L':
        n, i, xs = int(w[1:]), i + 1, []
        for _ in range(n):
            x, i = parse_words(ws, i); xs.append(x)
        return xs, i
    if w[0] == 'D':
        n, i, d = int(w[1:]), i + 1, {}
        for _ in range(n):
            kw = ws[i]
            k = None if kw == 'kN' else (uncps(kw[2:]) if kw[1] == 's' else ('int', int(kw[2:])))
            x, i = parse_words(ws, i + 1)
            d[k] = x
        return d, i
    raise ValueError(w)


def words_value(s):
    return parse_words(s.split(), 0)[0]


_vm = {'n': 0, 'size': 1 << 30}


@contextlib.contextmanager
def guarded():
    """bounded address space + silence while damaged bytes are unpickled (a flipped length field otherwise makes
    pickle allocate and zero gigabytes); the limit is lifted again before the Lean driver is started"""
    soft, hard = resource.getrlimit(resource.RLIMIT_AS)
    _vm['n'] += 1
    if _vm['n'] % 256 == 1:
        try:
            _vm['size'] = int(open('/proc/self/statm').read().split()[0]) * resource.getpagesize()
        except Exception:
            _vm['size'] = 1 << 30
    lim = _vm['size'] + (1 << 30)
    if hard != resource.RLIM_INFINITY:
        lim = min(lim, hard)
    hook = sys.unraisablehook
    sys.unraisablehook = lambda *a: None
    err = os.dup(2)
    devnull = os.open(os.devnull, os.O_WRONLY)
    try:
        resource.setrlimit(resource.RLIMIT_AS, (lim, hard))
        os.dup2(devnull, 2)
        yield
    finally:
        os.dup2(err, 2)
        os.close(err); os.close(devnull)
        resource.setrlimit(resource.RLIMIT_AS, (soft, hard))
        sys.unraisablehook = hook


def file_words(data):
    """shape of a file content (bytes or None=missing) as the model sees it; raises Exotic"""
    if data is None:
        return 'M'
    with guarded():
        try:
            v = pickle.loads(data)
        except BaseException as e:
            if isinstance(e, (KeyboardInterrupt, SystemExit)):
                raise
            return 'U'
    return 'V ' + shape(v)


# ---------------------------------------------------------------- label sets (what persist sees)

RENDERERS = ['HTML5', 'XHTML', 'Text', 'Page Template']
MACROS = ['section', 'subsection', 'equation', 'figure', 'table', 'thm', 'lemma*', 'chapter']
WORDS = ['Intro', 'duction', 'Résumé', 'the "quoted" <b>', 'a & b', 'x', 'Théorème de Pythagore', '中文', 'sum_{i=1}^n', '', '  ']


def gen_label_name(rng, used):
    while True:
        k = rng.choice(['sec', 'eq', 'fig', 'tab', 'thm', 'ch']) + rng.choice([':', '-', ' ', '.']) + \
            rng.choice(['intro', 'one', 'a b', 'é', '1', 'main', 'x_y', '%d' % rng.randrange(100)])
        if rng.random() < 0.1:
            k = rng.choice(['a', 'ref', 'HTML5', 'macroName', '0', 'é'])
        if k not in used:
            used.add(k)
            return k


def gen_node(rng, label, malformed):
    """attribute name -> source value: ('none',) | ('node', str) | ('val', python value)"""
    a = {}
    num = '%d' % rng.randint(1, 30) + rng.choice(['', '', '.%d' % rng.randint(1, 9), '.%d.%d' % (rng.randint(1, 9), rng.randint(1, 9))])
    a['ref'] = ('node', num) if rng.random() < 0.85 else rng.choice([('none',), ('val', num), ('val', rng.randint(0, 9))])
    a['title'] = ('node', ' '.join(rng.sample(WORDS, rng.randint(1, 3)))) if rng.random() < 0.6 else ('none',)
    a['captionName'] = ('node', rng.choice(['Section', 'Equation', 'Figure', 'Table', ''])) if rng.random() < 0.5 else ('none',)
    r = rng.random()
    if r < 0.15:
        # an unnumbered sectioning command: no number, and the caption name is the empty text node of the getter's fallback
        a['ref'], a['captionName'] = ('none',), ('text', '')
    elif r < 0.22:
        a[rng.choice(['title', 'captionName', 'ref'])] = ('text', rng.choice(['', 'Bare text', 'é', '7']))
    a['id'] = ('val', label if rng.random() < 0.8 else 'a%010d' % rng.randrange(10 ** 6))
    fn = rng.choice(['index.html', 'sect0001.html', 'sec-intro.html', 'a b.html', 'résumé.html'])
    a['url'] = ('val', fn + ('#' + a['id'][1] if rng.random() < 0.6 else '')) if rng.random() < 0.9 else ('none',)
    a['macroName'] = ('val', rng.choice(MACROS)) if rng.random() < 0.4 else ('none',)
    if malformed:
        r = rng.random()
        if r < 0.3: a['id'] = ('val', rng.choice(['', 0, False]))
        elif r < 0.5: a['id'] = ('none',)
        elif r < 0.7: a['macroName'] = ('val', rng.choice([5, [1], True, {'a': 1}]))
        elif r < 0.85: a[rng.choice(['ref', 'title', 'url'])] = ('val', rng.choice([[1, 'x'], {'k': None}, 3.5, b'by', (1, 2), True]))
        else: a['url'] = ('node', 'nodeurl.html')
    return a


def gen_src(rng, nmax=5, p_malformed=0.15):
    used = set()
    n = rng.choice([0, 1, 1, 2, 2, 3, 4, nmax])
    mal = rng.random() < p_malformed
    src = []
    for _ in range(n):
        k = gen_label_name(rng, used)
        src.append((k, gen_node(rng, k, mal and rng.random() < 0.6)))
    return src


def sval_words(sv):
    if sv[0] == 'none': return '-'
    if sv[0] == 'node': return 'n' + cps(sv[1])
    if sv[0] == 'text': return 't' + cps(sv[1])
    return shape(sv[1])


def src_words(src):
    out = ['P%d' % len(src)]
    for k, node in src:
        out.append('l' + cps(k))
        out.append('A%d' % len(node))
        for name, sv in node.items():
            out.append('a' + cps(name))
            out.append(sval_words(sv))
    return ' '.join(out)


def src_json(src):
    def enc(sv):
        if sv[0] == 'val':
            return ['val', base64.b64encode(pickle.dumps(sv[1])).decode()]
        return list(sv)
    return [[k, {n: enc(sv) for n, sv in node.items()}] for k, node in src]


def src_unjson(j):
    def dec(sv):
        if sv[0] == 'val':
            return ('val', pickle.loads(base64.b64decode(sv[1])))      # our own pickles of plain data
        return tuple(sv)
    return [(k, {n: dec(sv) for n, sv in node.items()}) for k, node in j]


# ---------------------------------------------------------------- the real code

_env = {}


def _classes():
    if 'Fake' not in _env:
        import plasTeX
        from plasTeX.DOM import Node

        class Rendered(Node):
            """a DOM node whose rendering (`str`) is the given string"""
            def __init__(self, s): self._s = s
            def __str__(self): return self._s

        class Labelled(plasTeX.Macro):
            """a labelled node at the end of a run: the six reference attributes are whatever the run left there
            (plain class attributes instead of the computed properties, so every value can be exhibited);
            `persist` is the real, inherited `Macro.persist`"""
            macroName = None
            ref = None
            title = None
            captionName = None
            id = None
            url = None
        _env['Fake'], _env['Rendered'] = Labelled, Rendered
    return _env['Fake'], _env['Rendered']


def real_context():
    from plasTeX import TeXDocument
    return TeXDocument().context


def install_src(ctx, src):
    Labelled, Rendered = _classes()
    for k, node in src:
        n = Labelled()
        for name, sv in node.items():
            if sv[0] == 'none': continue
            if sv[0] == 'text':
                # a real bare DOM text node (what the captionName getter leaves on a node that has none)
                if 'textdoc' not in _env:
                    from plasTeX import TeXDocument
                    _env['textdoc'] = TeXDocument()
                setattr(n, name, _env['textdoc'].createTextNode(sv[1]))
                continue
            setattr(n, name, Rendered(sv[1]) if sv[0] == 'node' else sv[1])
        ctx.persistentLabels[k] = n


def canon_exc(e):
    n = type(e).__name__
    return 'err:' + (n if n in ('TypeError', 'AttributeError', 'KeyError', 'UnpicklingError') else 'other:' + n)


class Sandbox:
    def __init__(self):
        self.dir = tempfile.mkdtemp(prefix='c20-')
        self.path = os.path.join(self.dir, 'job.paux')

    def put(self, data):
        if data is None:
            if os.path.exists(self.path): os.remove(self.path)
        else:
            with open(self.path, 'wb') as fh: fh.write(data)

    def get(self):
        if not os.path.exists(self.path): return None
        with open(self.path, 'rb') as fh: return fh.read()

    def close(self):
        shutil.rmtree(self.dir, ignore_errors=True)


_sb = []


def sandbox():
    if not _sb:
        import atexit
        _sb.append(Sandbox())
        atexit.register(_sb[0].close)
    return _sb[0]


DECOYS = ['decoy:earlier-document', 'decoy:2']


def decoy_context():
    """another document processed earlier in the same process (a build script converting several documents): a long-lived
    context that holds labels of its own.  Nothing of it may show up in what another context saves or restores."""
    if 'decoy' not in _env:
        _env['decoy'] = real_context()
        Labelled, Rendered = _classes()
        nodes = {}
        for k in DECOYS:
            n = Labelled()
            n.ref, n.title, n.id, n.url = Rendered('99'), Rendered('Decoy'), k, 'decoy.html#' + k
            nodes[k] = n
        _env['decoy_nodes'] = nodes
    c = _env['decoy']
    for k, n in _env['decoy_nodes'].items():
        c.persistentLabels[k] = n
        c.labels[k] = n
    return c


def forget(ctx):
    """per-case work stays bounded even when the code keeps label tables in state shared between contexts"""
    for name in ('persistentLabels', 'labels', 'refs'):
        try:
            getattr(ctx, name).clear()
        except Exception:
            pass


def real_persist(sb, r, src):
    """returns None or the exception"""
    decoy_context()
    ctx = real_context()
    install_src(ctx, src)
    try:
        with guarded():
            try:
                ctx.persist(sb.path, r)
            except Exception as e:
                return e
        return None
    finally:
        forget(ctx)


def real_restore(sb, r):
    """returns (exception or None, labels dict of the fresh context)"""
    decoy_context()
    ctx = real_context()
    try:
        with guarded():
            try:
                ctx.restore(sb.path, r)
            except Exception as e:
                return e, dict(ctx.labels)
        return None, dict(ctx.labels)
    finally:
        forget(ctx)


XR_PREFIXES = ['', '', 'P-', 'man:', 'a b']
XR_URLS = [None, None, 'http://x.org/m', 'http://x.org/m/', 'sub/dir', '..']


def effective_url(u):
    return None if not u else u.rstrip('/') + '/'


def real_xr(sb, pfx, url):
    """`\\externaldocument[pfx]{job}[url]` of the xr package read by the real interpreter in the directory of the file;
    returns (exception or None, context.labels)"""
    from plasTeX.TeX import TeX
    from plasTeX import TeXDocument
    decoy_context()
    doc = TeXDocument()
    tex = TeX(doc)
    cwd = os.getcwd()
    os.chdir(sb.dir)
    try:
        with guarded():
            try:
                doc.context.loadPackage(tex, 'xr')
                tex.input('\\externaldocument%s{job}%s' % ('[%s]' % pfx if pfx else '', '[%s]' % url if url else ''))
                tex.parse()
            except Exception as e:
                return e, dict(doc.context.labels)
        return None, dict(doc.context.labels)
    finally:
        os.chdir(cwd)
        forget(doc.context)


def xr_words(labels):
    return shape(dict(labels))


def labels_words(labels):
    out = ['D%d' % len(labels)]
    for k, n in labels.items():
        out.append(key_word(k))
        v = vars(n)
        out.append('D%d' % len(v))
        for a, x in v.items():
            out.append('ks' + cps(a))
            shape_words(x, out, set())
    return ' '.join(out)


def saved_words(data):
    """shape of the re-saved file (it was written by pickle.dump just now)"""
    if data is None:
        return 'ok M'
    w = file_words(data)
    return 'ok ' + (w[2:] if w.startswith('V ') else w)


# ---------------------------------------------------------------- damage and foreign files

def truncations(data):
    return [data[:i] for i in range(len(data))]


def flip(rng, data, nbits=None):
    if not data:
        return data
    b = bytearray(data)
    for _ in range(nbits or rng.randint(1, 8)):
        i = rng.randrange(len(b) * 8)
        b[i // 8] ^= 1 << (i % 8)
    return bytes(b)


GARBAGE = [b'', b'\n', b'0', b'00000', b'\x80', b'\x80\x04', b'\x80\x04\x95', b'{"HTML5": {}}', b'12 34 56\n', b'\x00' * 16,
           b'N.', b'\x80\x04N', b'}', b'}.', b'(.', b'].']


def gen_attr_value(rng):
    return rng.choice(['1.2', 'Title text', 'index.html#a', '', 0, 7, -3, None, True, False, 2.5, 0.0, b'bytes', b'', (1, 2), (),
                       [1, 2], [], {'k': 'v'}, {}, 'é中'])


def gen_entry(rng):
    """a label entry as it stands in a file: mostly a well-formed attribute dict, sometimes anything"""
    t = probe_tables()
    r = rng.random()
    if r < 0.12:
        return rng.choice([5, 'str', None, [1, 2], [], True, 3.5, b'x', (1,), {}, 0])
    d = {}
    names = list(t['ref'])
    rng.shuffle(names)
    for name in names[:rng.randint(0, len(names))]:
        d[name] = rng.choice(['1', '2.3', 'A title', 'x.html#y', 'lab', 'section']) if rng.random() < 0.8 else gen_attr_value(rng)
    if rng.random() < 0.35:
        extra = rng.choice(t['readonly'] + sorted(t['setter']) + sorted(t['setter'].values()) + sorted(t['delete']) + sorted(t['delete'].values()) +
                           ['urloverride', 'foo', 'a b', '', 'é', 'macroName', '5', 'None'] + [5, 0, -1, None, True])
        if extra not in t['exotic']:
            d[extra] = gen_attr_value(rng)
    if rng.random() < 0.2:
        d['macroName'] = rng.choice(['section', 'Macro', 'nosuchmacro', 'a b', '', 5, None, [1], {'a': 1}, True, 2.5])
    if rng.random() < 0.15:
        d['id'] = rng.choice(['', 0, None, False, [], 'ok', 7, [0]])
    return d


def gen_section(rng):
    r = rng.random()
    if r < 0.15:
        return rng.choice([5, 'str', None, [1, 2], [], True, 3.5, b'x', (), 0, ''])
    sec = {}
    for _ in range(rng.choice([0, 1, 2, 3, 5])):
        k = rng.choice(['sec:intro', 'eq:1', 'a', 'fig 2', 'x', 'é', 'ref']) if rng.random() < 0.85 else rng.choice([5, 0, None, True, -2])
        sec[k] = gen_entry(rng)
    return sec


def gen_foreign(rng):
    """a pickle of plain data of any shape, from near misses of the real layout to anything"""
    r = rng.random()
    if r < 0.2:
        v = rng.choice([5, 'str', None, [1, 2], [], True, 3.5, b'x', (1, 'a'), {}, 0, '', [{'HTML5': {}}], {'HTML5'}, frozenset()])
    else:
        v = {}
        for _ in range(rng.choice([0, 1, 1, 2, 3])):
            k = rng.choice(RENDERERS) if rng.random() < 0.9 else rng.choice([5, None, 'other', True, ''])
            v[k] = gen_section(rng)
    return pickle.dumps(v, protocol=rng.choice([0, 1, 2, 3, 4, 5, pickle.DEFAULT_PROTOCOL, pickle.DEFAULT_PROTOCOL]))


def base_file(rng, nsaves=None):
    """a file written by the real code: 1-3 saves under 1-2 renderers; returns (bytes, [(r, src)...])"""
    sb = Sandbox()
    try:
        saves = []
        for _ in range(nsaves or rng.choice([1, 1, 2, 3])):
            r = rng.choice(RENDERERS[:2]) if rng.random() < 0.8 else rng.choice(RENDERERS)
            src = gen_src(rng, p_malformed=0.05)
            e = real_persist(sb, r, src)
            if e is not None:
                raise RuntimeError('persist on a clean file raised %r' % e)
            saves.append((r, src))
        return sb.get(), saves
    finally:
        sb.close()


def b64(data):
    return None if data is None else base64.b64encode(data).decode()


def unb64(s):
    return None if s is None else base64.b64decode(s)


def meta_file(m):
    data = unb64(m['file'])
    return data[:m['cut']] if m.get('cut') is not None and data is not None else data


# ---------------------------------------------------------------- cases

def mk_cases(streams, r, src, data, origin='gen', tag='', base=None, xr=None):
    """the cases of the given streams for one (renderer, label set, file content); xr = (prefix, url option) for the xr streams"""
    pfx, url = xr if xr is not None else ('', None)
    try:
        fw = file_words(data)
        rw = cps(r)
        sw = src_words(src) if src is not None else None
        xw = 'p%s %s' % (cps(pfx), cps(effective_url(url)) if url else '-')
    except Exotic as e:
        return [Case('raw', 'x ' + tag, {'op': s, 'r': r, 'src': src_json(src) if src is not None else None, 'file': b64(data),
                                         'pfx': pfx, 'url': url}, origin)
                for s in streams]
    out = []
    for s in streams:
        meta = {'r': r, 'file': b64(data), 'tag': tag} if base is None else {'r': r, 'file': base[0], 'cut': base[1], 'tag': tag}
        if s in ('xr', 'xrrt'):
            meta['pfx'], meta['url'] = pfx, url
        if s in ('persist', 'rt'):
            meta['src'] = src_json(src)
            out.append(Case(s, '%s %s %s' % (rw, sw, fw), meta, origin))
        elif s == 'xrrt':
            meta['src'] = src_json(src)
            out.append(Case(s, '%s %s %s %s' % (rw, xw, sw, fw), meta, origin))
        elif s == 'xr':
            out.append(Case(s, '%s %s' % (xw, fw), meta, origin))
        else:
            out.append(Case(s, '%s %s' % (rw, fw), meta, origin))
    return out


def gen_xr(rng):
    return (rng.choice(XR_PREFIXES), rng.choice(XR_URLS))


def other_sections_mention(data, r, src):
    """the file has a section of another renderer that holds one of the labels about to be saved (xr reads the sections of
    all renderers in file order: known finding `xr-mixes-renderers`, reached only through its witness)"""
    if not data:
        return False
    try:
        with guarded():
            v = pickle.loads(data)
    except BaseException:
        return False
    if not isinstance(v, dict):
        return False
    ks = {k for k, _ in src}
    return any(k != r and isinstance(sec, dict) and any(l in ks for l in sec if isinstance(l, str)) for k, sec in v.items())


def gen_history(rng):
    """run a history on the real code to obtain the bytes each damage step works on; returns a `hist` case per renderer read"""
    sb = Sandbox()
    try:
        rs = rng.sample(RENDERERS, rng.choice([2, 2, 3]))
        start = rng.choice([None, None, b'', 'foreign', 'base'])
        if start == 'foreign': start = gen_foreign(rng)
        elif start == 'base': start = base_file(rng, 1)[0]
        sb.put(start)
        ops, words, exotic = [], [], False
        for _ in range(rng.randint(2, 7)):
            if rng.random() < 0.6 or not ops:
                r, src = rng.choice(rs), gen_src(rng, 3, 0.08)
                e = real_persist(sb, r, src)
                ops.append(['S', r, src_json(src)])
                words.append('S %s %s' % (cps(r), src_words(src)))
                if e is not None:
                    break          # the real code raised: the case will report it
            else:
                cur = sb.get()
                kind = rng.choice(['trunc', 'flip', 'flip', 'foreign', 'empty', 'delete', 'garbage'])
                if kind == 'trunc' and cur: new = cur[:rng.randrange(len(cur))]
                elif kind == 'flip' and cur: new = flip(rng, cur)
                elif kind == 'foreign': new = gen_foreign(rng)
                elif kind == 'delete': new = None
                elif kind == 'garbage': new = rng.choice(GARBAGE)
                else: new = b''
                sb.put(new)
                ops.append(['C', b64(new)])
                try:
                    words.append('C ' + file_words(new))
                except Exotic:
                    exotic = True
        try:
            fw0 = file_words(start)
        except Exotic:
            exotic = True
        out = []
        for r in rs:
            meta = {'r': r, 'file': b64(start), 'ops': ops}
            if exotic:
                out.append(Case('raw', 'x hist', dict(meta, op='hist'), 'gen'))
            else:
                out.append(Case('hist', '%s %s %s' % (cps(r), fw0, ' '.join(words)), meta, 'gen'))
        return out
    finally:
        sb.close()


def generate(ctx):
    rng = ctx.rng
    quick = ctx.tier == 'quick'
    nbase = 12 if quick else 50
    nflip = 60 if quick else 150
    nforeign = 700 if quick else 4000
    nhist = 250 if quick else 1200
    def with_xrrt(streams, r, src, data):
        return streams + (['xrrt'] if not other_sections_mention(data, r, src) else [])

    # clean round trips on missing / empty files: many label sets
    for _ in range(300 if quick else 2000):
        r = rng.choice(RENDERERS)
        src = gen_src(rng)
        yield from mk_cases(['persist', 'rt', 'xrrt'], r, src, rng.choice([None, None, b'']), xr=gen_xr(rng))
    for _ in range(nbase):
        data, saves = base_file(rng)
        ctx.count('base-file-bytes', len(data))
        r0 = saves[-1][0]
        others = [r for r in RENDERERS[:2] if r != r0] or [RENDERERS[1]]
        src = gen_src(rng, 3, 0.05)
        # the intact file: restore under each renderer, save again under the same and under another renderer, read it with xr
        for r in [r0] + others:
            s2 = gen_src(rng, 3, 0.1)
            yield from mk_cases(with_xrrt(['restore', 'persist', 'rt', 'xr'], r, s2, data), r, s2, data, tag='intact', xr=gen_xr(rng))
        # EVERY truncation point (complete for this file)
        shared = b64(data)
        xr0 = gen_xr(rng)
        for i, cut in enumerate(truncations(data)):
            yield from mk_cases(['restore', 'rt', 'xr'], r0, src, cut, tag='cut@%d' % i, base=(shared, i), xr=xr0)
        ctx.count('truncation-points', len(data))
        # random 1-8 bit flips
        for j in range(nflip):
            bad = flip(rng, data, 1 if j % 2 == 0 else None)
            r = r0 if rng.random() < 0.8 else rng.choice(RENDERERS)
            s2 = src if j % 3 else gen_src(rng, 3, 0.1)
            streams = ['restore', 'rt', 'xr'] + (['persist'] if j % 4 == 0 else [])
            if j % 3 == 1:
                streams = with_xrrt(streams, r, s2, bad)
            yield from mk_cases(streams, r, s2, bad, tag='flip', xr=gen_xr(rng))
    # foreign pickles of every shape, non-pickles, empty
    for j in range(nforeign):
        r = rng.choice(RENDERERS[:2]) if rng.random() < 0.85 else rng.choice(RENDERERS)
        s2, data = gen_src(rng, 3, 0.1), gen_foreign(rng)
        streams = ['restore', 'persist', 'rt', 'xr']
        if j % 2:
            streams = with_xrrt(streams, r, s2, data)
        yield from mk_cases(streams, r, s2, data, tag='foreign', xr=gen_xr(rng))
    for g in GARBAGE:
        yield from mk_cases(['restore', 'persist', 'rt', 'xr', 'xrrt'], 'HTML5', gen_src(rng, 2, 0.0), g, tag='garbage', xr=gen_xr(rng))
    for _ in range(nhist):
        yield from gen_history(rng)
    for _ in range(400 if quick else 4000):
        yield gen_url_case(rng)
    for _ in range(300 if quick else 3000):
        yield gen_dirs_case(rng)


def _plain(v):
    return pickle.dumps(v)


def corpus():
    src = [('a', {'ref': ('node', '1'), 'title': ('node', 'T'), 'id': ('val', 'a'), 'url': ('val', 'index.html#a')})]
    out = []
    # D10: the old file decodes to a dict whose renderer entry is not a dict
    out += mk_cases(['persist', 'rt'], 'HTML5', src, _plain({'HTML5': 5}), 'corpus', 'D10')
    out += mk_cases(['persist'], 'HTML5', src, _plain({'HTML5': None, 'XHTML': {}}), 'corpus', 'D10')
    out += mk_cases(['persist'], 'HTML5', src, _plain({'HTML5': [1]}), 'corpus', 'D10')
    # D14: a garbage entry in the section ahead of good ones
    out += mk_cases(['rt', 'restore'], 'HTML5', src, _plain({'HTML5': {'x': 5}}), 'corpus', 'D14')
    out += mk_cases(['rt', 'restore'], 'HTML5', src, _plain({'HTML5': {'x': {'config': 1}, 'b': {'ref': '2'}}}), 'corpus', 'D14')
    out += mk_cases(['rt', 'restore'], 'HTML5', src, _plain({'HTML5': {'x': {'id': ''}, 'b': {'ref': '2', 'macroName': 5}}}), 'corpus', 'D14')
    out += mk_cases(['restore', 'rt'], 'HTML5', src, b'', 'corpus', 'empty')
    out += mk_cases(['restore', 'rt'], 'XHTML', src, _plain({'HTML5': {'a': {'ref': '9'}}}), 'corpus', 'other-renderer')
    # D29: xr on files that do not have the saved layout
    for v in (5, [1], None, {'HTML5': 5}, {'HTML5': {'a': 5}}, {'HTML5': {5: {'url': 'x'}}}):
        out += mk_cases(['xr'], 'HTML5', None, _plain(v), 'corpus', 'D29')
    for v in ({'HTML5': {'a': {'ref': '1'}}}, {'HTML5': {'a': {'url': 5}, 'b': {'url': 'b.html'}}}):
        out += mk_cases(['xr'], 'HTML5', None, _plain(v), 'corpus', 'D29', xr=('P-', 'http://x.org/m'))
    out += mk_cases(['xrrt'], 'HTML5', src, _plain({'HTML5': {'x': 5}, 'XHTML': 7}), 'corpus', 'D29', xr=('P-', 'http://x.org/m/'))
    out.append(url_case('eq:1', None, [[None, None, [None, 'sec-a.html', 'index.html']], [None, None, [None, 'sec-a.txt', 'index.txt']]], 'corpus'))
    out.append(url_case('eq:1', None, [['http://x.org/d/', None, ['index.html']], ['', 'eq-1.html', ['index.html']], [None, '', []]], 'corpus'))
    # two different main.paux in two paux directories, and the job's own file
    sA = src_json([('a', {'ref': ('node', '2'), 'title': ('node', 'Methods'), 'id': ('val', 'a'), 'url': ('val', 'sec-methods.html')})])
    sB = src_json([('b', {'ref': ('node', '3'), 'title': ('node', 'Results'), 'id': ('val', 'b'), 'url': ('val', 'sec-results.html')})])
    sO = src_json([('own', {'ref': ('node', '1'), 'id': ('val', 'own')})])
    out.append(dirs_case('HTML5', 'report', [[['report', 'W', sO]], [['main', 'W', sA]], [['main', 'W', sB]]], 'corpus'))
    out.append(dirs_case('HTML5', 'report', [[['main', 'W', sA]], [['report', 'W', sO], ['main', 'W', sB]]], 'corpus'))
    import glob
    from framework import VERIF
    for f in sorted(glob.glob(os.path.join(VERIF, 'corpus', ID, '*.json'))):
        try:
            d = json.load(open(f))
            out.append(Case.from_json(d['outcome']['case'], 'corpus'))
        except Exception:
            pass
    return out


def nontrivial(o):
    if o.case.stream == 'raw':
        return False
    if o.spec not in ('-', '') and not o.spec.startswith('D0'):
        return True
    return ' V D' in (' ' + o.case.line)


# ---------------------------------------------------------------- implementation side

# ---------------------------------------------------------------- `url` stream: Renderable.url over successive renders

URL_BASES = [None, None, '', 'http://x.org/d', 'http://x.org/d/', 'b//', '/']
URL_FILES = ['index.html', 'sec-a.html', 'sec-a.txt', 'a b.xml', 'é.html']


def gen_url_case(rng, origin='gen'):
    """one labelled node, 1-3 renders of the same document object: between the renders the renderer (file names), the
    split level (which ancestors create files, whether the node itself does) and the base url change"""
    depth = rng.randint(0, 4)
    views = []
    for _ in range(rng.choice([1, 2, 2, 3])):
        own = rng.choice([None, None, None, '', rng.choice(URL_FILES)])
        anc = [rng.choice([None, None, rng.choice(URL_FILES)]) if rng.random() < 0.95 else '' for _ in range(depth)]
        views.append([rng.choice(URL_BASES), own, anc])
    nid = rng.choice(['eq:1', 'sec:intro', 'a b', 'é', 'fig-2'])
    ov = None if rng.random() < 0.85 else rng.choice(['other.html#x', ''])
    return url_case(nid, ov, views, origin)


def _w(x):
    return 'N' if x is None else 's' + cps(x)


def url_case(nid, ov, views, origin='gen'):
    words = [_w(nid), _w(ov)]
    for base, own, anc in views:
        words += ['R', _w(base), _w(own), str(len(anc))] + [_w(a) for a in anc]
    return Case('url', ' '.join(words), {'id': nid, 'ov': ov, 'views': views, 'r': '-'}, origin)


def real_urls(nid, ov, views):
    """the real `Renderable.url` property on one node object whose surroundings change from render to render"""
    from plasTeX.Renderers import Renderable

    class N(Renderable):
        filename = None            # plain attributes in place of the renderer's file table lookup
        parentNode = None
        config = None
        id = None
    cfg = {'document': {'base-url': None}}
    node = N()
    node.id, node.config = nid, cfg
    if ov is not None:
        node.urloverride = ov
    out = []
    for base, own, anc in views:
        cfg['document']['base-url'] = base
        node.filename = own
        parent, chain = None, []
        for a in reversed(anc):              # a fresh ancestor chain per render, innermost first in `anc`
            p = N(); p.id, p.config, p.filename, p.parentNode = 'anc', cfg, a, parent
            parent = p
        node.parentNode = parent
        out.append(str(node.url))
    return out


# ---------------------------------------------------------------- `dirs` stream: which files Compile.parse restores

DIR_NAMES = ['main', 'index', 'a', 'report', 'doc.v2']


class _At:
    def __init__(self, path): self.path = path


def gen_dirs_case(rng, origin='gen'):
    """the working directory and 0-2 paux directories, each holding .paux files of other documents (the same base name
    often occurs in several directories, and the job's own name too); every file written by a real save (labels of
    its own) or damaged / foreign"""
    r = rng.choice(RENDERERS[:2])
    job = rng.choice(DIR_NAMES)
    dirs, idx = [], 0
    for _ in range(1 + rng.choice([0, 1, 2, 2])):
        files, raw_used = [], False
        for name in rng.sample(DIR_NAMES, rng.choice([0, 1, 1, 2, 3])):
            if rng.random() < 0.8 or raw_used:
                src = [('f%d:%s' % (idx, k), node) for k, node in gen_src(rng, 2, 0.05)]
                for k, node in src:
                    if node.get('id', ('none',))[0] == 'val' and isinstance(node['id'][1], str) and node['id'][1]:
                        node['id'] = ('val', k)
                files.append([name, 'W', src_json(src)])
            else:
                raw_used = True
                data = rng.choice([gen_foreign(rng), gen_foreign(rng), b'', rng.choice(GARBAGE), flip(rng, base_file(rng, 1)[0])])
                files.append([name, 'R', b64(data)])
            idx += 1
        dirs.append(files)
    return dirs_case(r, job, dirs, origin)


def dirs_case(r, job, dirs, origin='gen'):
    words = [cps(r), cps(job)]
    try:
        for files in dirs:
            for name, kind, payload in files:
                words += ['F', cps(name)]
                words.append('W ' + src_words(src_unjson(payload)) if kind == 'W' else file_words(unb64(payload)))
    except Exotic:
        return Case('raw', 'x dirs', {'op': 'dirs', 'r': r, 'job': job, 'dirs': dirs}, origin)
    return Case('dirs', ' '.join(words), {'r': r, 'job': job, 'dirs': dirs}, origin)


def real_parse_dirs(r, job, dirs):
    """the real `Compile.parse` of a document `job`.tex in the first directory with the others as paux-dirs;
    returns (exception or None, context.labels)"""
    from plasTeX.Compile import parse
    from plasTeX.Config import defaultConfig
    top = tempfile.mkdtemp(prefix='c20dirs-')
    cwd = os.getcwd()
    ctx = None
    try:
        paths = []
        for i, files in enumerate(dirs):
            d = os.path.join(top, 'd%d' % i)
            os.makedirs(d)
            paths.append(d)
            for name, kind, payload in files:
                fp = os.path.join(d, name + '.paux')
                if kind == 'W':
                    e = real_persist(_At(fp), r, src_unjson(payload))
                    if e is not None:
                        return e, {}
                else:
                    open(fp, 'wb').write(unb64(payload))
        open(os.path.join(paths[0], job + '.tex'), 'w').write('x')
        decoy_context()
        config = defaultConfig()
        config['general']['renderer'] = r
        config['general']['paux-dirs'] = paths[1:]
        config['files']['log'] = False
        os.chdir(paths[0])
        with guarded():
            try:
                tex = parse(job + '.tex', config)
                ctx = tex.ownerDocument.context
            except Exception as e:
                return e, {}
        return None, dict(ctx.labels)
    finally:
        os.chdir(cwd)
        if ctx is not None:
            forget(ctx)
        shutil.rmtree(top, ignore_errors=True)


def run_hist(sb, meta):
    """re-run a history on the real code; returns 'err:…' as soon as a step raises, else None"""
    sb.put(unb64(meta['file']))
    for op in meta['ops']:
        if op[0] == 'S':
            e = real_persist(sb, op[1], src_unjson(op[2]))
            if e is not None:
                return canon_exc(e)
        else:
            sb.put(unb64(op[1]))
    return None


def impl(case, aux):
    sb = sandbox()
    m = case.meta
    stream = m.get('op') if case.stream == 'raw' else case.stream
    if stream == 'dirs':
        try:
            e, labels = real_parse_dirs(m['r'], m['job'], m['dirs'])
            return canon_exc(e) if e is not None else 'ok ' + labels_words(labels)
        except Exotic:
            return 'ok exotic'
    if stream == 'url':
        try:
            us = real_urls(m['id'], m['ov'], m['views'])
        except Exception as e:
            return canon_exc(e)
        return ' '.join('s' + cps(u) for u in us) if us else 'none'
    try:
        if stream == 'hist':
            err = run_hist(sb, m)
            if err:
                return err
            e, labels = real_restore(sb, m['r'])
            return canon_exc(e) if e is not None else 'ok ' + labels_words(labels)
        sb.put(meta_file(m))
        if stream == 'restore':
            e, labels = real_restore(sb, m['r'])
            return canon_exc(e) if e is not None else 'ok ' + labels_words(labels)
        if stream == 'xr':
            e, labels = real_xr(sb, m.get('pfx', ''), m.get('url'))
            return canon_exc(e) if e is not None else 'ok ' + xr_words(labels)
        src = src_unjson(m['src'])
        e = real_persist(sb, m['r'], src)
        if e is not None:
            return canon_exc(e)
        if stream == 'persist':
            return saved_words(sb.get())
        if stream == 'xrrt':
            e, labels = real_xr(sb, m.get('pfx', ''), m.get('url'))
            return canon_exc(e) if e is not None else 'ok ' + xr_words(labels)
        e, labels = real_restore(sb, m['r'])
        return canon_exc(e) if e is not None else 'ok ' + labels_words(labels)
    except Exotic as e:
        return 'ok exotic'


def contains(have, want):
    """every binding of `want` (dict label -> dict attr -> value) is in `have`"""
    if not isinstance(have, dict):
        return False
    for k, attrs in want.items():
        if k not in have or not isinstance(have[k], dict):
            return False
        for a, v in attrs.items():
            if a not in have[k] or have[k][a] != v or type(have[k][a]) is not type(v):
                return False
    return True


def allowed_keys(aux):
    """third driver field: the labels that may be present (saved by a run of the case, or entries of the old file)"""
    if not aux or aux[0] in ('', '*'):
        return None
    out = set()
    if aux[0] == 'none':
        return out
    for kw in aux[0].split():
        out.add(None if kw == 'kN' else (uncps(kw[2:]) if kw[1] == 's' else ('int', int(kw[2:]))))
    return out


def prop_holds(stream, impl_obs, spec, r, allowed=None):
    """returns '' when the property holds on this observation, else what is wrong"""
    if not impl_obs.startswith('ok'):
        return 'exception escaped'
    if impl_obs == 'ok exotic':
        return ''
    body = impl_obs[3:]
    if body in ('M', 'U'):
        return 'the re-saved file is missing or does not load' if spec not in ('total',) else ''
    have = words_value(body)
    if allowed is not None:
        present = have.get(r) if stream == 'persist' and isinstance(have, dict) else have
        if isinstance(present, dict):
            extra = [k for k in present if k not in allowed]
            if extra:
                return 'labels are present that no run of this history saved and the old file did not hold: %r' % (extra[:4],)
    if spec in ('-', '', 'total'):
        return ''
    want = words_value(spec)
    if stream == 'persist':
        if not want:
            return '' if isinstance(have, dict) else 'the re-saved file is not a dictionary'
        ok = isinstance(have, dict) and isinstance(have.get(r), dict) and contains(have[r], want)
    else:
        ok = contains(have, want)
    return '' if ok else 'saved labels are not all there with their attributes'


def judge(o):
    s = o.case.stream
    if s == 'raw':
        o.corr_ok = True
        o.prop_ok = o.impl.startswith('ok') and cps('decoy:') not in o.impl
        if o.prop_ok and o.case.meta.get('op') in ('rt', 'persist') and o.impl != 'ok exotic':
            o.prop_ok = raw_complete(o)
        return
    if s == 'url':
        o.corr_ok = (o.impl == o.model)
        o.prop_ok = (o.impl == o.spec)
        o.note = '' if o.prop_ok else 'the target a node gives in one render differs from what it gives when that render is the only one'
        return
    if s == 'dirs':
        # the order in which glob lists the files of one directory is the file system's: compare as dictionaries
        try:
            o.corr_ok = o.impl == o.model or (o.impl.startswith('ok ') and o.model.startswith('ok ') and o.impl != 'ok exotic'
                                              and words_value(o.impl[3:]) == words_value(o.model[3:]))
        except Exception:
            o.corr_ok = False
        why = prop_holds(s, o.impl, o.spec, o.case.meta['r'], allowed_keys(o.aux))
        o.prop_ok, o.note = not why, why
        return
    o.corr_ok = (o.impl == o.model)
    why = prop_holds(s, o.impl, o.spec, o.case.meta['r'], allowed_keys(o.aux))
    o.prop_ok = not why
    o.note = why


def raw_complete(o):
    """property-only check for files outside the model's shapes: labels of the save are present"""
    try:
        have = words_value(o.impl[3:])
    except Exception:
        return True
    src = src_unjson(o.case.meta['src'])
    keys = [k for k, _ in src]
    if o.case.meta['op'] == 'persist':
        sec = have.get(o.case.meta['r']) if isinstance(have, dict) else None
        return isinstance(sec, dict) and all(k in sec for k in keys)
    return True


# ---------------------------------------------------------------- shrinking and search

def _variants(case):
    """smaller cases: fewer labels, fewer attributes, smaller old file"""
    m = case.meta
    out = []
    xr = (m.get('pfx', ''), m.get('url'))
    if case.stream in ('persist', 'rt', 'xrrt'):
        src = src_unjson(m['src'])
        data = meta_file(m)
        if data:
            out += mk_cases([case.stream], m['r'], src, None, 'shrink', xr=xr)
            out += mk_cases([case.stream], m['r'], src, b'', 'shrink', xr=xr)
        if case.stream == 'xrrt' and (xr[0] or xr[1]):
            out += mk_cases([case.stream], m['r'], src, data, 'shrink', xr=('', None))
        for i in range(len(src)):
            out += mk_cases([case.stream], m['r'], src[:i] + src[i + 1:], data, 'shrink', xr=xr)
        for i, (k, node) in enumerate(src):
            for a in list(node):
                n2 = {x: y for x, y in node.items() if x != a}
                out += mk_cases([case.stream], m['r'], src[:i] + [(k, n2)] + src[i + 1:], data, 'shrink', xr=xr)
        if data:
            try:
                with guarded():
                    v = pickle.loads(data)
                for sm in _smaller_values(v):
                    out += mk_cases([case.stream], m['r'], src, pickle.dumps(sm), 'shrink', xr=xr)
            except BaseException:
                pass
    elif case.stream in ('restore', 'xr'):
        data = meta_file(m)
        if case.stream == 'xr' and (xr[0] or xr[1]):
            out += mk_cases(['xr'], m['r'], None, data, 'shrink', xr=('', None))
        if data:
            try:
                with guarded():
                    v = pickle.loads(data)
                for sm in _smaller_values(v):
                    out += mk_cases([case.stream], m['r'], None, pickle.dumps(sm), 'shrink', xr=xr)
            except BaseException:
                pass
    return [c for c in out if c.stream == case.stream]


def _smaller_values(v):
    if isinstance(v, dict):
        for k in list(v):
            yield {a: b for a, b in v.items() if a != k}
        for k in list(v):
            for sm in _smaller_values(v[k]):
                yield {a: (sm if a == k else b) for a, b in v.items()}


def shrink(ctx, o, evaluate):
    best = o
    for _ in range(40):
        cands = _variants(best.case)
        if not cands:
            break
        cands.sort(key=lambda c: len(c.line))
        cands = [c for c in cands if len(c.line) < len(best.case.line)][:60]
        hit = next((r for r in evaluate(cands) if not r.prop_ok), None)
        if hit is None:
            break
        best = hit
    return best


def search(ctx, evaluate, corr_bad):
    """proof or tie broken, no property failure in the main batch: shrinks of the disagreeing cases, the corpus, and a
    larger seeded batch biased to the near-miss layouts, all judged by the Spec oracle"""
    rng = random.Random(ctx.seed * 7919 + 20)
    cases = []
    for o in corr_bad[:20]:
        cases += _variants(o.case)[:40]
    cases += corpus()
    for _ in range(6000):
        r = rng.choice(RENDERERS[:2])
        cases += mk_cases(['persist', 'rt', 'restore'], r, gen_src(rng, 3, 0.1), gen_foreign(rng), 'search')
    for _ in range(1500):
        cases += mk_cases(['persist', 'rt'], rng.choice(RENDERERS), gen_src(rng), rng.choice([None, b'']), 'search')
    for _ in range(6):
        data, saves = base_file(rng)
        src = gen_src(rng, 3, 0.0)
        for cut in truncations(data):
            cases += mk_cases(['restore', 'rt'], saves[-1][0], src, cut, 'search')
        for _ in range(300):
            cases += mk_cases(['restore', 'rt', 'persist'], saves[-1][0], src, flip(rng, data), 'search')
    for _ in range(400):
        cases += gen_history(rng)
    bad = [o for o in evaluate(cases) if not o.prop_ok]
    if bad:
        o = shrink(ctx, bad[0], evaluate)
        return Violation('implementation differs from the property oracle (found by search)',
                         {'kind': 'failing-input', 'outcome': o.to_json()})
    return None


# ---------------------------------------------------------------- document level (real runs of two documents)

@contextlib.contextmanager
def _quiet_cwd(d):
    cwd = os.getcwd()
    err, out = os.dup(2), os.dup(1)
    devnull = os.open(os.devnull, os.O_WRONLY)
    sys.stdout.flush(); sys.stderr.flush()
    os.chdir(d)
    os.dup2(devnull, 2); os.dup2(devnull, 1)
    try:
        yield
    finally:
        sys.stdout.flush(); sys.stderr.flush()
        os.dup2(err, 2); os.dup2(out, 1)
        os.close(err); os.close(out); os.close(devnull)
        os.chdir(cwd)


def run_document(d, tex, renderer, split):
    """one real run (parse + render) of d/tex; returns None or the exception that escaped"""
    from plasTeX.Compile import run
    from plasTeX.Config import defaultConfig
    config = defaultConfig()
    config['general']['renderer'] = renderer
    config['files']['split-level'] = split
    config['files']['log'] = False
    with _quiet_cwd(d), guarded():
        try:
            run(tex, config)
        except Exception as e:
            return e
    return None


def doc_scenario(sc):
    """sc: {'labels': [[kind, label, title]...], 'renderers': [...], 'damage': [kind, arg], 'seed': n}
    returns a list of failure strings (empty = the property holds on this scenario)"""
    import html as htmlmod, re
    rng = random.Random(sc['seed'])
    A, B = sc.get('names', ['a', 'b'])      # A: the document whose labels are saved; B: the document referring to them
    fails = []
    d = tempfile.mkdtemp(prefix='c20doc-')
    try:
        body = [_label_tex(kind, lab, title) for kind, lab, title in sc['labels']]
        open(os.path.join(d, A + '.tex'), 'w').write('\\documentclass{article}\n\\begin{document}\n%s\n\\end{document}\n' % '\n'.join(body))
        # B has a label of its own and refers to every label of A: through the .paux files of the directory (Compile.parse),
        # or, when sc['xr'], through the xr package (\\externaldocument[X-]{A}, labels prefixed)
        OWN = 'own:b'
        xr = bool(sc.get('xr'))
        open(os.path.join(d, B + '.tex'), 'w').write('\\documentclass{article}\n%s\\begin{document}\n\\section{Other}\\label{%s}\n%s\n\\end{document}\n' % (
            '\\usepackage{xr}\n\\externaldocument[X-]{%s}\n' % A if xr else '', OWN,
            '\n'.join('R(\\ref{%s%s})' % ('X-' if xr else '', lab) for k, lab, _ in sc['labels'] if k not in UNNUMBERED)))
        paux = os.path.join(d, A + '.paux')
        labs = [lab for _, lab, _ in sc['labels']]

        def load():
            try:
                with guarded():
                    return pickle.load(open(paux, 'rb'))
            except BaseException:
                return None

        def check_complete(when, rs):
            v = load()
            for r in rs:
                if not (isinstance(v, dict) and isinstance(v.get(r), dict) and all(l in v[r] and isinstance(v[r][l], dict) for l in labs)):
                    fails.append('%s: a.paux is not a complete, loadable file for %s' % (when, r))
            return v

        def check_exact(when, name, rs_, expected):
            """a saved file holds exactly the labels of the document that saved it"""
            try:
                with guarded():
                    w = pickle.load(open(os.path.join(d, name + '.paux'), 'rb'))
            except BaseException as e:
                fails.append('%s: %s.paux does not load (%r)' % (when, name, e)); return
            for r in rs_:
                got = sorted(w[r]) if isinstance(w, dict) and isinstance(w.get(r), dict) else None
                if got != sorted(expected):
                    fails.append('%s: %s.paux holds the labels %r for %s, the document defines %r' % (when, name, got, r, sorted(expected)))

        def check_refs(when, r, v):
            e = run_document(d, B + '.tex', r, -100)
            if e is not None:
                fails.append('%s: processing b.tex under %s failed: %r' % (when, r, e)); return
            check_exact(when, B, [r], [OWN])
            if v is None:
                return
            ext = 'index.html'
            try:
                out = open(os.path.join(d, B, ext), encoding='utf-8').read()
            except Exception as e:
                fails.append('%s: no output of b.tex (%r)' % (when, e)); return
            got = re.findall(r'R\(<a href="([^"]*)">(.*?)</a>\)', out, re.S)
            want = [(v[r][l].get('url'), v[r][l].get('ref')) for k_, l, _ in sc['labels'] if k_ not in UNNUMBERED]
            got = [(htmlmod.unescape(a), b) for a, b in got]
            if got != want:
                fails.append('%s: references of b.tex under %s resolve to %r, saved labels say %r' % (when, r, got[:6], want[:6]))

        rs = sc['renderers']
        for r in rs:
            e = run_document(d, A + '.tex', r, 2)
            if e is not None:
                fails.append('first run of a.tex under %s failed: %r' % (r, e))
        v = check_complete('after the first runs', rs)
        check_exact('after the first runs', A, rs, labs)
        if fails:
            return fails
        check_refs('intact file', rs[0], v)
        # damage
        kind, arg = sc['damage']
        data = open(paux, 'rb').read()
        if kind == 'trunc': new = data[:int(arg * len(data))]
        elif kind == 'flip': new = flip(random.Random(arg), data)
        elif kind == 'foreign': new = gen_foreign(random.Random(arg))
        elif kind == 'empty': new = b''
        elif kind == 'delete': new = None
        else: new = data
        if new is None: os.remove(paux)
        else: open(paux, 'wb').write(new)
        for r in rs:                                    # another document is processed while the file is damaged
            e = run_document(d, B + '.tex', r, -100)
            if e is not None:
                fails.append('damage %s: processing b.tex under %s failed: %r' % (kind, r, e))
        e = run_document(d, A + '.tex', rs[0], 2)          # the next save
        if e is not None:
            fails.append('damage %s: re-running a.tex under %s failed: %r' % (kind, rs[0], e))
        v = check_complete('after damage %s and the next save' % kind, rs[:1])
        if v is not None and not fails:
            check_refs('after damage %s and the next save' % kind, rs[0], v)
        return fails
    finally:
        shutil.rmtree(d, ignore_errors=True)


def gen_doc_scenario(rng):
    labels, used = [], set()
    for _ in range(rng.randint(1, 5)):
        kind = rng.choice(DOC_KINDS)
        lab = rng.choice(['sec', 'eq', 'fig']) + rng.choice([':', '-']) + rng.choice(['intro', 'one', 'main', 'a', 'b2', 'xy'])
        if lab in used: continue
        used.add(lab)
        labels.append([kind, lab, rng.choice(['Intro', 'Main result', 'On $x$', 'A \\& B', 'Two words'])])
    rs = rng.choice([['HTML5'], ['HTML5'], ['HTML5', 'XHTML'], ['XHTML', 'HTML5']])
    kind = rng.choice(['trunc', 'flip', 'foreign', 'empty', 'delete', 'none'])
    arg = rng.random() if kind == 'trunc' else rng.randrange(1 << 30)
    # document names, including pairs in a prefix/suffix relation (the own .paux is told apart from the others by name)
    names = rng.choice([['a', 'b'], ['a', 'b'], ['part-intro', 'intro'], ['intro', 'part-intro'], ['xa', 'a'], ['doc', 'doc2'], ['b.c', 'c']])
    xr = rng.random() < 0.4
    if xr:
        rs = rs[:1]            # xr reads the sections of all renderers (known finding xr-mixes-renderers)
    return {'labels': labels, 'renderers': rs, 'damage': [kind, arg], 'names': names, 'xr': xr, 'seed': rng.randrange(1 << 30)}


# ---------------------------------------------------------------- one document object, several renders

MULTI_RENDERERS = ['HTML5', 'XHTML', 'Text', 'DocBook', 'HTML5']


UNNUMBERED = ('subsubsection', 'paragraph', 'subparagraph')   # below the default sec-num-depth (2): the labelled node has no number and no caption name
DOC_KINDS = ['section', 'subsection', 'subsubsection', 'paragraph', 'subparagraph', 'equation', 'figure']


def _label_tex(kind, lab, title):
    if kind in ('section', 'subsection', 'subsubsection', 'paragraph', 'subparagraph'):
        return '\\%s{%s}\\label{%s}\nText.' % (kind, title, lab)
    if kind == 'equation':
        return '\\begin{equation}x=1\\label{%s}\\end{equation}' % lab
    return '\\begin{figure}\\caption{%s}\\label{%s}\\end{figure}' % (title, lab)


def _doc_source(labels):
    body = [_label_tex(kind, lab, title) for kind, lab, title in labels]
    return '\\documentclass{article}\n\\begin{document}\n%s\n\\end{document}\n' % '\n'.join(body)


def render_sequence(work, source, steps):
    """parse a.tex once in `work`, then render the SAME document object once per step (renderer, split-level, base-url),
    each into its own directory; returns (a.paux as loaded after each step, exception or None)"""
    from plasTeX.Compile import parse, load_renderer
    from plasTeX.Config import defaultConfig
    os.makedirs(work)
    open(os.path.join(work, 'a.tex'), 'w', encoding='utf-8').write(source)
    snaps = []
    with _quiet_cwd(work), guarded():
        try:
            config = defaultConfig()
            config['general']['renderer'] = steps[0][0]
            config['general']['copy-theme-extras'] = False
            config['images']['imager'] = 'none'
            config['images']['vector-imager'] = 'none'
            config['files']['log'] = False
            document = parse('a.tex', config).ownerDocument
            for i, (rname, split, base) in enumerate(steps):
                config['general']['renderer'] = rname
                config['files']['split-level'] = split
                config['document']['base-url'] = base
                out = os.path.join(work, 'out-%d' % i)
                os.makedirs(out)
                os.chdir(out)
                load_renderer(rname, config).render(document)
                os.chdir(work)
                snaps.append(pickle.load(open(os.path.join(work, 'a.paux'), 'rb')))
        except Exception as e:
            return snaps, e
    return snaps, None


def multi_scenario(sc):
    """sc: {'kind': 'multi', 'labels': [...], 'steps': [[renderer, split-level, base-url]...]}.
    "Separately per renderer": what the k-th render of one document object saves under its renderer is what that
    renderer saves when it renders the document on its own with the same settings (same labels, numbers, titles, target
    locations), the sections of the other renderers stay as they were, and every saved target names a file this render wrote."""
    fails = []
    top = tempfile.mkdtemp(prefix='c20multi-')
    try:
        source = _doc_source(sc['labels'])
        steps = [tuple(x) for x in sc['steps']]
        snaps, e = render_sequence(os.path.join(top, 'both'), source, steps)
        if e is not None:
            return ['rendering one document %d times failed at step %d: %r' % (len(steps), len(snaps), e)]
        for i, (rname, split, base) in enumerate(steps):
            alone, e = render_sequence(os.path.join(top, 'only-%d' % i), source, [steps[i]])
            if e is not None:
                return ['rendering the document alone with %r failed: %r' % (steps[i], e)]
            want = alone[0].get(rname)
            got = snaps[i].get(rname) if isinstance(snaps[i], dict) else None
            if got != want:
                bad = sorted(k for k in set(want or {}) | set(got or {}) if (got or {}).get(k) != (want or {}).get(k))
                k = bad[0] if bad else None
                fails.append('render %d (%s, split-level %s) of the same document saved %r for label %r; %s on its own saves %r' % (
                    i, rname, split, (got or {}).get(k), k, rname, (want or {}).get(k)))
            if i > 0 and isinstance(snaps[i], dict) and isinstance(snaps[i - 1], dict):
                for r2, sec in snaps[i - 1].items():
                    if r2 != rname and snaps[i].get(r2) != sec:
                        fails.append('render %d under %s changed the saved section of %s' % (i, rname, r2))
            # (DocBook and S5 name a file of its own for every labelled node and write only one: observation, not judged here)
            for k, rec in sorted((got or {}).items()) if rname in ('HTML5', 'XHTML', 'Text') else []:
                url = str(rec.get('url') or '')
                if base:
                    if not url.startswith(base.rstrip('/') + '/'):
                        fails.append('render %d (%s): target %r of %r lacks the base url %r' % (i, rname, url, k, base))
                    url = url[len(base.rstrip('/')) + 1:]
                target = url.split('#')[0]
                if not os.path.isfile(os.path.join(top, 'both', 'out-%d' % i, target)):
                    fails.append('render %d (%s): the saved target %r of label %r is not a file this render wrote' % (i, rname, rec.get('url'), k))
        return fails
    finally:
        shutil.rmtree(top, ignore_errors=True)


def gen_multi_scenario(rng):
    labels, used = [], set()
    for _ in range(rng.randint(2, 6)):
        kind = rng.choice(DOC_KINDS + ['equation'])
        lab = rng.choice(['sec', 'eq', 'fig']) + rng.choice([':', '-']) + rng.choice(['intro', 'one', 'main', 'a', 'b2', 'xy'])
        if lab in used: continue
        used.add(lab)
        labels.append([kind, lab, rng.choice(['Intro', 'Main result', 'A \\& B', 'Two words'])])
    steps = []
    for _ in range(rng.choice([2, 2, 3])):
        steps.append([rng.choice(MULTI_RENDERERS), rng.choice([-10, 0, 1, 2, 2, 3]), rng.choice(['', '', '', 'http://example.org/doc', 'https://h.example/a/'])])
    return {'kind': 'multi', 'labels': labels, 'steps': steps}


def extra_checks(ctx):
    n = 8 if ctx.tier == 'quick' else 40
    viol, samples, nontriv = [], [], 0
    for i in range(n):
        sc = gen_doc_scenario(ctx.rng)
        if i == 0:
            sc['names'] = ['part-intro', 'intro']     # always: the referring document's name is a suffix of the saved one's
        if i == 1:
            sc['xr'], sc['renderers'], sc['damage'] = True, sc['renderers'][:1], ['flip', sc['damage'][1] if isinstance(sc['damage'][1], int) else 7]
        fails = doc_scenario(sc)
        ctx.count('doc-damage:' + sc['damage'][0])
        nontriv += 1
        if i < 2:
            samples.append({'scenario': sc, 'failures': fails})
        if fails:
            viol.append(Violation('document level: ' + fails[0], {'kind': 'failing-input', 'extra': sc, 'failures': fails}))
            break
    # one parsed document rendered several times (renderers / file settings change between the renders)
    m = 5 if ctx.tier == 'quick' else 30
    for i in range(m if not viol else 0):
        sc = gen_multi_scenario(ctx.rng)
        if i == 0:
            sc['steps'] = [['HTML5', 2, ''], ['Text', 2, '']]
            if not any(k in ('equation', 'figure') for k, _, _ in sc['labels']):
                sc['labels'].append(['equation', 'eq:always', 'x'])
        fails = multi_scenario(sc)
        ctx.count('doc-multi-render:%d' % len(sc['steps']))
        nontriv += 1
        if i < 1:
            samples.append({'scenario': sc, 'failures': fails})
        if fails:
            viol.append(Violation('document level: ' + fails[0], {'kind': 'failing-input', 'extra': sc, 'failures': fails}))
            break
    return viol, {'evaluations': n + m, 'distinct_nontrivial': nontriv, 'samples': samples,
                  'what': 'a.tex rendered (split files), a.paux damaged, b.tex (\\ref to every label of a.tex) rendered, a.tex re-rendered; '
                          'one parsed document rendered 2-3 times under changing renderers / split levels / base urls and compared with each render on its own'}


def replay_extra(ctx, extra):
    if extra.get('kind') == 'multi':
        return bool(multi_scenario(extra))
    return bool(doc_scenario(extra))
