"""C03 - Conditionals process exactly the branch TeX would select.

streams (see lean/PlasVerif/Driver/C03.lean for the word formats)
  cond     : programs of the Spec grammar (trees of conditionals of every listed form, depth<=4, with/without
             \\else, \\ifcase with in- and out-of-range selectors, marker counters stepped in the branches,
             \\newif switches and setters, groups).  The driver flattens the tree, runs Model.run and Spec.den;
             the implementation side spells the tree as a LaTeX document (parts of it moved into macro
             bodies, macro parameters and command arguments), parses it with the real interpreter and
             observes textContent, the final counter values and the switch states.
  ifscanwf : one conditional tree + trailing tokens, as real tokens fed to the real
             TeX.processIfContent(which); observation = the token stream left on the input.
  ifscan   : arbitrary (also unbalanced) token lists through processIfContent: implementation vs model only.
  newif    : names handed to the real Context.newif on a fresh context: the macro names it registers (switch, true-setter,
             false-setter) and whether the setters drive the switch; model = newifNames, spec = TeX's \\<rest>true/\\<rest>false.
  invoke   : the real ifnum/ifdim/ifodd/ifcase .invoke on real token lists (processIfContent replaced by a recorder on the
             TeX instance): selector + stream left; model = Model.IfInvoke.invoke (Macro.parse + readInteger/readDimen + relation chain).
  condraw  : the same followed by the real processIfContent over arbitrary control-sequence names (\\file, \\orange, \\iffy,
             \\newiffy, expanded look-ahead elements ...): model = condInvoke (classify = the macroName chain of the scanner).
  testlit  : literal-structured operands of TeX's grammar (signs, decimal/octal/hex/character constants, registers, every
             dimension form with pt/pc/sp) with the TeX oracle on the literal values.
  extra    : two documents in one process (a switch of the same name starts false again) and two runs over one document.
  toks     : arbitrary (also unbalanced) token lists as documents: implementation vs model only.
"""
import logging, random
from framework import Case, Violation

ID = 'C03'
LEAN_MODULE = 'PlasVerif.Properties.C03'
LEVEL_TEXT = ('Lean 4 theorems over a line-by-line model of TeX.processIfContent, of the expansion loop around it and of the test primitives: '
              'scan_flatten / inner_never_terminates_outer prove, for conditional trees of any depth and any continuation, that the branch scanner '
              'returns exactly the top-level branches and stops at the matching \\fi (an inner \\or/\\else/\\fi never splits or ends an outer conditional); '
              'processIf_selects (+ bool_true/bool_false/case_in_range/case_out_of_range) prove that the input stream afterwards is exactly the branch '
              'TeX\'s rule selects followed by the rest, every other branch dropped unexpanded, for every selector including negative and too large ones; '
              'conditionals_process_selected_branch / program_run_eq_den prove by mutual structural induction that running any program of the grammar '
              '(all nestings, any interpretation of tests and token effects, any start state) equals the denotation that executes only selected branches; '
              'true_conditional_is_its_then_branch / false_conditional_is_its_else_branch state the no-text-no-side-effect clause directly; '
              'ifnum/ifdim/ifodd/ifx/ifdefined/ifcase and the \\newif triple are proved against TeX\'s rules on the modelled operands. '
              'The model is tied to the code by differential execution of real token lists through processIfContent and of real documents '
              '(text, counters, switches observed). Operand scanning (readInteger/readDimen), macro expansion, argument parsing and grouping are carried by the document stream only.')
LEVEL_NOTE = ('Trusted: Lean kernel (axioms propext, Classical.choice, Quot.sound only), the correspondence harness and its generators (depth<=4, '
              'seeded), CPython. Modelled not verified: readInteger/readDimen on \\relax-terminated literals, \\value, macro-produced numbers; '
              'expansion of macro bodies/arguments around conditionals; global scope of counters and switches. '
              'Not covered: \\ifmmode/\\ifhmode/\\ifvmode/\\ifinner/\\ifvoid/\\ifeof/\\ifcat/\\if/\\ifcsname (not in the property\'s list); '
              'O4: any macro whose name starts with "if" (e.g. \\ifthenelse) is counted as a conditional by the skipper (recorded, outside the listed forms).')
TECHNIQUE = 'Lean 4 proof (mutual structural induction on conditional trees, well-founded interpreter) + differential correspondence (component and document level)'
TRUSTED = ['operand scanning of \\ifnum/\\ifdim/\\ifodd/\\ifcase is modelled at token level (Model/IfInvoke.lean over the C05 models of Macro.parse, readInteger, readDimen) and tied by the invoke/condraw/testlit streams; '
           '\\value, macro expansion, the XTok reading of \\ifx and argument parsing of the surrounding commands are tied by the cond stream only',
           'scope of counters, \\newif switches and \\gdef (global) is an assumption of the model tied by the cond stream (groups are generated)']
ASSUMPTIONS = ['NF-prog 2 is narrowed after the D59 repair: a number may be ended by \\relax, by a blank before a letter, or directly by \\or/\\else/\\fi; '
               'it is still never followed directly by a macro whose expansion has an effect (O5: the look-ahead of readInteger would run it)',
               '\\edef is a lazy \\def in plasTeX (a state-dependent conditional in an \\edef body is evaluated at use, not at definition): not generated, recorded',
               '\\newcount/\\newdimen registers used as operands are assigned in the preamble only (their scope is C04/C17 matter); '
               'an integer literal directly followed by a count register (a product in plasTeX, not a TeX <number>) is not generated',
               'NF-prog (DESIGN.md section 5): number/dimension literals are \\relax-terminated, conditionals well nested in every macro body, argument and group',
               'a boolean conditional contains no \\or at its own level; \\ifx compares two letters or two parameterless macros with plain-text bodies',
               'dimension literals are exactly representable (integer sp, multiples of 0.5pt)',
               'switches are tested only after their \\newif was executed; a switch is declared at most once',
               'nesting depth sampled up to 4 (the theorems cover every depth)']
RULE = ('trees of the Spec grammar generated recursively from the seed (depth<=4) with random initial counter values; non-trivial = spec defined '
        '(well-formed tree, no error) and the tree contains at least one conditional (cond) / the conditional has a defined selection (ifscanwf); '
        'distinct = distinct driver request line')
EXHAUSTIVE = {}
CASE_TIMEOUT = 20

logging.disable(logging.CRITICAL)

NCOUNTERS, NSWITCHES, NREGS = 6, 3, 3
TEXTCHARS = 'ABCDEFGHIJKLMNOPQRSTUVWXYZabcdefghijklmnopqrstuvwxyz0123456789'

# ---------------------------------------------------------------- words <-> trees

def letters(n):
    s = ''
    n = int(n)
    while True:
        s = chr(97 + n % 26) + s
        n = n // 26
        if n == 0:
            return s


def op_w(o):
    if o[0] == '-': return '-' + op_w(o[1])
    if o[0] == 'k': return 'k%dx%d' % (o[1], o[2])
    return o[0] + str(o[1])
def xt_w(x): return 'c%d' % x[1] if x[0] == 'c' else 'm' + '.'.join([str(x[1])] + [str(c) for c in x[2]])


def test_w(t):
    k = t[0]
    if k in 'TF': return k
    if k == 'N': return 'N:%s:%s:%s' % (op_w(t[1]), t[2], op_w(t[3]))
    if k == 'D': return 'D:%s:%s:%s' % (op_w(t[1]), t[2], op_w(t[3]))
    if k in 'OK': return '%s:%s' % (k, op_w(t[1]))
    if k == 'X': return 'X:%s:%s' % (xt_w(t[1]), xt_w(t[2]))
    if k in 'GS': return '%s:%d' % (k, t[1])
    raise ValueError(t)


def act_w(a):
    k = a[0]
    if k in '{}': return k
    if k in 'csg': return '%s%d' % (k, a[1])
    if k == 'a': return 'a%d:%d' % (a[1], a[2])
    if k == 'w': return 'w%d:%d' % (a[1], 1 if a[2] else 0)
    raise ValueError(a)


def item_w(i):
    if i[0] == 't': return ['t' + act_w(i[1])]
    if i[0] == 'n': return ['n%d' % i[1]]
    _, t, he, cases, e = i
    out = ['c' + test_w(t), '1' if he else '0', str(len(cases))]
    for b in cases:
        out += body_w(b)
    if he:
        out += body_w(e)
    return out


def body_w(b):
    out = ['[']
    for i in b:
        out += item_w(i)
    return out + [']']


def p_op(s):
    if s[0] == '-': return ['-', p_op(s[1:])]
    if s[0] == 'k':
        a, b = s[1:].split('x')
        return ['k', int(a), int(b)]
    return [s[0], int(s[1:])]
def p_xt(s):
    if s[0] == 'c': return ['c', int(s[1:])]
    parts = s[1:].split('.')
    return ['m', int(parts[0]), [int(x) for x in parts[1:]]]


def p_test(s):
    f = s.split(':')
    k = f[0]
    if k in 'TF': return [k]
    if k == 'N': return ['N', p_op(f[1]), f[2], p_op(f[3])]
    if k == 'D': return ['D', p_op(f[1]), f[2], p_op(f[3])]
    if k in 'OK': return [k, p_op(f[1])]
    if k == 'X': return ['X', p_xt(f[1]), p_xt(f[2])]
    if k in 'GS': return [k, int(f[1])]
    raise ValueError(s)


def p_act(s):
    if s in '{}': return [s]
    k = s[0]
    if k in 'csg': return [k, int(s[1:])]
    f = s[1:].split(':')
    if k == 'a': return ['a', int(f[0]), int(f[1])]
    if k == 'w': return ['w', int(f[0]), f[1] == '1']
    raise ValueError(s)


def p_body(w, i):
    assert w[i] == '[', w[i]
    i += 1
    out = []
    while w[i] != ']':
        it, i = p_item(w, i)
        out.append(it)
    return out, i + 1


def p_item(w, i):
    x = w[i]
    if x[0] == 't': return ['t', p_act(x[1:])], i + 1
    if x[0] == 'n': return ['n', int(x[1:])], i + 1
    t = p_test(x[1:])
    he, n = w[i + 1] == '1', int(w[i + 2])
    i += 3
    cases = []
    for _ in range(n):
        b, i = p_body(w, i)
        cases.append(b)
    e = []
    if he:
        e, i = p_body(w, i)
    return ['c', t, he, cases, e], i


# ---------------------------------------------------------------- generation

class Env:
    def __init__(self, rng):
        self.rng = rng
        self.fresh = NSWITCHES


def gen_operand(rng, lo=-2, hi=6):
    """TeX's <number>: optional signs, then a literal, \\value, a macro-produced literal or a \\newcount register"""
    r = rng.random()
    if r < 0.18: return ['-', gen_operand(rng, lo, hi)]
    if r < 0.50: return ['l', rng.randint(lo, hi)]
    if r < 0.72: return ['c', rng.randrange(NCOUNTERS)]
    if r < 0.86: return ['r', rng.randrange(NREGS)]
    return ['m', rng.randint(lo, hi)]


DIMS = [0, 1, 3, 32768, 65536, 98304, 65536 * 3, 65536 * 12, 655360, 65537]


def gen_doperand(rng):
    """TeX's <dimen>: optional signs, then a literal, a \\newdimen register or an integer factor times one"""
    r = rng.random()
    if r < 0.18: return ['-', gen_doperand(rng)]
    if r < 0.62: return ['l', rng.choice([1, -1, 1, 1]) * rng.choice(DIMS)]
    if r < 0.86: return ['r', rng.randrange(NREGS)]
    return ['k', rng.randint(0, 3), rng.randrange(NREGS)]


def gen_xtok(rng):
    if rng.random() < 0.5:
        return ['c', ord(rng.choice('abcxyz12.!*'))]      # two character tokens: letters, digits, punctuation
    return ['m', rng.randrange(2), [ord(c) for c in rng.choice(['', 'a', 'ab', 'ba', 'abc', 'xy'])]]


def gen_test(rng, switches):
    r = rng.random()
    if r < 0.08: return ['T']
    if r < 0.16: return ['F']
    if r < 0.38: return ['N', gen_operand(rng), rng.choice(['lt', 'gt', 'eq']), gen_operand(rng)]
    if r < 0.48:
        a = gen_doperand(rng)
        return ['D', a, rng.choice(['lt', 'gt', 'eq']), a if rng.random() < 0.2 else gen_doperand(rng)]
    if r < 0.58: return ['O', gen_operand(rng, -5, 9)]
    if r < 0.76: return ['K', gen_operand(rng, -3, 7)]
    if r < 0.84:
        a = gen_xtok(rng)
        b = gen_xtok(rng)
        if b[0] != a[0]:            # NF-prog 4: same kind
            b = gen_xtok(rng) if rng.random() < 0.5 else list(a)
            if b[0] != a[0]: b = list(a)
        if a[0] == 'm' and rng.random() < 0.3: b = ['m', 1 - a[1], list(a[2])]
        return ['X', a, b]
    if r < 0.9: return ['G', rng.randrange(5)]
    return ['S', rng.choice(switches)]


def gen_act(rng, switches):
    r = rng.random()
    if r < 0.5: return ['c', ord(rng.choice(TEXTCHARS))]
    if r < 0.68: return ['s', rng.randrange(NCOUNTERS)]
    if r < 0.78: return ['a', rng.randrange(NCOUNTERS), rng.randint(-3, 4)]
    if r < 0.94: return ['w', rng.choice(switches), rng.random() < 0.5]
    return ['g', rng.randrange(5)]


def gen_body(env, depth, switches, maxitems=4):
    rng = env.rng
    switches = list(switches)
    out = []
    for _ in range(rng.randint(0, maxitems)):
        r = rng.random()
        if depth > 0 and r < 0.42:
            t = gen_test(rng, switches)
            n = rng.randint(1, 4) if t[0] == 'K' else 1
            if rng.random() < 0.1:
                # every branch adds a number to one counter: may be written \addtocounter{c}{\if.. n1\else n2\fi}
                # (the conditional is then expanded by readInteger while the argument is read)
                c = rng.randrange(NCOUNTERS)
                out.append(['c', t, True, [[['t', ['a', c, rng.randint(-3, 9)]]] for _ in range(n)], [['t', ['a', c, rng.randint(-3, 9)]]]])
                continue
            he = rng.random() < 0.6
            cases = [gen_body(env, depth - 1, switches, 3) for _ in range(n)]
            e = gen_body(env, depth - 1, switches, 3) if he else []
            out.append(['c', t, he, cases, e])
        elif r < 0.47 and env.fresh < 40:
            k = env.fresh
            env.fresh += 1
            out.append(['n', k])
            switches.append(k)
            if depth > 0 and rng.random() < 0.6:      # a fresh switch is tested right away (initially false), then maybe set
                out.append(['c', ['S', k], rng.random() < 0.7, [[['t', ['c', ord('Y')]], ['t', ['s', 0]]]], [['t', ['c', ord('N')]]]])
        elif r < 0.53:
            out.append(['t', ['{']])
            out.extend(gen_body(env, depth, switches, 2))
            out.append(['t', ['}']])
        else:
            out.append(['t', gen_act(rng, switches)])
    return out


def gen_init(rng):
    """initial state word: counters ; count registers ; dimen registers (sp)"""
    cs = [rng.randint(-1, 4) for _ in range(NCOUNTERS)]
    rs = [rng.randint(-3, 6) for _ in range(NREGS)]
    ds = [rng.choice([1, -1, 1]) * rng.choice(DIMS) for _ in range(NREGS)]
    return ';'.join(','.join(str(x) for x in l) for l in (cs, rs, ds))


def parse_init(w):
    parts = [[int(x) for x in p.split(',')] for p in w.split(';')]
    while len(parts) < 3:
        parts.append([])
    return [p + [0] * (n - len(p)) for p, n in zip(parts, (NCOUNTERS, NREGS, NREGS))]


def mk_cond(init, body, seed):
    if not isinstance(init, str):
        init = ','.join(str(x) for x in init)
    return Case('cond', init + ' ' + ' '.join(body_w(body)), {'seed': seed})


def gen_cond_case(rng, origin='gen'):
    env = Env(rng)
    body = gen_body(env, rng.choice([1, 2, 2, 3, 3, 4, 4]), list(range(NSWITCHES)))
    c = mk_cond(gen_init(rng), body, rng.randrange(1 << 30))
    c.origin = origin
    return c


def gen_single_case(rng):
    """one conditional of a chosen form with rich operands, followed by a marker"""
    env = Env(rng)
    t = gen_test(rng, list(range(NSWITCHES)))
    n = rng.randint(1, 5) if t[0] == 'K' else 1
    he = rng.random() < 0.5
    pre = [['t', gen_act(rng, [0, 1, 2])] for _ in range(rng.randint(0, 2))]
    cases = [gen_body(env, 1, [0, 1, 2], 2) + [['t', ['c', 48 + i]], ['t', ['s', i % NCOUNTERS]]] for i in range(n)]
    e = [['t', ['c', ord('E')]], ['t', ['a', 5, 7]]] if he else []
    return mk_cond(gen_init(rng), pre + [['c', t, he, cases, e], ['t', ['c', ord('Z')]]], rng.randrange(1 << 30))


def gen_wf_case(rng):
    env = Env(rng)
    n = rng.choice([1, 1, 2, 3, 4])
    he = rng.random() < 0.6
    cases = [gen_body(env, rng.randint(0, 3), [0, 1, 2], 3) for _ in range(n)]
    e = gen_body(env, rng.randint(0, 2), [0, 1, 2], 3) if he else []
    t = ['K', ['l', 0]] if n > 1 or rng.random() < 0.3 else gen_test(rng, [0, 1, 2])
    if t[0] == 'K':
        w = str(rng.randint(-3, n + 2))
    else:
        w = rng.choice('TF')
    return Case('ifscanwf', '%s %d %s' % (w, rng.randint(0, 3), ' '.join(item_w(['c', t, he, cases, e]))), {})


RAW = ['fi', 'else', 'or', 'newif', 'iT', 'iF', 'iK:l1', 'iS:0', 'iS:1', 'iN:l1:lt:l2', 'iN:c1:gt:l1', 'iO:c2', 'iG:0',
       'oc65', 'oc66', 'oc67', 'oc68', 'os0', 'os1', 'ow0:1', 'ow1:0', 'oa2:2']


def gen_raw_tokens(rng, doc):
    k = rng.randint(0, 12)
    out = []
    depth = 0
    while len(out) < k:
        r = rng.random()
        if r < 0.35:
            w = rng.choice(['iT', 'iF', 'iK:l1', 'iK:c3', 'iK:l-1', 'iK:-r1', 'iN:-r0:lt:-c1', 'iD:-r0:lt:k2x1', 'iS:0', 'iS:1', 'iN:l1:lt:l2', 'iN:c1:gt:l1', 'iO:c2', 'iG:0', 'iG:3'])
            if doc and rng.random() < 0.04: w = 'iN:l1:bad:l2'
            depth += 1
        elif r < 0.55: w = 'fi'
        elif r < 0.65: w = 'else'
        elif r < 0.72: w = 'or'
        elif r < 0.76 and not doc:
            w = 'newif'
        elif r < 0.78 and doc:
            out += ['newif', 'iS:%d' % rng.choice([0, 1, 7, 8])]
            continue
        else:
            w = rng.choice(['oc65', 'oc66', 'oc67', 'oc68', 'os0', 'os1', 'ow0:1', 'ow1:0', 'oa2:2', 'og3'])
        out.append(w)
    return out


def generate(ctx):
    rng = ctx.rng
    quick = ctx.tier == 'quick'
    n = 2600 if quick else 20000
    for _ in range(n):
        yield gen_cond_case(rng)
    for _ in range(n // 3):
        yield gen_single_case(rng)
    for _ in range(n):
        yield gen_wf_case(rng)
    for _ in range(n // 2):            # malformed / arbitrary (about 15% of all cases)
        w = rng.choice(['T', 'F', 'F'] + [str(i) for i in range(-3, 6)])
        yield Case('ifscan', w + ' ' + ' '.join(gen_raw_tokens(rng, False)), {})
    for _ in range(n // 3):            # the test primitives with their operand scanning, on real tokens
        k, ws = gen_invoke5(rng, False)
        yield Case('invoke', k + ' ' + ' '.join(ws), {})
    for _ in range(n // 3):            # ... followed by the real branch scan over arbitrary control sequence names
        k, ws = gen_invoke5(rng, True)
        yield Case('condraw', k + ' ' + ' '.join(ws), {})
    for _ in range(n // 3):            # literal-structured operands (every integer form of TeX's grammar) with the TeX oracle
        k = rng.choice(['num', 'num', 'odd', 'case', 'dim'])
        if k == 'dim':
            la, lb = gen_dim_pair(rng)
            lit = la[0] + [str(ord(rng.choice('<>=')))] + lb[0]
        else:
            lit = gen_intlit5(rng, k == 'case')
        if k == 'num':
            lit += [str(ord(rng.choice('<>=')))] + gen_intlit5(rng)
        tail = gen_tail5(rng, rng.randint(0, 3))
        if rng.random() < 0.7 or (tail and any(t in [w_cs(a) for a in ACTIVE] for t in tail[:4])): tail = [w_cs('relax')] + tail
        yield Case('testlit', k + ' ' + ' '.join(lit) + ' | ' + ' '.join(tail), {})
    for _ in range(n // 10):           # names handed to Context.newif: the part after `if` starts with i / f / if / fi ... or anything
        rest = ''.join(rng.choice('iiffffoaxtrue') for _ in range(rng.randint(0, 6))) + 'Q' + ''.join(rng.choice('XYZ') for _ in range(2))
        r = rng.random()
        name = 'if' + rest if r < 0.85 else rng.choice(['fi', 'i', 'f', 'x', '']) + rest      # ~15% not of the form if<rest>
        yield Case('newif', ' '.join(str(ord(c)) for c in name), {})
    for _ in range(n // 6):
        yield Case('toks', gen_init(rng) + ' ' + ' '.join(gen_raw_tokens(rng, True)), {'seed': rng.randrange(1 << 30)})


def _corpus_files():
    import os, json, glob
    d = os.path.join(os.path.dirname(os.path.dirname(os.path.dirname(os.path.abspath(__file__)))), 'corpus', 'C03')
    out = []
    for f in sorted(glob.glob(os.path.join(d, '*.json'))):
        w = json.load(open(f))
        if 'case' in w:
            out.append(Case.from_json(w['case'], 'corpus'))
    return out


def corpus():
    return _corpus_files() + _corpus_inline()


def _corpus_inline():
    z = '0,0,0,0,0,0'
    mk = lambda s, l, m=None: Case(s, l, m if m is not None else {'seed': 1}, 'corpus')
    return [
        # D2 witnesses: \ifcase 5 a\or b\fi X ; \ifcase 3 a\or b\else c\fi X ; \ifcase -1 a\or b\else c\fi X
        mk('cond', z + ' [ cK:l5 0 2 [ tc97 ] [ tc98 ] tc88 ]'),
        mk('cond', z + ' [ cK:l3 1 2 [ tc97 ] [ tc98 ] [ tc99 ] tc88 ]'),
        mk('cond', z + ' [ cK:l-1 1 2 [ tc97 ] [ tc98 ] [ tc99 ] tc88 ]'),
        mk('cond', z + ' [ cK:l-2 0 3 [ tc97 ts0 ] [ tc98 ts1 ] [ tc99 ts2 ] tc88 ]'),
        mk('ifscan', '5 oc97 or oc98 fi oc88', {}),
        mk('ifscan', '3 oc97 or oc98 else oc99 fi oc88', {}),
        mk('ifscan', '-1 oc97 or oc98 else oc99 fi oc88', {}),
        mk('ifscan', 'T newif', {}),
        mk('ifscan', 'F oc65 newif iS:4 iS:4 oc66 fi else oc67 fi oc68', {}),
        mk('ifscanwf', '2 1 cK:l0 1 2 [ tc65 cF 1 1 [ tc66 ] [ tc67 ] ] [ cK:l1 0 2 [ ] [ tc68 ] ] [ tc69 ]', {}),
        # nesting: inner \else/\fi inside skipped and taken branches
        mk('cond', z + ' [ cF 1 1 [ cT 1 1 [ tc65 ts0 ] [ tc66 ts1 ] tc67 ] [ cT 0 1 [ tc68 ] ts2 ] tc88 ]'),
        mk('cond', '1,2,3,4,5,6 [ cN:c0:lt:c1 1 1 [ ts0 ts0 cN:c0:lt:c1 1 1 [ tc65 ] [ tc66 ] ] [ tc67 ] n5 cS:5 1 1 [ tc68 ] [ tw5:1 cS:5 0 1 [ tc69 ] ] ]'),
        # signed internal quantities: -\\reg, --\\reg, -\\value, -\\dimreg, 2\\dimreg (readInteger/readDimen sign handling)
        mk('cond', '0,0,0,2,0,0;3,-2,0;131072,-65536,0 [ cN:-r0:lt:l0 1 1 [ tc78 ] [ tc80 ] cK:-r1 1 4 [ tc48 ] [ tc49 ] [ tc50 ] [ tc51 ] [ tc69 ] '
                   'cD:-r0:eq:l-131072 1 1 [ tc89 ] [ tc90 ] cN:--r0:eq:l3 0 1 [ tc68 ] cO:-c3 1 1 [ tc79 ] [ tc69 ] cD:-k2x1:gt:r0 1 1 [ tc71 ] [ tc76 ] cK:-r0 1 2 [ tc97 ] [ tc98 ] [ tc99 ] ]'),
        # \newif\iffoo -> \footrue/\foofalse, \newif\ififiQ, \newif\iffirstQ (names after `if` starting with i / f)
        mk('newif', ' '.join(str(ord(c)) for c in 'iffooQ'), {}),
        mk('newif', ' '.join(str(ord(c)) for c in 'ififiQ'), {}),
        mk('newif', ' '.join(str(ord(c)) for c in 'iffirstQ'), {}),
        mk('cond', z + ' [ tw0:1 cS:0 1 1 [ tc84 ] [ tc70 ] tw1:1 tw1:0 cS:1 1 1 [ tc84 ] [ tc70 ] n3 tw3:1 cS:3 1 1 [ tc84 ] [ tc70 ] ]', {'seed': 7}),
        mk('cond', z + ' [ tw0:1 cS:0 1 1 [ tc84 ] [ tc70 ] tw1:1 tw1:0 cS:1 1 1 [ tc84 ] [ tc70 ] n3 tw3:1 cS:3 1 1 [ tc84 ] [ tc70 ] ]', {'seed': 30}),
        # a number directly followed by \or / \fi / \else (no \relax): the look-ahead of readInteger hands the scanner an element
        mk('cond', z + ' [ cK:l1 0 2 [ ] [ tc66 ] tc88 ]', {'seed': 3, 'bare': 1.0}),
        mk('cond', z + ' [ cO:l2 0 1 [ ] tc88 ]', {'seed': 3, 'bare': 1.0}),
        mk('cond', z + ' [ cK:l0 1 2 [ ] [ tc66 ] [ tc67 ] tc88 ]', {'seed': 5, 'bare': 1.0}),
        mk('cond', z + ' [ cN:l2:lt:l1 0 1 [ ] tc88 ]', {'seed': 5, 'bare': 1.0}),
        mk('condraw', 'case c49 x102.105 c88', {}),
        # dimensions that differ by less than one scaled point: 0.00001pt > 0pt, 1.5pt = 1.50001pt, a register holding 0.00001pt
        mk('cond', '0,0,0,0,0,0;0,0,0;1,150000,0 [ cD:l1:gt:l0 1 1 [ tc89 ] [ tc78 ] cD:l150000:eq:l150001 1 1 [ tc89 ] [ tc78 ] '
                   'cD:r0:eq:l0 1 1 [ tc89 ] [ tc78 ] cD:-l1:lt:l0 1 1 [ tc89 ] [ tc78 ] cD:k2x0:gt:r0 0 1 [ tc71 ] ]', {'seed': 4, 'fine': True}),
        mk('testlit', 'dim M S 0 0 B 0 p 0.0.0.0.1 U 0 - p0 112.116 0 62 M S 0 0 B 0 n - U 0 - p0 112.116 0 | x114.101.108.97.120', {}),
        mk('testlit', 'dim M S 0 0 B 1 p 5 U 0 - p0 112.116 0 61 M S 0 0 B 1 p 5.0.0.0.1 U 0 - p0 112.116 0 | x114.101.108.97.120', {}),
        mk('toks', z + ' iF oc65', {'seed': 1}),
        mk('toks', z + ' fi oc65 else oc66 or oc67', {'seed': 1}),
    ]


def nontrivial(o):
    if not o.spec.startswith('ok:'):
        return False
    if o.case.stream == 'cond':
        return len(o.aux) > 1 and o.aux[1] not in ('0', '')
    return o.case.stream in ('ifscanwf', 'newif', 'testlit')


# ---------------------------------------------------------------- spelling (tree -> LaTeX)

CNT = ['c' + chr(97 + i) for i in range(NCOUNTERS)]
REG = ['rg' + chr(97 + i) for i in range(NREGS)]      # \newcount registers
DREG = ['dg' + chr(97 + i) for i in range(NREGS)]     # \newdimen registers
# switch names vary with the case: the part after `if` may itself begin with i / f / fi, contain `true`, `else`, `or` ...
SWPRE = ['sw', 'foo', 'first', 'item', 'fi', 'i', 'f', 'ff', 'final', 'index', 'fif', 'or', 'else', 'true', 'xfalse', 'bar',
         'Draft', 'fit', 'iii', 'fff', 'fiif', 'newif', 'relax', 'I', 'F']


def swname(k, ns=0):
    """name (without the leading `if`) of switch k under naming seed ns; unique per k"""
    r = SWPRE[(ns // 7 + 5 * k + ns % 7) % len(SWPRE)] + letters(k) + 'q'
    if r.startswith('if'):          # the setter \if..true would itself look like a conditional to the skipper (O4, record only)
        r = 'sw' + letters(k) + 'q'
    return r
def nmname(n): return 'nm' + ('m' if n < 0 else 'p') + letters(abs(n))
def xtname(x): return 'xt' + letters(x[1]) + 'q' + ''.join(chr(c) for c in x[2])


class Speller:
    def __init__(self, seed, plain=False, bare=0.35, fine=False):
        self.rng = random.Random(seed)
        self.fine = fine            # dimensions are written in units of 0.00001pt (0.65536 sp) instead of whole sp
        self.bare = bare            # how often a number is terminated as authors do (\else/\or/\fi, or a blank) instead of \relax
        self.ns = seed              # naming seed of the \newif switches
        self.plain = plain          # no wrappers (used for the toks stream)
        self.pre = {}               # macro name -> definition text
        self.nmac = 0

    def fresh(self, p):
        self.nmac += 1
        return p + letters(self.nmac)

    def num(self, n):
        r = self.rng.random()
        if n >= 0 and r < 0.08: return '+%d' % n
        if n >= 0 and r < 0.14: return '00%d' % n
        if n < 0 and r < 0.1: return '- %d' % -n
        if n > 0 and r < 0.2: return '--%d' % n
        return str(n)

    def operand(self, o, param=None):
        """returns (text, needs a terminating \\relax)"""
        if o[0] == '-':
            inner, need = self.operand(o[1], param)
            return '-' + (' ' if self.rng.random() < 0.3 else '') + inner, need
        if o[0] == 'r': return '\\%s' % REG[o[1]] + (' ' if self.rng.random() < 0.3 else ''), True
        if o[0] == 'l': return self.num(o[1]), True
        if o[0] == 'c': return '\\value{%s}' % CNT[o[1]], True     # NF-prog 2 (O5): also after \value
        if param is not None and param[0] is o:
            return param[1], True
        name = nmname(o[1])
        self.pre[name] = '\\def\\%s{%d}' % (name, o[1])
        return '\\' + name + (' ' if self.rng.random() < 0.5 else ''), True

    def dim(self, o):
        if o[0] == '-': return '-' + (' ' if self.rng.random() < 0.3 else '') + self.dim(o[1])
        if o[0] == 'r': return '\\%s' % DREG[o[1]] + (' ' if self.rng.random() < 0.3 else '')
        if o[0] == 'k': return '%d\\%s' % (o[1], DREG[o[2]]) + (' ' if self.rng.random() < 0.3 else '')
        v = o[1]
        if self.fine:
            return fine_pt(v)
        opts = ['%dsp' % v]
        if v % 65536 == 0: opts += ['%dpt' % (v // 65536)] * 3
        elif v % 32768 == 0: opts += [('-' if v < 0 else '') + '%d.5pt' % (abs(v) // 65536)] * 3
        return self.rng.choice(opts)

    def xtok(self, x):
        if x[0] == 'c': return chr(x[1])
        name = xtname(x)
        self.pre[name] = '\\def\\%s{%s}' % (name, ''.join(chr(c) for c in x[2]))
        return '\\' + name + ' '

    def rel(self, r):
        s = {'lt': '<', 'gt': '>', 'eq': '=', 'bad': '?'}[r]
        return s if self.rng.random() < 0.6 else ' ' + s + ' '

    def test(self, t, param=None):
        k = t[0]
        if k == 'T': return '\\iftrue '
        if k == 'F': return '\\iffalse '
        if k == 'N':
            a, _ = self.operand(t[1], param)
            b, _ = self.operand(t[3], param)
            return '\\ifnum %s%s%s\\relax ' % (a, self.rel(t[2]), b)
        if k == 'D': return '\\ifdim %s%s%s\\relax ' % (self.dim(t[1]), self.rel(t[2]), self.dim(t[3]))
        if k in 'OK':
            a, need = self.operand(t[1], param)
            return '\\%s %s%s' % ('ifodd' if k == 'O' else 'ifcase', a, '\\relax ' if need else ' ')
        if k == 'X': return '\\ifx %s%s' % (self.xtok(t[1]), self.xtok(t[2]))
        if k == 'G': return '\\ifdefined\\df%s ' % letters(t[1])
        if k == 'S': return '\\if%s ' % swname(t[1], self.ns)
        raise ValueError(t)

    def act(self, a):
        k = a[0]
        if k == 'c': return chr(a[1])
        if k == 's': return '\\stepcounter{%s}' % CNT[a[1]]
        if k == 'a': return '\\addtocounter{%s}{%d}' % (CNT[a[1]], a[2])
        if k == 'w': return '\\%s%s ' % (swname(a[1], self.ns), 'true' if a[2] else 'false')
        if k == 'g': return '\\gdef\\df%s{}' % letters(a[1])
        if k == '{': return '{' if self.rng.random() < 0.7 else '\\begingroup '
        if k == '}': return '}'
        raise ValueError(a)

    def item(self, i, indef):
        rng = self.rng
        if i[0] == 't': return self.act(i[1])
        if i[0] == 'n': return '\\newif\\if%s ' % swname(i[1], self.ns)
        _, t, he, cases, e = i
        param = None
        if not self.plain and not indef and rng.random() < 0.25:
            ops = [m for m in (find_mac(o) for o in t[1:]) if m is not None] if t[0] in 'NOK' else []
            if ops:
                param = (ops[0], '#1')
        if not self.plain and t[0] != 'D' and rng.random() < 0.3 and all(pure_letters(b) for b in cases + [e]):
            return self.csname_item(t, he, cases, e)
        if not self.plain and he and rng.random() < 0.6 and number_branches(cases + [e]) and not ends_with_macro_number(t):
            # the conditional inside a number that is being scanned: \addtocounter{c}{\if.. n1\or n2\else n3\fi}
            s = self.test(t)
            if s.endswith('\\relax '):
                s = s[:-len('\\relax ')] + ' '
            s += '\\or '.join(str(b[0][1][2]) for b in cases) + '\\else ' + str(e[0][1][2]) + '\\fi'
            return '\\addtocounter{%s}{%s}' % (CNT[e[0][1][1]], s)
        inner_indef = indef or param is not None
        s = self.test(t, param)
        bodies = [self.body(b, inner_indef) for b in cases]
        if not self.plain and t[0] in 'NOKD' and s.endswith('\\relax ') and rng.random() < self.bare:
            # the operand is terminated the way authors write it: directly by \or/\else/\fi when the first branch is
            # empty (TeX ends the number there), or by one blank before a letter
            if bodies[0] == '':
                s = s[:-len('\\relax ')] + rng.choice(['', ' '])
            elif bodies[0][0].isalpha() and t[0] != 'D':
                s = s[:-len('\\relax ')] + ' '
        s += '\\or '.join(bodies)
        if he:
            s += '\\else ' + self.body(e, inner_indef)
        s += '\\fi ' if rng.random() < 0.8 else '\\fi\\relax '
        if param is not None:
            name = self.fresh('pm')
            return '\\def\\%s#1{%s}\\%s{%d}' % (name, s, name, param[0][1])
        return s

    def csname_item(self, t, he, cases, e):
        """a conditional whose branches are plain words, evaluated inside \\csname ... \\endcsname (the name is built by the
        expanding iteration of csname.invoke): \\csname csq<selected word>\\endcsname, with \\def\\csq<word>{<word>}"""
        words = [''.join(chr(it[1][1]) for it in b) for b in cases] + ([''.join(chr(it[1][1]) for it in e)] if he else [])
        for w in words + ['']:
            self.pre['csq' + w] = '\\def\\csq%s{%s}' % (w, w)
        s = self.test(t)
        if s.endswith('\\relax '):       # no \relax inside a name: the number ends at a blank or at \or/\else/\fi
            s = s[:-len('\\relax ')] + ('' if words[0] == '' else ' ')
        s += '\\or '.join(words[:len(cases)])
        if he:
            s += '\\else ' + words[-1]
        return '\\csname csq' + s + '\\fi\\endcsname '

    def body(self, b, indef):
        """spell a body; random contiguous brace-balanced segments go into macro bodies / arguments"""
        rng = self.rng
        # fix group spelling: a `{` spelled \begingroup needs \endgroup
        out = []
        i = 0
        n = len(b)
        stack = []
        while i < n:
            if not self.plain and rng.random() < 0.18:
                j = rng.randint(i + 1, n)
                seg = b[i:j]
                if balanced(seg):
                    # inside a macro body or an argument no `#` is written (indef=True blocks parameter wrappers)
                    inner = self.body_plain(seg, True, stack)
                    r = rng.random()
                    if r < 0.5:
                        name = self.fresh('mb')
                        out.append('\\def\\%s{%s}\\%s ' % (name, inner, name))
                    elif r < 0.75:
                        out.append('\\emph{%s}' % inner)
                    elif r < 0.9 and not indef:
                        name = self.fresh('ap')
                        out.append('\\def\\%s#1{#1}\\%s{%s}' % (name, name, inner))
                    elif r < 0.93:
                        out.append('\\%s{%s}' % (rng.choice(['textbf', 'mbox', 'underline', 'textit']), inner))
                    else:       # an environment (its own group and digestion loop)
                        env = rng.choice(['center', 'quote'])
                        out.append('\\begin{%s}%s\\end{%s}' % (env, inner, env))
                    i = j
                    continue
            out.append(self.one(b[i], indef, stack))
            i += 1
        return ''.join(out)

    def one(self, it, indef, stack):
        if it[0] == 't' and it[1][0] == '{':
            s = self.act(it[1])
            stack.append('}' if s == '{' else '\\endgroup ')
            return s
        if it[0] == 't' and it[1][0] == '}':
            return stack.pop() if stack else '}'
        return self.item(it, indef)

    def body_plain(self, seg, indef, _outer):
        stack = []
        # nested wrappers allowed through self.body on sub-bodies of conditionals only
        return ''.join(self.one(it, indef, stack) for it in seg)


def number_branches(bodies):
    return all(len(b) == 1 and b[0][0] == 't' and b[0][1][0] == 'a' and b[0][1][1] == bodies[0][0][1][1] for b in bodies) \
        if all(len(b) == 1 and b[0][0] == 't' for b in bodies) else False


def ends_with_macro_number(t):
    """the last operand of the test is a macro producing digits: the digits of the branch would be appended to it"""
    if t[0] == 'N': o = t[3]
    elif t[0] in 'OK': o = t[1]
    else: return False
    return find_mac(o) is not None


def pure_letters(b):
    return all(it[0] == 't' and it[1][0] == 'c' and chr(it[1][1]).isalpha() for it in b)


def find_mac(o):
    """the macro-produced literal inside an operand (under any signs), if any"""
    while isinstance(o, list) and o and o[0] == '-':
        o = o[1]
    return o if isinstance(o, list) and o and o[0] == 'm' else None


def balanced(seg):
    d = 0
    for it in seg:
        if it[0] == 't' and it[1][0] == '{': d += 1
        if it[0] == 't' and it[1][0] == '}':
            d -= 1
            if d < 0: return False
    return d == 0


def fine_pt(v):
    """the model's integer dimension v written in units of 0.00001pt: v = 150001 -> 1.50001pt, v = -1 -> -0.00001pt.
    Comparisons are scale invariant (theorem ifdim_scale_invariant), so the model is unchanged; differences below one
    scaled point now decide the branch."""
    return '%s%d.%05dpt' % ('-' if v < 0 else '', abs(v) // 100000, abs(v) % 100000)


def _dim_tests(body):
    for it in body:
        if it[0] == 'c':
            if it[1][0] == 'D':
                yield it[1]
            for b in it[3] + [it[4]]:
                for t in _dim_tests(b):
                    yield t


def fine_ok(body, dregs):
    """the fine unit may be used when the float arithmetic of the code decides every \\ifdim of the program as exact
    arithmetic does (3\\reg computed in floats need not equal the literal of the same value)"""
    fl = lambda v: float(fine_pt(v)[:-2]) * 65536.0
    def val(o):
        if o[0] == '-':
            e, f = val(o[1]); return -e, -f
        if o[0] == 'l': return o[1], fl(o[1])
        if o[0] == 'r': return dregs[o[1]], fl(dregs[o[1]])
        return o[1] * dregs[o[2]], float(o[1]) * fl(dregs[o[2]])
    for t in _dim_tests(body):
        (ea, fa), (eb, fb) = val(t[1]), val(t[3])
        if (ea < eb) != (fa < fb) or (ea == eb) != (fa == fb):
            return False
    return True


def preamble(init, sp, cls, regs_in_tex=True):
    s = '\\documentclass{article}' if cls else ''
    s += '\\begin{document}'
    cs, rs, ds = init
    if not regs_in_tex:          # the registers are created through Context.newcount/newdimen by run_document
        rs, ds = [], []
    for i, v in enumerate(cs):
        s += '\\newcounter{%s}\\setcounter{%s}{%d}' % (CNT[i], CNT[i], v)
    for i, v in enumerate(rs):
        s += '\\newcount\\%s \\%s=%d\\relax ' % (REG[i], REG[i], v)
    for i, v in enumerate(ds):
        s += '\\newdimen\\%s \\%s=%s\\relax ' % (DREG[i], DREG[i], fine_pt(v) if sp.fine else '%dsp' % v)
    for k in range(NSWITCHES):
        s += '\\newif\\if%s ' % swname(k, sp.ns)
    s += '\\def\\dfa{}\\def\\dfb{}'
    s += ''.join(sp.pre[k] for k in sorted(sp.pre))
    return s


# ---------------------------------------------------------------- implementation side

def canon_exc(e):
    n = type(e).__name__
    return 'err:' + n if n in ('IndexError', 'ValueError', 'StopIteration', 'UnboundLocalError', 'TypeError', 'AttributeError') else 'err:other:' + n


def run_document(src, ns=0, regs=None):
    from plasTeX.TeX import TeX
    from plasTeX import TeXDocument
    doc = TeXDocument()
    tex = TeX(doc)
    if regs is not None:
        # a register assignment inside a document keeps the whole document reachable after the run (plasTeX-level retention,
        # about 240 objects each): most documents get their registers through the Python API instead, 1 in 8 by \newcount/\newdimen
        for i, v in enumerate(regs[0]): doc.context.newcount(REG[i], v)
        for i, v in enumerate(regs[1]): doc.context.newdimen(DREG[i], v)      # an int (sp) or a string such as '0.00003pt'
    tex.input(src)
    try:
        try:
            tex.parse()
        except Exception as e:
            return canon_exc(e)
        els = doc.getElementsByTagName('document')
        text = ''.join((els[0].textContent if els else doc.textContent).split())
        cnts = ','.join(str(int(doc.context.counters[c].value)) for c in CNT)
        sws = ''.join('1' if doc.context['if' + swname(k, ns)].state else '0' for k in range(NSWITCHES))
        return 'ok:%s|%s|%s' % ('.'.join(str(ord(c)) for c in text), cnts, sws)
    finally:
        _release(doc, tex)


def _release(doc, tex):
    """plasTeX keeps a finished document's Context reachable when \\newif classes were created (about 230 objects per
    switch); empty it so that a thorough run stays small.  Harness hygiene only, nothing is observed afterwards."""
    try:
        ctx = doc.context
        for c in list(ctx.contexts):
            c.clear()
        ctx.__dict__.clear()
        tex.__dict__.clear()
    except Exception:
        pass


def tok_tex(w, sp):
    if w in ('fi', 'else', 'or'): return '\\%s ' % w
    if w == 'newif': return '\\newif'
    if w[0] == 'i': return sp.test(p_test(w[1:]))
    return sp.act(p_act(w[1:]))


_warn = []


def _patch_log():
    import plasTeX.TeX as T
    if getattr(T.log, '_c03', False):
        return
    orig = T.log.warning
    def warning(msg, *a, **k):
        if 'was incomplete' in str(msg):
            _warn.append(1)
    T.log.warning = warning
    T.log._c03 = True


def real_tokens(words):
    """each word becomes one or more real tokens; returns (tokens, owner) with owner[id(tok)] = (word index, sub index, group size)"""
    from plasTeX.Tokenizer import EscapeSequence, Letter, Other, Space
    toks, owner = [], {}
    ns = len(words) * 13        # naming seed of the switches in this token list
    def add(wi, group):
        for si, t in enumerate(group):
            owner[id(t)] = (wi, si, len(group))
            toks.append(t)
    def num(n): return [Other(c) for c in str(n)] + [EscapeSequence('relax')]
    def dopnd(o):
        if o[0] == '-': return [Other('-')] + dopnd(o[1])
        if o[0] == 'r': return [EscapeSequence(DREG[o[1]])]
        if o[0] == 'k': return [Other(c) for c in str(o[1])] + [EscapeSequence(DREG[o[2]])]
        return [Other(c) for c in '%dsp' % o[1]]
    def opnd(o):
        if o[0] == '-': return [Other('-')] + opnd(o[1])
        if o[0] == 'r': return [EscapeSequence(REG[o[1]])]
        if o[0] == 'l': return num(o[1])
        if o[0] == 'c': return [EscapeSequence('value'), Other('{'), Letter('c'), Letter(chr(97 + o[1])), Other('}')]
        return [EscapeSequence(nmname(o[1]))]
    for wi, w in enumerate(words):
        if w in ('fi', 'else', 'or', 'newif'):
            add(wi, [EscapeSequence(w)])
        elif w[0] == 'i':
            t = p_test(w[1:])
            k = t[0]
            if k == 'T': g = [EscapeSequence('iftrue')]
            elif k == 'F': g = [EscapeSequence('iffalse')]
            elif k == 'N': g = [EscapeSequence('ifnum')] + opnd(t[1]) + [Other({'lt': '<', 'gt': '>', 'eq': '=', 'bad': '?'}[t[2]])] + opnd(t[3])
            elif k == 'D': g = [EscapeSequence('ifdim')] + dopnd(t[1]) + [Other('<')] + dopnd(t[3]) + [EscapeSequence('relax')]
            elif k == 'O': g = [EscapeSequence('ifodd')] + opnd(t[1])
            elif k == 'K': g = [EscapeSequence('ifcase')] + opnd(t[1])
            elif k == 'X': g = [EscapeSequence('ifx')] + [Letter(chr(x[1])) if x[0] == 'c' else EscapeSequence(xtname(x)) for x in (t[1], t[2])]
            elif k == 'G': g = [EscapeSequence('ifdefined'), EscapeSequence('df' + letters(t[1]))]
            else: g = [EscapeSequence('if' + swname(t[1], ns))]
            add(wi, g)
        else:
            a = p_act(w[1:])
            k = a[0]
            if k == 'c': g = [Letter(chr(a[1])) if chr(a[1]).isalpha() else Other(chr(a[1]))]
            elif k == 's': g = [EscapeSequence('stepcounter'), Other('{'), Letter('c'), Letter(chr(97 + a[1])), Other('}')]
            elif k == 'a': g = [EscapeSequence('addtocounter'), Other('{'), Letter('c'), Letter(chr(97 + a[1])), Other('}'), Other('{')] + [Other(c) for c in str(a[2])] + [Other('}')]
            elif k == 'w': g = [EscapeSequence(swname(a[1], ns) + ('true' if a[2] else 'false'))]
            elif k == 'g': g = [EscapeSequence('gdef'), EscapeSequence('df' + letters(a[1])), Other('{'), Other('}')]
            elif k == '{': g = [EscapeSequence('begingroup')]
            else: g = [EscapeSequence('endgroup')]
            add(wi, g)
    return toks, owner


def run_processif(which, words):
    from plasTeX.TeX import TeX
    from plasTeX import TeXDocument, number
    _patch_log()
    doc = TeXDocument()
    tex = TeX(doc)
    toks, owner = real_tokens(words)
    tex.input(toks)
    w = True if which == 'T' else False if which == 'F' else number(int(which))
    del _warn[:]
    try:
        tex.processIfContent(w)
    except StopIteration as e:
        return canon_exc(e)
    except Exception as e:
        return canon_exc(e)
    left = list(tex.itertokens())
    out, i, broken = [], 0, False
    while i < len(left):
        o = owner.get(id(left[i]))
        if o is None or o[1] != 0:
            broken = True
            i += 1
            continue
        wi, _, size = o
        for j in range(size):
            if i + j >= len(left) or owner.get(id(left[i + j])) != (wi, j, size):
                broken = True
        out.append(words[wi])
        i += size
    return 'ok:%d:%s%s' % (0 if _warn else 1, ' '.join(out), ' !broken' if broken else '')


def run_newif(name):
    """the real Context.newif on a fresh context: which macro names appear, and do the setters drive the switch"""
    import plasTeX
    from plasTeX import TeXDocument
    doc = TeXDocument()
    ctx = doc.context
    try:
        before = set(ctx.keys())
        try:
            ctx.newif(name)
        except Exception as e:
            return canon_exc(e)
        new = [k for k in ctx.keys() if k not in before]
        kinds = {'sw': [], 't': [], 'f': []}
        for k in new:
            obj = ctx[k]
            cls = obj if isinstance(obj, type) else type(obj)
            if issubclass(cls, plasTeX.NewIf): kinds['sw'].append(k)
            elif issubclass(cls, plasTeX.IfTrue): kinds['t'].append(k)
            elif issubclass(cls, plasTeX.IfFalse): kinds['f'].append(k)
        if sorted(len(v) for v in kinds.values()) != [1, 1, 1] or len(new) != 3:
            return 'bad:new-names:' + ','.join(sorted(new))
        sw, t, f = kinds['sw'][0], kinds['t'][0], kinds['f'][0]
        swc = ctx[sw] if isinstance(ctx[sw], type) else type(ctx[sw])
        drives = swc.state is False
        doc.createElement(t).invoke(None); drives = drives and swc.state is True
        doc.createElement(f).invoke(None); drives = drives and swc.state is False
        if not drives:
            return 'bad:setters-do-not-drive-the-switch'
        dots = lambda x: '.'.join(str(ord(c)) for c in x)
        return 'ok:%s|%s|%s' % (dots(sw), dots(t), dots(f))
    finally:
        try:
            for c in list(ctx.contexts):
                c.clear()
            ctx.__dict__.clear()
        except Exception:
            pass


# ---- token-level streams: the real test primitives on real token lists (word format of Driver/C05.lean)

def dots(s):
    return '.'.join(str(ord(c)) for c in s) if s else '-'


def reg_name5(v):
    return 'rg' + ('m' if v < 0 else '') + ''.join(chr(ord(d) + 49) for d in str(abs(v)))


def real_tokens5(words, doc, regkind):
    from plasTeX.Tokenizer import Letter, Other, Space, BeginGroup, EndGroup, EscapeSequence
    import plasTeX
    out = []
    for w in words:
        if w == 's': out.append(Space(' '))
        elif w == '{': out.append(BeginGroup('{'))
        elif w == '}': out.append(EndGroup('}'))
        elif w[0] == 'c':
            ch = chr(int(w[1:]))
            out.append(Letter(ch) if ch.isalpha() else Other(ch))
        elif w[0] == 'x':
            out.append(EscapeSequence(''.join(chr(int(x)) for x in w[1:].split('.')) if w != 'x-' else ''))
        elif w[0] == 'r':
            v = int(w[1:])
            name = reg_name5(v)
            if regkind == 'count':
                cls = type(name, (plasTeX.CountCommand,), {'value': plasTeX.count(v)})
            else:
                cls = type(name, (plasTeX.DimenCommand,), {'value': plasTeX.dimen(v)})
            doc.context[name] = cls
            out.append(EscapeSequence(name))
        else:
            raise ValueError(w)
    return out


KIND_MACRO = {'num': 'ifnum', 'dim': 'ifdim', 'odd': 'ifodd', 'case': 'ifcase'}


def run_invoke(kind, words, full):
    """the real primitive's invoke on a real token list.  full=False: processIfContent is replaced (on this TeX
    instance) by a recorder, observation = selector + the stream left; full=True: the real processIfContent runs,
    observation = correctly_terminated + the stream left."""
    from plasTeX.TeX import TeX
    from plasTeX import TeXDocument, ParameterCommand
    _patch_log()
    ParameterCommand._enablelevel = 0
    ParameterCommand.enabled = True
    doc = TeXDocument()
    tex = TeX(doc)
    try:
        tex.input(real_tokens5(words, doc, 'dimen' if kind == 'dim' else 'count'))
        obj = doc.createElement(KIND_MACRO[kind])
        rec = []
        if not full:
            tex.processIfContent = lambda which, debug=False: rec.append(which)
        del _warn[:]
        try:
            obj.invoke(tex)
        except StopIteration as e:
            return canon_exc(e)
        except Exception as e:
            return canon_exc(e)
        rest = 'rest:' + '.'.join(str(ord(c)) for c in ''.join(t.source for t in tex.itertokens()))
        if full:
            return 'ok:%d|%s' % (0 if _warn else 1, rest)
        if len(rec) != 1:
            return 'bad:processIfContent-called-%d-times' % len(rec)
        w = rec[0]
        ws = ('b1' if w else 'b0') if isinstance(w, bool) else 'n%d' % int(w)
        return 'ok:%s|%s' % (ws, rest)
    finally:
        ParameterCommand._enablelevel = 0
        ParameterCommand.enabled = True
        _release(doc, tex)


def w_ch(c): return 'c%d' % ord(c)
def w_cs(name): return 'x' + dots(name)


def gen_signs5(rng):
    n = rng.choice([0, 0, 0, 1, 1, 2, 3])
    return ['S', str(rng.choice([0, 0, 0, 1])), str(n)] + ['%s%d' % (rng.choice('mmp'), rng.choice([0, 0, 1, 2])) for _ in range(n)]


def gen_intlit5(rng, small=False):
    """an integer literal of TeX's grammar in the word format of Driver/C05.lean: signs, then a decimal / octal /
    hexadecimal / character constant or a register, then the optional blank"""
    kind = rng.choice(['d', 'd', 'd', 'o', 'h', 'c', 'C', 'r'])
    sp = rng.random() < 0.4
    if kind == 'd': v = '.'.join(str(rng.randrange(10)) for _ in range(rng.randint(1, 1 if small else 4)))
    elif kind == 'o': v = '.'.join(str(rng.randrange(8)) for _ in range(rng.randint(1, 3)))
    elif kind == 'h': v = '.'.join(str(rng.randrange(16)) for _ in range(rng.randint(1, 3)))
    elif kind == 'c': v, sp = str(ord(rng.choice('aAzZ09.;*[q'))), False
    elif kind == 'C': v, sp = str(ord(rng.choice('aAzZ%$^'))), False
    else: v, sp = str(rng.choice([0, 1, 2, 3, 5, -7, -2, 12, 65536])), False
    return ['I'] + gen_signs5(rng) + [kind, v, '1' if sp else '0']


def gen_dimlit5(rng, near=None):
    """a dimension literal of TeX's grammar in the word format of Driver/C05.lean (units pt / pc / sp, registers and register
    multiples; fractions of every kind, also far below one scaled point: 0.00001pt, .3sp).  near = a literal (as returned
    by this function) of which a variant differing in the fifth decimal is wanted.  Returns (words, exact value in sp)."""
    from fractions import Fraction
    if near is not None and near[0][near[0].index('B') if 'B' in near[0] else 0] == 'B':
        w = list(near[0])
        i = w.index('B')
        ip, sep, fp = w[i + 1], w[i + 2], w[i + 3]
        digs = [] if fp == '-' else fp.split('.')
        digs = (digs + ['0'] * 5)[:max(len(digs), 4)] + [str(rng.choice([1, 1, 3, 9]))]
        w[i + 1], w[i + 2], w[i + 3] = ip, ('p' if sep == 'n' else sep), '.'.join(digs)
        return w, dimlit_value(w)
    sg = gen_signs5(rng)
    if rng.random() < 0.2:
        w = ['M'] + sg + ['R', str(rng.choice([0, 1, 65536, -32768, 98304, 786432]))]
        return w, dimlit_value(w)
    ip = rng.choice(['0', '1', '2', '3', '1.2', '-', '7', '0', '1'])
    r = rng.random()
    FP = ['5', '2.5', '7.5', '0', '0.0.0.0.1', '5.0.0.0.1', '3', '0.0.0.3', '9.9.9.9.9', '1.2.5', '0.0.0.0.0.1']
    if ip == '-': sep, fp = rng.choice('cp'), rng.choice(FP)
    elif r < 0.4: sep, fp = 'n', '-'
    else: sep, fp = rng.choice('cp'), rng.choice(['-'] + FP)
    if rng.random() < 0.15:
        unit = ['0', '-', 'r%d' % rng.choice([1, 65536, -32768, 3]), '-', '0']
    else:
        i, name = rng.choice([(0, 'pt'), (0, 'pt'), (0, 'pt'), (1, 'pc'), (8, 'sp')])
        spell = ''.join(ch.upper() if rng.random() < 0.2 else ch for ch in name)
        tru = '-' if rng.random() < 0.8 else dots(''.join(ch.upper() if rng.random() < 0.3 else ch for ch in 'true')) + '/' + str(rng.choice([0, 1]))
        unit = [str(rng.choice([0, 0, 1])), tru, 'p%d' % i, dots(spell), rng.choice('01')]
    w = ['M'] + sg + ['B', ip, sep, fp, 'U'] + unit
    return w, dimlit_value(w)


def dimlit_value(w):
    """exact value (Fraction, sp) of a dimension literal in the word format above"""
    from fractions import Fraction
    n = int(w[3])
    minus = sum(1 for x in w[4:4 + n] if x[0] == 'm')
    r = w[4 + n:]
    if r[0] == 'R':
        v = Fraction(int(r[1]))
    else:
        ip, fp, kind = r[1], r[3], r[7]
        dec = Fraction(int(''.join(ip.split('.'))) if ip != '-' else 0)
        if fp != '-':
            d = fp.split('.')
            dec += Fraction(int(''.join(d)), 10 ** len(d))
        unit = {'p0': 65536, 'p1': 12 * 65536, 'p8': 1}.get(kind)
        if unit is None:
            unit = int(kind[1:])
        v = dec * unit
    return -v if minus % 2 else v


def gen_dim_pair(rng):
    """two dimension literals whose comparison is decided alike by exact and by float arithmetic: identical spellings, or values
    that differ by more than float noise - but possibly by far less than one scaled point"""
    a = gen_dimlit5(rng)
    for _ in range(20):
        r = rng.random()
        if r < 0.15: b = (list(a[0]), a[1])
        elif r < 0.45: b = gen_dimlit5(rng, near=a)
        else: b = gen_dimlit5(rng)
        if b[0] == a[0] or abs(a[1] - b[1]) > max(abs(a[1]), abs(b[1]), 1) * 1e-9:
            return (a, b) if rng.random() < 0.5 else (b, a)
    return a, (list(a[0]), a[1])


CSNAMES = ['relax', 'iftrue', 'iffalse', 'ifx', 'ifnum', 'iffoo', 'ifthenelse', 'if', 'ifi', 'fi', 'fi', 'fi', 'file', 'fil', 'fill', 'f',
           'else', 'else', 'elsewhere', 'els', 'or', 'or', 'orange', 'o', 'newif', 'newiffy', 'new', 'footrue', 'iffy', 'IF', 'If', 'FI', 'Else']


# names whose expansion does something (a scanner's look-ahead `for t in self` would run them: O5 / NF-prog 2); they may
# stand anywhere in the text the branch scanner reads, but not directly after an operand
ACTIVE = {'iftrue', 'iffalse', 'ifx', 'ifnum', 'if', 'newif', 'fil', 'fill'}


def gen_tail5(rng, n=None, safe=False):
    out = []
    for _ in range(rng.randint(0, 10) if n is None else n):
        r = rng.random()
        if r < 0.45:
            # safe: only defined, \relax-like names (an undefined one in relation position equals every string: UnrecognizedMacro.__eq__)
            name = rng.choice(['relax', 'fi', 'else']) if safe else rng.choice(CSNAMES)
            out.append(w_cs(name))
        elif r < 0.8: out.append(w_ch(rng.choice('abXY019<=>-+\'"`.')))
        elif r < 0.88: out.append('s')
        elif r < 0.94: out.append(rng.choice('{}'))
        else: out.append('r%d' % rng.choice([0, 1, 3, -2, 7]))
    return out


def gen_operand5(rng, dim):
    """operand tokens, mostly of TeX's grammar: signs, digits / radix forms / register, (unit)"""
    out = []
    for _ in range(rng.choice([0, 0, 0, 1, 1, 2])):
        out.append(w_ch(rng.choice('--+')))
        if rng.random() < 0.3: out.append('s')
    r = rng.random()
    if r < 0.2:
        out.append('r%d' % (rng.choice([0, 1, 3, -2, 7, 65536, 98304]) if dim else rng.choice([0, 1, 2, 3, -2, 7])))
        return out
    if dim:
        out += [w_ch(c) for c in rng.choice(['0', '1', '2', '3', '12', '1.5', '.5', '2.25', '1,5', '3.', '0.00001', '1.50001', '.3', '2.00001'])]
        if rng.random() < 0.3: out.append('s')
        if rng.random() < 0.15:
            out.append('r%d' % rng.choice([1, 65536, -32768]))
            return out
        if rng.random() < 0.2: out += [w_ch(c) for c in rng.choice(['true', 'TRUE', 'tRue'])] + (['s'] if rng.random() < 0.5 else [])
        out += [w_ch(c) for c in rng.choice(['pt', 'pt', 'sp', 'pc', 'PT', 'Sp', 'p', ''])]
    elif r < 0.65: out += [w_ch(c) for c in str(rng.choice([0, 1, 2, 3, 7, 12, 97, 255, 1000]))]
    elif r < 0.75: out += [w_ch("'")] + [w_ch(c) for c in rng.choice(['7', '17', '141', '8', ''])]
    elif r < 0.85: out += [w_ch('"')] + [w_ch(c) for c in rng.choice(['F', '1F', 'ff', '61', 'G', ''])]
    else: out += [w_ch('`'), rng.choice([w_ch('a'), w_ch('0'), w_cs('a'), w_cs('%'), 's', w_cs('relax'), '{'])]
    if rng.random() < 0.35: out.append('s')
    return out


def gen_invoke5(rng, full):
    kind = rng.choice(['num', 'num', 'dim', 'odd', 'case', 'case'])
    if rng.random() < 0.12:
        return kind, gen_tail5(rng, safe=True)
    ws = gen_operand5(rng, kind == 'dim')
    if kind in ('num', 'dim'):
        ws.append(rng.choice([w_ch('<'), w_ch('>'), w_ch('='), w_ch('='), w_ch('<'), w_ch('>'), w_ch('?'), w_cs('relax'), w_ch('a')]))   # (an undefined control sequence as relation compares equal to anything: UnrecognizedMacro.__eq__, outside TeX)
        if rng.random() < 0.2: ws.append('s')
        ws += gen_operand5(rng, kind == 'dim')
    tail = gen_tail5(rng, None if full else rng.randint(0, 3))
    if rng.random() < 0.6 or (tail and any(t in [w_cs(a) for a in ACTIVE] for t in tail[:4])): ws.append(w_cs('relax'))
    return kind, ws + tail


def impl(case, aux):
    """one retry when the per-case alarm of the framework fires: a stall of the machine is not a verdict
    (a second timeout is reported as err:timeout by the framework)"""
    try:
        return _impl(case, aux)
    except BaseException as e:
        if type(e).__name__ != 'CaseTimeout':
            raise
        import signal
        signal.alarm(CASE_TIMEOUT)
        return _impl(case, aux)


def _impl(case, aux):
    st = case.stream
    f = case.line.split()
    if st == 'newif':
        return run_newif(''.join(chr(int(x)) for x in f))
    if st == 'invoke':
        return run_invoke(f[0], f[1:], False)
    if st == 'condraw':
        return run_invoke(f[0], f[1:], True)
    if st == 'testlit':
        return run_invoke(f[0], aux[0].split() if aux and aux[0] else [], False)
    if st == 'ifscan':
        return run_processif(f[0], f[1:])
    if st == 'ifscanwf':
        return run_processif(f[0], aux[0].split() if aux and aux[0] else [])
    seed = (case.meta or {}).get('seed', 0)
    init = parse_init(f[0])
    if st == 'cond':
        body, _ = p_body(f, 1)
        fine = (case.meta or {}).get('fine', seed % 3 == 1) and fine_ok(body, init[2])
        sp = Speller(seed, bare=(case.meta or {}).get('bare', 0.35), fine=bool(fine))
        text = sp.body(body, False)
        src = preamble(init, sp, seed % 2 == 0, seed % 8 == 3) + text + '\\end{document}'
        if fine:
            init = [init[0], init[1], [fine_pt(v) for v in init[2]]]
    elif st == 'toks':
        sp = Speller(seed, plain=True)
        text = ''.join(tok_tex(w, sp) for w in f[1:])
        src = preamble(init, sp, seed % 2 == 0, seed % 8 == 3) + text + '\\end{document}'
    else:
        raise ValueError(st)
    if isinstance(case.meta, dict):
        case.meta['tex'] = text
    return run_document(src, seed, None if seed % 8 == 3 else (init[1], init[2]))


def judge(o):
    o.corr_ok = (o.impl == o.model)
    o.prop_ok = (o.spec == '-' or o.impl == o.spec)
    if not o.prop_ok:
        o.note = 'TeX rule (Spec) expects %s' % o.spec


# ---------------------------------------------------------------- documents sharing one process

def _two_docs(name, mode):
    """mode 'fresh': document A creates \\if<name> and sets it true; document B (a new TeXDocument in the same process)
    creates a switch of the same name: it must start false, and A's switch must still be true afterwards.
    mode 'same': a second TeX run over the *same* document continues the job: the switch is still true, no new \\newif needed.
    mode 'nested': A is interrupted in the middle of a false conditional by a complete run of B (re-entrancy of the scanner)."""
    from plasTeX.TeX import TeX
    from plasTeX import TeXDocument
    def text(doc):
        els = doc.getElementsByTagName('document')
        return ''.join((els[0].textContent if els else doc.textContent).split())
    test = '\\if%s T\\else F\\fi ' % name
    docA = TeXDocument(); texA = TeX(docA)
    try:
        texA.input('\\begin{document}\\newif\\if%s %s\\%strue %s\\end{document}' % (name, test, name, test))
        texA.parse()
        obs = [text(docA)]
        if mode == 'same':
            tex2 = TeX(docA)
            tex2.input(test + '\\%sfalse ' % name + test)
            tex2.parse()
            obs.append(''.join(docA.textContent.split())[len(obs[0]):])
            return '|'.join(obs), 'FT|TF'
        docB = TeXDocument(); texB = TeX(docB)
        texB.input('\\begin{document}\\newif\\if%s %s\\end{document}' % (name, test))
        texB.parse()
        obs.append(text(docB))
        obs.append('1' if docA.context['if' + name].state else '0')
        _release(docB, texB)
        return '|'.join(obs), 'FT|F|1'
    finally:
        _release(docA, texA)


def extra_checks(ctx):
    """switch state is per document: a second document in the same process starts from false; a second run over the
    same document continues from the state reached (document-level oracle, not through the driver)"""
    viol, n = [], 0
    names = ['foo', 'first', 'item', 'swa', 'fi', 'draft'] + [swname(k, ctx.rng.randrange(1000)) for k in range(6)]
    samples = []
    for name in names:
        for mode in ('fresh', 'same'):
            n += 1
            try:
                got, want = _two_docs(name, mode)
            except Exception as e:
                got, want = canon_exc(e), 'no exception'
            if len(samples) < 2:
                samples.append({'two_documents': {'name': name, 'mode': mode}, 'observed': got})
            if got != want:
                viol.append(Violation('switch state leaks between documents / is lost between runs of one document',
                                      {'kind': 'failing-input', 'extra': {'name': name, 'mode': mode},
                                       'expected': want, 'observed': got}))
    return viol, {'evaluations': n, 'distinct_nontrivial': n, 'samples': samples}


def replay_extra(ctx, extra):
    try:
        got, want = _two_docs(extra['name'], extra['mode'])
    except Exception:
        return True
    return got != want


# ---------------------------------------------------------------- shrinking and search

def _variants(body):
    """smaller bodies: one item deleted, or a conditional replaced by one of its branches, recursively"""
    for i, it in enumerate(body):
        if not (it[0] == 't' and it[1][0] in '{}'):
            yield body[:i] + body[i + 1:]
        if it[0] == 'c':
            _, t, he, cases, e = it
            for b in cases + ([e] if he else []):
                yield body[:i] + b + body[i + 1:]
            if he:
                yield body[:i] + [['c', t, False, cases, []]] + body[i + 1:]
            if len(cases) > 1:
                for k in range(len(cases)):
                    yield body[:i] + [['c', t, he, cases[:k] + cases[k + 1:], e]] + body[i + 1:]
            for k, b in enumerate(cases):
                for v in _variants(b):
                    yield body[:i] + [['c', t, he, cases[:k] + [v] + cases[k + 1:], e]] + body[i + 1:]
            if he:
                for v in _variants(e):
                    yield body[:i] + [['c', t, he, cases, v]] + body[i + 1:]


def _uses_ok(body, declared):
    """switch tests/setters only after their declaration in the same or an enclosing body"""
    declared = set(declared)
    for it in body:
        if it[0] == 'n': declared.add(it[1])
        elif it[0] == 't' and it[1][0] == 'w' and it[1][1] not in declared: return False
        elif it[0] == 'c':
            if it[1][0] == 'S' and it[1][1] not in declared: return False
            for b in it[3] + [it[4]]:
                if not _uses_ok(b, declared): return False
    return True


def shrink(ctx, o, evaluate):
    if o.case.stream != 'cond':
        return o
    best = o
    for _ in range(40):
        f = best.case.line.split()
        body, _ = p_body(f, 1)
        cands = [v for v in _variants(body) if balanced_deep(v) and _uses_ok(v, range(NSWITCHES))]
        cands.sort(key=lambda v: len(body_w(v)))
        cs = []
        for v in cands[:60]:
            c = mk_cond(f[0], v, (best.case.meta or {}).get('seed', 0))
            c.meta.update({k: x for k, x in (best.case.meta or {}).items() if k in ('bare', 'fine')})
            c.origin = 'shrink'
            cs.append(c)
        nxt = None
        for r in evaluate(cs):
            if not r.prop_ok:
                nxt = r
                break
        if nxt is None:
            break
        best = nxt
    return best


def balanced_deep(body):
    if not balanced(body): return False
    for it in body:
        if it[0] == 'c':
            for b in it[3] + [it[4]]:
                if not balanced_deep(b): return False
    return True


def search(ctx, evaluate, corr_bad):
    """proof/tie broken but no spec mismatch in the main batch: a larger seeded batch against the Spec oracle"""
    rng = random.Random(ctx.seed + 7919)
    cases = []
    for _ in range(6000):
        cases.append(gen_cond_case(rng, 'search'))
    for _ in range(3000):
        cases.append(gen_single_case(rng))
    for _ in range(6000):
        cases.append(gen_wf_case(rng))
    bad = [o for o in evaluate(cases) if not o.prop_ok]
    if bad:
        o = shrink(ctx, bad[0], evaluate)
        return Violation('implementation differs from the property oracle (found by search)',
                         {'kind': 'failing-input', 'outcome': o.to_json()})
    return None
