"""C05 - Arguments are delimited, typed and bound as the macro's signature declares.

streams (component level, real functions called in-process on real token objects)
  lit     : literal ASTs of the Spec grammar (integer / decimal / dimension / glue) + conforming following tokens;
            the driver renders them, runs Model.read* and Spec.den; implementation = TeX.readInteger / readDecimal /
            readDimen / readGlue on the rendered tokens.  Observation: value (fil order decoded), source of what follows.
  num     : arbitrary token lists (literal renderings with arbitrary followers, mutations, soups): implementation vs model.
  call    : structured calls (value per argument, optional ones present/absent, nested groupings) for every delimiter kind;
            driver renders, runs Model.delimitAll and the Spec binding; implementation = Macro.parse of an untyped signature.
  arg     : signature string (1-6 arguments, every delimiter kind and type) + call tokens; the signature is compiled by the
            REAL Macro.arguments, the compiled form goes to the model of Macro.parse; observation: attributes, argSource, rest.
  sig/sigtree : signature compiler (harness/props/c05_sig.py).
document level (extra_checks): the ParameterCommand enable counter is 0 after parsing documents that use every argument
  type (incl. `any`, D5), and a later register assignment still works.
"""
import logging, random
from fractions import Fraction
import extract
from framework import Case, Violation
from props import c05_units, c05_paths, c05_sig

ID = 'C05'
LEAN_MODULE = 'PlasVerif.Properties.C05'
LEVEL_TEXT = ('Lean 4 theorems over line-by-line models of the numeric scanners, the keyword/unit matcher, the delimiter readers, the casts, the '
              'argument loop of Macro.parse and the signature compiler, all for every input: signs_parity; integer_denotes (decimal, octal, hex, '
              'character codes, registers, optional space, arbitrary following tokens); decimal_denotes (all fraction forms); keyword_select and '
              'unit_matcher_* (the 11 units + 3 fil orders, `true`, any letter case, push-back of partial matches); dimen_denotes and glue_denotes at '
              'full strength (every unit, fil orders, register multiples, sign runs, plus/minus in any case; value decoded = TeX order and amount, exactly '
              'the literal consumed); unit_factors_are_TeX / fil_units_decode (unit table regenerated from the live dimen class, exact rationals); '
              'combine_fil / combine_finite; compile_render and compile_render_spaced (signature compiler round trip, canonical and any spelling); '
              'readGrouping_balanced / readToken_group / readCharacter_star / parse_call (every delimiter kind, nested groupings, optional arguments '
              'present or absent); cast_list, cast_dict, cast_int, cast_float, cast_dimen, scanner_number/dimen/glue (typing); parse_binds and '
              'parse_binds_last (Macro.parse binds every declared argument once, in order, to the cast of what is written at its position, and consumes '
              'exactly the call); enable_balance_all_paths (every syntactic path of the regenerated control-flow skeletons of the 7 readers, any number of '
              'loop iterations, nets to 0). The conformance predicates that are the hypotheses (Spec/Conform.lean) are evaluated by the driver on every '
              'generated literal. Carried by correspondence only: the tie of each model to the code, expandTokens on macro-bearing arguments, list/dict '
              'items with subtypes other than none, the regex split.')
LEVEL_NOTE = ('Trusted: Lean kernel (axioms propext, Classical.choice, Quot.sound), the translators (unit table from the AST of dimen.__new__, '
              'control-flow skeletons from the AST of TeX.py), the correspondence harness and its generators, CPython, re. Floats: the model uses '
              'exact rationals, compared with the implementation within relative 1e-9.')
TECHNIQUE = 'Lean 4 proofs (induction over literal/call structure, abstract interpretation soundness) + regenerated tables + differential correspondence'
TRUSTED = ['regex split of Macro.arguments is re-implemented as a hand lexer and tied by the sig streams',
           'expandTokens on character tokens is taken to be the identity up to representation (tied by the arg/call streams)',
           'cast* functions (list, dict, str) and Macro.parse glue are tied by the arg stream only']
ASSUMPTIONS = ['characters restricted to ASCII letters/digits/punctuation without TeX-special catcodes ($ & # ^ _ ~ %) and without ligature sources (- \' `)',
               'control sequences in scanned text are \\relax-like (expand to themselves); registers are ParameterCommand subclasses',
               'a scanner-typed argument (Number/Dimen/Glue) is generated only in last position (observation O7: the scanners expand the next token, '
               'a following brace argument would be bound to the `{` element)',
               'str.upper() restricted to ASCII']
RULE = ('literal ASTs, structured calls, signature trees generated recursively from the seed plus raw/mutated token lists (~15% malformed); '
        'non-trivial = the spec oracle is defined for the case (conforming input) and the expected value is not an error; distinct = distinct driver request line')
EXHAUSTIVE = {}
CASE_TIMEOUT = 20

logging.disable(logging.CRITICAL)

GENERATED = [c05_units.gen_units, c05_units.gen_ligatures, c05_paths.gen_argpaths, c05_paths.gen_catpaths]

UNITS = ['pt', 'pc', 'in', 'bp', 'cm', 'mm', 'dd', 'cc', 'sp', 'ex', 'em']
FILS = ['filll', 'fill', 'fil']

# ---------------------------------------------------------------- token helpers

def dots(s):
    return '.'.join(str(ord(c)) for c in s) if s else '-'


def w_ch(c):
    return 'c%d' % ord(c)


def w_text(s):
    """words of a plain text (letters/others/spaces/braces)"""
    out = []
    for ch in s:
        out.append('s' if ch == ' ' else '{' if ch == '{' else '}' if ch == '}' else w_ch(ch))
    return out


def reg_name(v):
    return 'rg' + ('m' if v < 0 else '') + ''.join(chr(ord(d) + 49) for d in str(abs(v)))


_env = {}


def fresh(kind='count'):
    """a fresh document + TeX with registers resolvable by name"""
    from plasTeX.TeX import TeX
    from plasTeX import TeXDocument, ParameterCommand
    ParameterCommand._enablelevel = 0
    ParameterCommand.enabled = True
    doc = TeXDocument()
    return doc, TeX(doc)


def real_tokens(words, doc, regkind):
    from plasTeX.Tokenizer import Letter, Other, Space, BeginGroup, EndGroup, EscapeSequence
    import plasTeX
    out = []
    for w in words:
        if w == 's': out.append(Space(' '))
        elif w == '{': out.append(BeginGroup('{'))
        elif w == '}': out.append(EndGroup('}'))
        elif w[0] == 'c':
            ch = chr(int(w[1:]))
            out.append(Letter(ch) if ch.isalpha() else Other(ch))
        elif w[0] == 'x':
            name = ''.join(chr(int(x)) for x in w[1:].split('.'))
            out.append(EscapeSequence(name))
        elif w[0] == 'r':
            v = int(w[1:])
            name = reg_name(v)
            if regkind == 'count':
                cls = type(name, (plasTeX.CountCommand,), {'value': plasTeX.count(v)})
            else:
                cls = type(name, (plasTeX.DimenCommand,), {'value': plasTeX.dimen(v)})
            doc.context[name] = cls
            out.append(EscapeSequence(name))
        else:
            raise ValueError(w)
    return out


def cps_of(s):
    return '.'.join(str(ord(c)) for c in s)


def canon_exc(e):
    n = type(e).__name__
    return 'err:' + n if n in ('UnboundLocalError', 'TypeError', 'AttributeError', 'ValueError', 'IndexError') else 'err:other:' + n


def rest_of(tex):
    return 'rest:' + cps_of(''.join(t.source for t in tex.itertokens()))


def level_note():
    from plasTeX import ParameterCommand
    lv = ParameterCommand._enablelevel
    return '' if lv == 0 else ' lvl:%d' % lv


def qf(x):
    return 'q:%r' % float(x)


def dec_dim(v):
    v = float(v)
    a = abs(v)
    s = -1 if v < 0 else 1
    if a >= 6e9: return 'o:3 ' + qf(s * (a - 6e9))
    if a >= 4e9: return 'o:2 ' + qf(s * (a - 4e9))
    if a >= 2e9: return 'o:1 ' + qf(s * (a - 2e9))
    return 'o:0 ' + qf(v)


def run_scanner(kind, words):
    doc, tex = fresh()
    regkind = 'count' if kind == 'int' else 'dimen'
    tex.input(real_tokens(words, doc, regkind))
    try:
        if kind == 'int':
            v = tex.readInteger()
            obs = 'ok i:%d' % int(v)
        elif kind == 'dec':
            v = tex.readDecimal()
            obs = 'ok ' + qf(v)
        elif kind == 'dim':
            from plasTeX import dimen
            v = tex.readDimen(units=dimen.units + ['filll', 'fill', 'fil'])
            obs = 'ok ' + dec_dim(v)
        elif kind == 'glue':
            v = tex.readGlue()
            obs = 'ok %s plus %s minus %s' % (dec_dim(v), 'N' if v.stretch is None else dec_dim(v.stretch),
                                              'N' if v.shrink is None else dec_dim(v.shrink))
        else:
            raise ValueError(kind)
    except Exception as e:
        return canon_exc(e)
    return obs + ' ' + rest_of(tex) + level_note()


# ---------------------------------------------------------------- literal generation (Spec grammar)

def gen_signs(rng, maxitems=3):
    n = rng.choice([0, 0, 0, 1, 1, 2, maxitems])
    lead = rng.choice([0, 0, 0, 1])
    items = ['%s%d' % (rng.choice('mp'), rng.choice([0, 0, 1, 2])) for _ in range(n)]
    return ['S', str(lead), str(n)] + items


def digs(rng, base, lo=1, hi=6):
    return '.'.join(str(rng.randrange(base)) for _ in range(rng.randint(lo, hi)))


FOLLOW_KINDS = ['eof', 'letter', 'digit', 'space', 'relax', 'bg', 'eg', 'punct', 'reg', 'hexlow']


# characters that look blank but are ordinary characters (category 12) for TeX: NBSP, em space, ideographic space, narrow NBSP, ogham space
UBLANKS = [160, 8195, 12288, 8239, 5760]


def follow_head(rng, kind):
    if kind == 'ublank': return ['c%d' % rng.choice(UBLANKS)]
    if kind == 'letter': return [w_ch(rng.choice('aRxzQkg'))]
    if kind == 'digit': return [w_ch(rng.choice('0123456789'))]
    if kind == 'space': return ['s']
    if kind == 'relax': return ['x' + dots('relax')]
    if kind == 'bg': return ['{']
    if kind == 'eg': return ['}']
    if kind == 'punct': return [w_ch(rng.choice('.,;:!?/()[]=*'))]
    if kind == 'reg': return ['r%d' % rng.choice([0, 1, 3, -2, 65536, 7])]
    if kind == 'hexlow': return [w_ch(rng.choice('abcdefABCDEF'))]
    return []


def follow(rng, allowed):
    k = rng.choice(allowed)
    if k == 'eof':
        return []
    tail = []
    for _ in range(rng.choice([0, 0, 1, 2])):
        tail += follow_head(rng, rng.choice(['letter', 'digit', 'space', 'relax', 'bg', 'punct']))
    # no two adjacent spaces (the tokenizer never produces them)
    out = follow_head(rng, k) + tail
    return [w for i, w in enumerate(out) if not (w == 's' and i > 0 and out[i - 1] == 's')]


def gen_int_lit(rng):
    kind = rng.choice(['d', 'd', 'd', 'o', 'h', 'c', 'C', 'r'])
    sp = rng.random() < 0.4
    if kind == 'd':
        v = digs(rng, 10, 1, 7)
        allowed = ['eof', 'letter', 'digit', 'space', 'relax', 'bg', 'eg', 'punct', 'hexlow', 'ublank'] if sp else \
                  ['eof', 'letter', 'relax', 'bg', 'eg', 'punct', 'hexlow', 'ublank']
    elif kind == 'o':
        v = digs(rng, 8, 1, 6)
        allowed = ['eof', 'letter', 'digit', 'relax', 'bg', 'eg', 'punct', 'reg', 'hexlow'] if sp else ['eof', 'letter', 'relax', 'bg', 'eg', 'punct', 'hexlow']
        if not sp and rng.random() < 0.3:
            allowed = ['digit8']
    elif kind == 'h':
        v = digs(rng, 16, 1, 6)
        allowed = ['eof', 'letter', 'digit', 'relax', 'bg', 'eg', 'punct', 'reg', 'hexlow'] if sp else ['eof', 'relax', 'bg', 'eg', 'punct', 'letterg']
    elif kind in 'cC':
        v = str(ord(rng.choice('aAzZ09.;*[}{ ' if kind == 'c' else 'aAzZ{}%\\$^')))
        if kind == 'c' and v in (str(ord('{')), str(ord('}')), str(ord(' '))):
            v = str(ord('q'))
        sp = False
        allowed = ['eof', 'letter', 'digit', 'space', 'relax', 'bg', 'eg', 'punct', 'reg', 'hexlow']
    else:
        v = str(rng.choice([0, 1, 5, -7, 123456, 65536]))
        sp = False
        allowed = ['eof', 'letter', 'digit', 'space', 'relax', 'bg', 'eg', 'punct', 'hexlow']
    words = ['I'] + gen_signs(rng) + [kind, v, '1' if sp else '0']
    if allowed == ['digit8']:
        fol = [w_ch(rng.choice('89'))]
    elif 'letterg' in allowed:
        k = rng.choice(allowed)
        fol = [w_ch(rng.choice('gGxRz'))] if k == 'letterg' else follow(rng, [k])
    else:
        fol = follow(rng, allowed)
    return words, fol


def gen_dec_body(rng, maxip=5):
    r = rng.random()
    if r < 0.35:
        return [digs(rng, 10, 1, maxip), 'n', '-'], 'int'
    sep = rng.choice('pc')
    ip = digs(rng, 10, 1, min(4, maxip)) if rng.random() < 0.8 else '-'
    fp = digs(rng, 10, 1, 5) if rng.random() < 0.8 else '-'
    return [ip, sep, fp], 'frac'


def gen_dec_lit(rng):
    body, form = gen_dec_body(rng)
    if form == 'int':
        allowed = ['eof', 'letter', 'space', 'relax', 'bg', 'eg', 'hexlow', 'ublank']
    else:
        allowed = ['eof', 'letter', 'relax', 'bg', 'eg', 'punct0', 'hexlow', 'ublank']
    k = rng.choice(allowed)
    fol = [w_ch(rng.choice(';:!?/()'))] if k == 'punct0' else follow(rng, [k])
    return ['D'] + gen_signs(rng) + body, fol


def rand_case(rng, word):
    mode = rng.choice(['lower', 'lower', 'lower', 'upper', 'mixed'])
    if mode == 'lower': return word
    if mode == 'upper': return word.upper()
    return ''.join(c.upper() if rng.random() < 0.5 else c for c in word)


def gen_unit(rng, fil_ok):
    pre = rng.choice([0, 0, 1, 2])
    r = rng.random()
    if r < 0.12:
        return [str(pre), '-', 'r%d' % rng.choice([1, 3, 65536, -2, 12345]), '-', '0'], 'reg'
    tru = '-'
    if rng.random() < 0.2:
        tru = dots(rand_case(rng, 'true')) + '/%d' % rng.choice([0, 1, 1, 2])
    sp = rng.random() < 0.5
    if fil_ok and rng.random() < 0.45:
        i = rng.randrange(3)
        return [str(pre), tru, 'f%d' % i, dots(rand_case(rng, FILS[i])), '1' if sp else '0'], ('fil', sp)
    i = rng.randrange(len(UNITS))
    return [str(pre), tru, 'p%d' % i, dots(rand_case(rng, UNITS[i])), '1' if sp else '0'], ('phys', sp)


def gen_dim_lit(rng, fil_ok=False, signs=True):
    sg = gen_signs(rng) if signs else ['S', '0', '0']
    if rng.random() < 0.1:
        return ['M'] + sg + ['R', str(rng.choice([0, 5, 65536, -131072, 99]))], 'reg'
    unit, kind = gen_unit(rng, fil_ok)
    # TeX's own range: |dimension| < 2^30 sp (16383.99999pt); fil amounts likewise
    big = unit[2] in ('p2', 'p1', 'p4', 'p7', 'p10')            # in pc cm cc em
    body, _ = gen_dec_body(rng, 9 if unit[2] == 'p8' else 2 if big else 3)
    return ['M'] + sg + ['B'] + body + ['U'] + unit, kind


def dim_follow(rng, kind, glue=False):
    """followers that cannot continue a dimension / glue"""
    if kind == 'reg':
        allowed = ['eof', 'letterx', 'digit', 'relax', 'bg', 'eg', 'punct', 'ublank']
    else:
        allowed = ['eof', 'letterx', 'digit', 'relax', 'bg', 'eg', 'punct', 'ublank', 'ublank']
    k = rng.choice(allowed)
    if glue and rng.random() < 0.2:
        # text that starts like a keyword but does not spell it: the matcher must push all of it back
        return w_text(rng.choice(['p', 'pl', 'plu', 'plux', 'Plum', 'm', 'mi', 'minu', 'MINUx', 'min us', 'pm', 'plu s']))
    if glue and rng.random() < 0.2:
        # text that spells a whole keyword: after the shrink part the glue is complete and `plus ...` is ordinary text (as in TeX);
        # where the keyword would still be read (conformance is decided by the driver) only the model is compared
        return w_text(rng.choice(['plus two', 'plus', 'plus.', 'PLUS 2pt', 'Plus1fil x', 'minus one', 'minus', 'MINUS 3pt', 'plus minus',
                                  'minus plus', 'plus 2pt minus 1pt']))
    if k == 'ublank':
        # a Unicode blank ends the literal; what stands behind it (even a keyword or a unit) is text
        return follow_head(rng, 'ublank') + w_text(rng.choice(['', 'x', 'plus 2pt', 'minus 1fil', 'pt', 'l', '12']))
    if k == 'letterx':
        return [w_ch(rng.choice('aRxzQkg'))] + follow(rng, ['eof', 'letter', 'digit'])[:1]
    return follow(rng, [k])


def gen_glue_lit(rng):
    dim, kind = gen_dim_lit(rng, False)
    words = ['G'] + gen_signs(rng, 2) + dim
    last = kind
    for tag, kw in (('P', 'plus'), ('N', 'minus')):
        # a bare register is taken as internal glue by readGlue (no stretch/shrink is read after it): observation O8
        if rng.random() < 0.55 and kind != 'reg' or (kind == 'reg' and 'R' not in dim and rng.random() < 0.55):
            d, k = gen_dim_lit(rng, True)
            words += [tag, str(rng.choice([0, 1, 1, 2])), dots(rand_case(rng, kw))] + d
            last = k
        else:
            words += [tag, '-']
    return words, dim_follow(rng, last, True)


def gen_lit_case(rng):
    k = rng.random()
    if k < 0.3:
        w, f = gen_int_lit(rng)
    elif k < 0.5:
        w, f = gen_dec_lit(rng)
    elif k < 0.75:
        w, kind = gen_dim_lit(rng, rng.random() < 0.3)
        f = dim_follow(rng, kind)
    else:
        w, f = gen_glue_lit(rng)
    return Case('lit', ' '.join(w + ['|'] + f), {'k': w[0]})


SOUP = ['c43', 'c45', 's', 'c48', 'c49', 'c55', 'c57', 'c39', 'c34', 'c96', 'c46', 'c44', 'c112', 'c116', 'c80', 'c84', 'c108', 'c117', 'c115',
        'c105', 'c110', 'c102', 'c109', 'c114', 'c101', 'c65', 'c70', 'c97', '{', '}', 'x' + dots('relax'), 'x' + dots('p'), 'r3', 'r-2', 'c120']


# ---------------------------------------------------------------- calls

PAIRS = {'[': (91, 93), '(': (40, 41), '<': (60, 62), '{': (123, 125)}
TEXTCH = 'abcxyzABC0123.:;!?/+@' + chr(160) + chr(233) + chr(8195)


def gen_content(rng, depth, avoid, inner=False):
    """balanced token words; `avoid` = characters that must not occur at all (own delimiters and, inside braces, NF-3)"""
    out = []
    for _ in range(rng.choice([0, 1, 1, 2, 3, 4])):
        r = rng.random()
        if r < 0.6 or depth <= 0:
            ch = rng.choice(TEXTCH)
            out.append(w_ch(ch))
        elif r < 0.72:
            if out and out[-1] != 's':
                out.append('s')
        else:
            out += ['{'] + gen_content(rng, depth - 1, avoid) + ['}']
    return out


def gen_pair_content(rng, b, e, depth):
    out = []
    for _ in range(rng.choice([0, 1, 2, 3])):
        r = rng.random()
        if r < 0.5:
            out.append(w_ch(rng.choice(TEXTCH)))
        elif r < 0.6 and out and out[-1] != 's':
            out.append('s')
        elif r < 0.8 and depth > 0 and b != 123:
            out += [w_ch(chr(b))] + gen_pair_content(rng, b, e, depth - 1) + [w_ch(chr(e))]
        elif depth > 0:
            out += ['{'] + gen_content(rng, depth - 1, '') + ['}']
    return out


CTRL_SYMS = '[]()<>{}*=,;'
# what follows the call starts with a control sequence whose name is blank (`\\ `, `\\<tab>`): a token, not skippable white space
BLANK_CS_RESTS = [['x32', 'c82'], ['x32'], ['x9', 'c120'], ['x32', 'c91', 'c110', 'c93'], ['x32', '{', 'c120', '}'],
                  ['c160', 'c82'], ['c12288', 'c91', 'c111', 'c93', '{', 'c97', '}'], ['c8195', '{', 'c98', '}'], ['c160', 'c42', '{', 'c97', '}']]


def sprinkle_cs(rng, cont, extra=''):
    """insert control symbols (`\\]`, `\\>`, `\\{` … named like delimiters, braces, modifiers) and `\\relax` at random places:
    they are ordinary tokens of an unexpanded argument and must neither close, nest nor split anything"""
    out = list(cont)
    for _ in range(rng.choice([1, 1, 2, 3])):
        name = rng.choice(extra + extra + CTRL_SYMS) if extra else rng.choice(CTRL_SYMS)
        tok = 'x' + (dots('relax') if rng.random() < 0.1 else str(ord(name)))
        out.insert(rng.randint(0, len(out)), tok)
    return out


def words_src(words):
    """code points of the TeX source of token words"""
    out = []
    for w in words:
        if w == 's': out.append(' ')
        elif w in '{}': out.append(w)
        elif w[0] == 'c': out.append(chr(int(w[1:])))
        elif w[0] == 'x': out.append('\\' + ''.join(chr(int(x)) for x in w[1:].split('.')) + ' ')
    return cps_of(''.join(out))


def gen_call_case(rng):
    n = rng.randint(1, 6)
    words = [str(n)]
    nox = rng.random() < 0.4          # unexpanded arguments: control symbols may stand anywhere in the contents
    for i in range(n):
        r = rng.random()
        pre = rng.choice([0, 0, 0, 1])
        if r < 0.12:
            c = rng.choice('*=+')
            present = rng.random() < 0.5
            words += [str(ord(c)), str(pre if present else 0), 'P' if present else 'A'] + (['1', w_ch(c)] if present else ['0'])
        elif r < 0.5:
            b, e = PAIRS[rng.choice('[[(<{')]
            present = rng.random() < 0.6
            cont = gen_pair_content(rng, b, e, 2) if present else []
            if present and nox and rng.random() < 0.6:
                cont = sprinkle_cs(rng, cont, chr(b) + chr(e))
            words += ['%d.%d' % (b, e), str(pre if present else 0), 'P' if present else 'A', str(len(cont))] + cont
        else:
            if rng.random() < 0.2:
                cont = [w_ch(rng.choice('abcXYZ059.;' + ''.join(chr(c) for c in UBLANKS)))]
            elif nox and rng.random() < 0.15:
                # one control sequence written bare in the argument position: a control space `\\ `, `\\<tab>`, a control symbol, `\\relax`
                cont = ['x' + rng.choice(['32', '32', '9', str(ord(rng.choice(CTRL_SYMS))), dots('relax')])]
            else:
                cont = gen_content(rng, 2, '')
                if nox and rng.random() < 0.5:
                    cont = sprinkle_cs(rng, cont, '{}')
            words += ['t', str(pre), 'P', str(len(cont))] + cont
    rest = rng.choice([[], ['c82'], ['c82', 'c69'], ['{', 'c120', '}'], ['x' + dots('relax'), 'c82'], ['c46']] + BLANK_CS_RESTS)
    return Case('call', ' '.join(words + ['|'] + rest), {'nox': nox})


# ---------------------------------------------------------------- arg stream

ARGTYPES = [None, None, None, 'str', 'str', 'int', 'float', 'dimen', 'list', 'list', 'dict', 'Tok', 'nox', 'chr', 'number', 'double', 'length', 'url', 'url']
LASTTYPES = ['Number', 'Dimen', 'Glue', 'Integer', 'Dimension', 'Skip']
TYMAP = {None: 'none', 'str': 'str', 'chr': 'str', 'char': 'str', 'int': 'int', 'number': 'int', 'count': 'int', 'float': 'float', 'double': 'float',
         'dimen': 'dimen', 'dimension': 'dimen', 'length': 'dimen', 'list': 'list', 'dict': 'dict', 'nox': 'nox', 'Tok': 'tok', 'Token': 'tok',
         'Number': 'Number', 'Int': 'Number', 'Integer': 'Number', 'Dimen': 'Dimen', 'Length': 'Dimen', 'Dimension': 'Dimen', 'Glue': 'Glue', 'Skip': 'Glue'}


def gen_int_text(rng):
    s = rng.choice(['', '', '-', '+', '- ', '-+']) + rng.choice(['0', '7', '12', '345', '"1F', '99999'])
    return s


def words_cps(words):
    return cps_of(''.join(' ' if w == 's' else chr(int(w[1:])) for w in words).strip())


def gen_value_words(rng, ty, sub, delim, brace=True, expect=None):
    """words of the content of a brace/bracket argument of the given type; `expect` (a list) receives the canonical
    value the property prescribes when it can be written down independently of the model (plain list / dictionary)"""
    if ty == 'url':
        # read under its own character categories (# ~ % & ordinary): the value is the text written
        return [w_ch(ch) for ch in rng.choice(['http://h.org/', 'a/b.c', 'x']) + ''.join(rng.choice('~#%&ab1/.') for _ in range(rng.randint(0, 4)))]
    if ty in (None, 'nox'):
        c = gen_content(rng, 2, '')
        if ty == 'nox' and rng.random() < 0.4:
            c.insert(rng.randint(0, len(c)), 'x' + dots('relax'))
        if ty == 'nox' and rng.random() < 0.5:
            c = sprinkle_cs(rng, c)
        if ty == 'nox' and expect is not None:
            expect.append('f:' + words_src(c))        # an unexpanded argument is bound to exactly the tokens written
        return c
    if ty in ('str', 'chr'):
        r = rng.random()
        if r < 0.15:
            c = ['{'] + gen_content(rng, 1, '') + ['}']                    # exactly one brace group: `\\foo{{abc}}`, `[{htb}]`
        elif r < 0.2:
            c = ['{', '{'] + gen_content(rng, 0, '') + ['}', '}']
        elif r < 0.45:
            c = gen_content(rng, 2, '')
        else:
            c = gen_content(rng, 0, '')
        if expect is not None:
            # a string-typed argument is bound to the text written, braces dropped, ends stripped
            expect.append('s:' + cps_of(''.join(' ' if w == 's' else chr(int(w[1:])) for w in c if w not in '{}').strip()))
        return c
    if ty in ('int', 'number'):
        return w_text(rng.choice(['', ' ']) + gen_int_text(rng) + rng.choice(['', ' ']))
    if ty in ('float', 'double'):
        return w_text(rng.choice(['', '-', '+']) + rng.choice(['1.5', '0.25', '12', '3,5', '.5', '7.']))
    if ty in ('dimen', 'length'):
        return w_text(rng.choice(['', '-']) + rng.choice(['1.5', '12', '.5', '3']) + rng.choice(['', ' ']) + rng.choice(UNITS + ['true pt', 'PT']))
    if ty == 'list':
        d = delim or ','
        items = []
        for _ in range(rng.randint(0, 4)):
            if sub == 'int':
                items.append(w_text(rng.choice(['', ' ']) + gen_int_text(rng).replace('`a', '9')))
            else:
                r = rng.random()
                if r < 0.6:
                    items.append(w_text(rng.choice(['', ' ']) + ''.join(rng.choice('abcXY019') for _ in range(rng.randint(0, 3))) + rng.choice(['', ' '])))
                elif r < 0.8:
                    items.append(['{'] + gen_content(rng, 1, '') + [w_ch(d)] * rng.choice([0, 1]) + ['}'])
                else:
                    items.append(w_text(rng.choice(['', ' ', 'a'])) + ['{'] + gen_content(rng, 1, '') + ['}'] + w_text(rng.choice(['', ' ', 'z'])))
        out = []
        for i, it in enumerate(items):
            if i: out.append(w_ch(d))
            out += it
        if expect is not None and sub is None and all('{' not in it for it in items):
            vals = ['s:' + words_cps(it) for it in items] or ['s:']
            expect.append('L( ' + ''.join(v + ' ' for v in vals) + ')')
        return out
    if ty == 'dict':
        d = delim or ','
        out = []
        want, plain = {}, True
        for i in range(rng.randint(0, 4)):
            if i: out += [w_ch(d)] + (['s'] if rng.random() < 0.3 else [])
            key = ''.join(rng.choice('abkxy') for _ in range(rng.randint(1, 3)))
            out += w_text(key)
            r = rng.random()
            if r < 0.25:
                want[key] = 'T'              # a key without value is a flag
                continue
            out += w_text(rng.choice(['=', ' = ', '= ']))
            r = rng.random()
            if r < 0.6:
                v = ''.join(rng.choice('uvw12') for _ in range(rng.randint(0, 3)))
                out += w_text(v)
                want[key] = 's:' + cps_of(v)
            elif r < 0.85:
                out += ['{'] + gen_content(rng, 1, '') + [w_ch(d)] * rng.choice([0, 1]) + ['}']
                plain = False
            else:
                out += w_text('a') + ['{'] + gen_content(rng, 0, '') + ['}']
                plain = False
        if expect is not None and plain:
            items = sorted(want.items(), key=lambda kv: [ord(c) for c in kv[0]])
            expect.append('D( ' + ' '.join('k:%s %s' % (cps_of(k), v) for k, v in items) + ' )')
        return out
    raise ValueError(ty)


def clean_for_pair(words, b, e):
    """drop the pair's own characters from generated content (they would nest/close)"""
    bad = {w_ch(chr(b)), w_ch(chr(e))}
    return [w for w in words if w not in bad]


def gen_arg_case(rng, malformed=False):
    n = rng.randint(1, 6)
    sig, call = [], []
    expects = {}            # position in the compiled argument list -> canonical value prescribed by the property
    mark = 0
    if rng.random() < 0.3:
        sig.append('*')
        if rng.random() < 0.5:
            call += (['s'] if rng.random() < 0.2 else []) + ['c42']
    used_last = False
    pending = set()          # openers of optional arguments left out since the last emitted token (LaTeX's own ambiguity)
    for i in range(n):
        if call and mark != len(call):
            pending = set()
        mark = len(call)
        last = (i == n - 1)
        name = 'a%d' % i
        r = rng.random()
        if last and r < 0.2:
            ty = rng.choice(LASTTYPES)
            sig.append('%s:%s' % (name, ty))
            if ty in ('Number', 'Integer'):
                call += w_text(rng.choice(['', ' ']) + gen_int_text(rng).replace('`a', '12') + rng.choice([' ', '']))
                call += ['x' + dots('relax')] if call[-1] != 's' and rng.random() < 0.5 else []
            elif ty in ('Dimen', 'Dimension'):
                call += w_text(rng.choice(['', ' ', '-']) + rng.choice(['1.5', '12', '.5']) + rng.choice(['', ' ']) + rng.choice(UNITS) + rng.choice(['', ' ']))
            else:
                call += w_text(rng.choice(['1pt', '2.5cm ', '-3mm']) + rng.choice(['', ' plus 1pt', 'plus 2fil', ' plus 1.5fill minus 3pt', ' minus 1fil ']))
            used_last = True
            continue
        if r < 0.08 and i > 0 and '=' not in sig:      # one `=` only: all of them share the name *equals*
            sig.append('=')
            if rng.random() < 0.6 and '=' not in pending:
                call += (['s'] if rng.random() < 0.3 else []) + ['c61']
            continue
        ty = rng.choice(ARGTYPES)
        delim = sub = None
        spec = ty or ''
        if ty in ('list', 'dict') and rng.random() < 0.3:
            delim = rng.choice(';|/')
            spec += '(%s)' % delim
        if ty == 'list' and rng.random() < 0.25:
            sub = 'int'
            spec += ':int'
        decl = name + (':' + spec if ty else '')
        kind = rng.random()
        pre = ['s'] if rng.random() < 0.25 else []
        if ty == 'Tok':
            sig.append(decl)
            call += pre + [rng.choice(['c97', 'c55', 'x' + dots('relax'), 'c46'])]
            continue
        if kind < 0.4:
            op = rng.choice('[[(<')
            b, e = PAIRS[op]
            sig.append('%s %s %s' % (op, decl, chr(e)))
            if op in pending or rng.random() >= 0.6:
                pending.add(op)
                expects[len(sig) - 1] = 'N'          # absent optional argument: bound to nothing
            else:
                ex = []
                raw = gen_value_words(rng, ty, sub, delim, expect=ex)
                v = clean_for_pair(raw, b, e)
                if ex and v == raw:
                    expects[len(sig) - 1] = ex[0]
                if rng.random() < 0.15 and ty is None:
                    v = v + [w_ch(op)] + clean_for_pair(gen_content(rng, 0, ''), b, e) + [w_ch(chr(e))]
                call += pre + [w_ch(op)] + v + [w_ch(chr(e))]
        else:
            sig.append(decl)
            ex = []
            v = gen_value_words(rng, ty, sub, delim, expect=ex)
            if ty in (None, 'str') and rng.random() < 0.15:
                call += ['s', w_ch(rng.choice('abXY059'))]
            else:
                call += pre + ['{'] + v + ['}']
                if ex:
                    expects[len(sig) - 1] = ex[0]
    rest = rng.choice([[], ['c82'], ['c82', 'c69'], ['{', 'c120', '}'], ['x' + dots('relax'), 'c82'], ['c46'], ['s', 'c82']] + BLANK_CS_RESTS[:3] + BLANK_CS_RESTS[5:])
    if used_last:
        rest = rng.choice([[], ['c82'], ['x' + dots('relax'), 'c82'], ['c46']])
        if sig[-1].split(':')[-1] in ('Glue', 'Skip') and rng.random() < 0.3:
            rest = w_text(rng.choice(['plus two', 'minus one', 'plus', 'Plus 1pt']))
        if call and call[-1] == 's' and rest[:1] == ['s']:
            rest = rest[1:]
    if malformed and call:
        rest = rng.choice([[], ['c82'], ['c46'], ['c82', 'c69']])      # no control sequence may slide into a numeric cast
        call = [w for w in call if w[0] != 'x'] or ['c97']
        k = rng.random()
        if k < 0.35:
            j = rng.randrange(len(call)); call = call[:j] + call[j + 1:]
        elif k < 0.6:
            call = call[:rng.randrange(len(call))]
        elif k < 0.8:
            j = rng.randrange(len(call) + 1); call = call[:j] + [rng.choice(['c93', 'c91', 'c44', 'c61', 's', 'c42'])] + call[j:]
        else:
            call = [rng.choice(['c97', 'c91', 'c93', '{', 'c44', 'c61', 'c49', 's', 'c42']) for _ in range(rng.randint(0, 6))]
        call = [w for i, w in enumerate(call) if not (w == 's' and i > 0 and call[i - 1] == 's')]
        if call.count('{') != call.count('}'):
            # keep braces balanced inside: unbalanced expansion contexts are outside the model (see ASSUMPTIONS)
            call = [w for w in call if w not in ('{', '}')]
    toks = call + rest
    toks = [w for i, w in enumerate(toks) if not (w == 's' and i > 0 and toks[i - 1] == 's')]
    return Case('arg', '', {'sig': ' '.join(sig), 'toks': toks, 'malformed': malformed,
                            'expect': {} if malformed else {str(k): v for k, v in expects.items()}})


def compile_decl(sigstr):
    """compile the signature with the REAL Macro.arguments and return the model's argdecl words"""
    import plasTeX
    cls = type('foo', (plasTeX.Command,), {'args': sigstr})
    words = []
    args = cls().arguments
    for a in args:
        o = a.options
        spec = o.get('spec')
        sp = 't' if spec is None else str(ord(spec)) if len(spec) == 1 else '%d.%d' % (ord(spec[0]), ord(spec[1]))
        ty = TYMAP.get(o.get('type'), 'none')
        dl = o.get('delim')
        sub = TYMAP.get(o.get('subtype'), 'none')
        words += [sp, ty, str(ord(dl)) if dl else '-', sub]
    return cls, [str(len(args))] + words


def finish_arg_case(c):
    """fill in the driver line (needs the real compiler)"""
    if c.line:
        return c
    cls, words = compile_decl(c.meta['sig'])
    c.line = ' '.join(words + ['|'] + c.meta['toks'])
    return c


def show_val(v):
    from plasTeX import glue, dimen, number
    if v is None: return 'N'
    if v is True: return 'T'
    if isinstance(v, list) and not hasattr(v, 'nodeType'):
        if not v:
            return 'f:'
        if all(hasattr(x, 'source') and isinstance(x, str) for x in v) and not any(type(x) is str for x in v):
            return 'f:' + cps_of(''.join(x.source for x in v))
        return 'L( ' + ''.join(show_val(x) + ' ' for x in v) + ')'
    if isinstance(v, dict):
        items = sorted(((str(k), show_val(x)) for k, x in v.items()), key=lambda kv: [ord(c) for c in kv[0]])
        return 'D( ' + ' '.join('k:%s %s' % (cps_of(k), x) for k, x in items) + ' )'
    if isinstance(v, glue):
        return 'g( %s %s %s )' % (dec_dim(v), 'N' if v.stretch is None else dec_dim(v.stretch), 'N' if v.shrink is None else dec_dim(v.shrink))
    if isinstance(v, int) and not isinstance(v, bool): return 'i:%d' % int(v)
    if isinstance(v, float): return qf(v)
    if type(v) is str: return 's:' + cps_of(v)
    if hasattr(v, 'source'): return 'f:' + cps_of(v.source)
    return 'other:' + type(v).__name__


def run_parse(cls, words, with_src=True):
    doc, tex = fresh()
    doc.context['foo'] = cls
    tex.input(real_tokens(words, doc, 'dimen'))
    obj = doc.createElement('foo')
    cats0 = cat_snapshot(doc)
    try:
        obj.parse(tex)
    except Exception as e:
        return canon_exc(e)
    cats1 = cat_snapshot(doc)
    names = [a.name for a in obj.arguments]
    vals = ''.join(show_val(obj.attributes.get(n)) + ' ' for n in names)
    scanner = any(a.options.get('type') in ('Dimen', 'Length', 'Dimension', 'Glue', 'Skip', 'Number', 'Int', 'Integer') for a in obj.arguments)
    src = ('src:' + ('?' if scanner else cps_of(obj.argSource)) + ' ') if with_src else ''
    return 'ok ' + vals + src + rest_of(tex) + level_note() + cat_note(cats0, cats1)


def run_mode(words):
    """push real contexts (a group for N at even depth, else a macro whose class sets / leaves mathMode) and ask the real Context"""
    import plasTeX
    from plasTeX import TeXDocument
    doc = TeXDocument()
    try:
        for i, w in enumerate(words):
            m = {'T': True, 'F': False, 'N': None}[w]
            if m is None and i % 2 == 0:
                doc.context.push()
            else:
                doc.context.push(type('ctx%d' % i, (plasTeX.Command,), {'mathMode': m})())
        return 'ok:true' if doc.context.isMathMode else 'ok:false'
    except Exception as e:
        return canon_exc(e)


def cat_snapshot(doc):
    """the character categories in force (as sets: restoring re-appends a character, the order is immaterial)"""
    return [frozenset(c) for c in doc.context.categories]


def cat_note(c0, c1):
    if c0 == c1:
        return ''
    moved = sorted(set().union(*[a ^ b for a, b in zip(c0, c1)]))
    return ' cat:' + '.'.join(str(ord(ch)) for ch in moved)


# ---------------------------------------------------------------- framework API

def generate(ctx):
    rng = ctx.rng
    q = ctx.tier == 'quick'
    n_lit, n_num, n_call, n_arg, n_sig = (6000, 3000, 3000, 3000, 3000) if q else (60000, 30000, 30000, 30000, 20000)
    for _ in range(n_lit):
        yield gen_lit_case(rng)
    for _ in range(n_num):
        kind = rng.choice(['int', 'dec', 'dim', 'glue'])
        if rng.random() < 0.5:
            # a rendered literal with an arbitrary follower / a mutation: needs the driver to render -> use the soup instead
            toks = [rng.choice(SOUP) for _ in range(rng.randint(0, 9))]
        else:
            base = {'int': ['c49', 'c50'], 'dec': ['c49', 'c46', 'c53'], 'dim': ['c49', 'c46', 'c53', 'c112', 'c116'],
                    'glue': ['c49', 'c112', 'c116', 's', 'c112', 'c108', 'c117', 'c115', 's', 'c50', 'c102', 'c105', 'c108']}[kind]
            toks = list(base)
            for _ in range(rng.randint(0, 3)):
                j = rng.randint(0, len(toks))
                if rng.random() < 0.5 and toks:
                    toks.pop(min(j, len(toks) - 1))
                else:
                    toks.insert(j, rng.choice(SOUP))
        toks = [w for i, w in enumerate(toks) if not (w == 's' and i > 0 and toks[i - 1] == 's')]
        if kind == 'dec':
            toks = [w for w in toks if w[0] != 'r']          # readDecimal alone does not disable parameters
        yield Case('num', kind + ' ' + ' '.join(toks), {})
    for _ in range(n_call):
        yield gen_call_case(rng)
    for _ in range(n_arg):
        yield finish_arg_case(gen_arg_case(rng, malformed=rng.random() < 0.15))
    for c in c05_sig.gen_sig_cases(rng, n_sig):
        yield c
    for _ in range(300 if q else 5000):
        wrap, stack = rng.choice(WRAP_STACKS)
        t = ''.join(rng.choice(["'", "''", '-', '--', '---', '`', '``', 'a', 'f', '1', '"`', '"']) for _ in range(rng.randint(1, 4)))
        yield Case('ligs', stack + ' | ' + ' '.join(str(ord(c)) for c in t), {'wrap': wrap, 'text': t})
    for _ in range(300 if q else 5000):
        yield Case('mode', ' '.join(rng.choice('NNTF') for _ in range(rng.randint(0, 7))), {})


def corpus():
    rl = 'x' + dots('relax')
    return [
        # D14: multiples of fil must keep their order (2fil read as 2.0fill before the repair)
        Case('lit', 'G S 0 0 M S 0 0 B 1 n - U 0 - p0 112.116 1 P 0 112.108.117.115 M S 1 0 B 2 n - U 0 - f2 102.105.108 0 N - | ' + rl, {'k': 'G'}, 'corpus'),
        Case('lit', 'M S 0 1 m0 B 1 p 5 U 1 - f2 102.105.108 0 | c82', {'k': 'M'}, 'corpus'),
        Case('lit', 'M S 0 0 B - p 5 U 0 - f1 102.105.108.108 1 | c82', {'k': 'M'}, 'corpus'),
        Case('num', 'glue c49 c112 c116 c112 c108 c117 c115 c51 c102 c105 c108 c109 c105 c110 c117 c115 c50 c102 c105 c108 c108', {}, 'corpus'),
        # D16: a str argument with a nested group
        finish_arg_case(Case('arg', '', {'sig': 'a0:str a1', 'toks': ['{', 's', 'c120', '{', 'c121', '}', 'c122', 's', '}', '{', 'c119', '}', 'c82']}, 'corpus')),
        finish_arg_case(Case('arg', '', {'sig': '[ a0:str ] a1', 'toks': ['c91', 'c120', '{', 'c121', '}', 'c93', '{', 'c122', '}', 'c82']}, 'corpus')),
        # a str argument that is exactly one brace group: \\foo{{abc}}R, \\foo[{htb}]{x}R
        finish_arg_case(Case('arg', '', {'sig': 'a0:str', 'toks': ['{', '{', 'c97', 'c98', 'c99', '}', '}', 'c82'], 'expect': {'0': 's:97.98.99'}}, 'corpus')),
        finish_arg_case(Case('arg', '', {'sig': '[ a0:str ] a1', 'toks': ['c91', '{', 'c104', 'c116', 'c98', '}', 'c93', '{', 'c120', '}', 'c82'],
                                         'expect': {'0': 's:104.116.98'}}, 'corpus')),
        Case('lit', 'I S 1 2 m1 p0 h 1.15 1 | c103', {'k': 'I'}, 'corpus'),
        # glue ends after its shrink part: `3pt minus 1pt plus two` leaves `plus two`
        Case('lit', 'G S 0 0 M S 0 0 B 3 n - U 0 - p0 112.116 0 P - N 1 109.105.110.117.115 M S 1 0 B 1 n - U 0 - p0 112.116 1 | c112 c108 c117 c115 s c116 c119 c111', {'k': 'G'}, 'corpus'),
        Case('call', '2 91.93 0 A 0 t 1 P 3 c97 { } | c82', {}, 'corpus'),
        # control symbols named like the delimiter are ordinary tokens of an unexpanded argument: \\foo<a\\>b>{m}R, \\foo[x\\[y]{m}R
        Case('call', '2 60.62 0 P 3 c97 x62 c98 t 0 P 1 c109 | c82', {'nox': True}, 'corpus'),
        Case('call', '2 91.93 0 P 3 c120 x91 c121 t 0 P 1 c109 | c82', {'nox': True}, 'corpus'),
        Case('call', '2 t 0 P 3 c97 x125 c98 40.41 0 P 2 x40 c49 | c82', {'nox': True}, 'corpus'),
        # a control space is a token: \\foo\\ {x}y (the argument), \\foo{x}\\ next with a trailing absent optional
        Case('call', '1 t 0 P 1 x32 | { c120 } c121', {'nox': True}, 'corpus'),
        # characters that merely look blank are ordinary characters: \\foo{a}<NBSP>{b}, \\foo<U+3000>[o]{a}
        Case('call', '2 t 0 P 1 c97 t 0 P 1 c160 | { c98 }', {}, 'corpus'),
        Case('call', '2 91.93 0 A 0 t 0 P 1 c12288 | c91 c111 c93 { c97 }', {}, 'corpus'),
        Case('num', 'glue c49 c112 c116 c160 c112 c108 c117 c115 s c50 c112 c116', {}, 'corpus'),
        Case('call', '2 t 0 P 1 c120 91.93 0 A 0 | x32 c110', {}, 'corpus'),
        Case('call', '2 91.93 0 A 0 t 0 P 1 x32 | c91 c112 c93', {'nox': True}, 'corpus'),
    ]


def nontrivial(o):
    return o.spec.startswith('ok') and o.case.stream in ('lit', 'call', 'sigtree', 'mode')


def impl(case, aux):
    st = case.stream
    if st == 'lit':
        kind = {'I': 'int', 'D': 'dec', 'M': 'dim', 'G': 'glue'}[case.line.split()[0]]
        return run_scanner(kind, aux[0].split() + case.line.split('|', 1)[1].split())
    if st == 'num':
        ws = case.line.split()
        return run_scanner(ws[0], ws[1:])
    if st == 'call':
        import plasTeX
        ws = case.line.split()
        n = int(ws[0])
        # rebuild the untyped signature from the specs
        sig, i, k = [], 1, 0
        while k < n:
            sp = ws[i]
            cnt = int(ws[i + 3])
            if sp == 't': sig.append('a%d' % k)
            elif '.' in sp:
                b, e = sp.split('.'); sig.append('%s a%d %s' % (chr(int(b)), k, chr(int(e))))
            else: sig.append(chr(int(sp)))
            i += 4 + cnt
            k += 1
        sigstr = ' '.join(sig)
        # modifier characters are only allowed first by the compiler: declare them through Argument objects directly
        cls = type('foo', (plasTeX.Command,), {'args': 'x'})
        args = []
        i, k = 1, 0
        while k < n:
            sp = ws[i]; cnt = int(ws[i + 3])
            opts = {'expanded': False, 'type': 'nox'} if (case.meta or {}).get('nox') else {'expanded': True}
            if sp == 't': args.append(plasTeX.Argument('a%d' % k, k, dict(opts)))
            elif '.' in sp:
                b, e = sp.split('.'); args.append(plasTeX.Argument('a%d' % k, k, dict(opts, spec=chr(int(b)) + chr(int(e)))))
            else: args.append(plasTeX.Argument('a%d' % k, k, {'spec': chr(int(sp))}))
            i += 4 + cnt; k += 1
        setattr(cls, '@arguments', args)
        return run_parse(cls, aux[0].split() + case.line.split('|', 1)[1].split(), with_src=False)
    if st == 'arg':
        cls, _ = compile_decl(case.meta['sig'])
        return run_parse(cls, case.meta['toks'])
    if st == 'mode':
        return run_mode(case.line.split())
    if st == 'ligs':
        got = mode_observe({'sig': 'a', 'call': '{%s}' % case.meta['text'], 'wrap': case.meta['wrap']})
        return 't:' + cps_of(got['a']) if isinstance(got, dict) else got
    if st in ('sig', 'sigtree'):
        return c05_sig.impl_sig(case, aux) if c05_sig.impl_sig.__code__.co_argcount > 1 else c05_sig.impl_sig(case)
    raise ValueError(st)


def same(a, b):
    """word-wise comparison; `q:` fields numerically (model: exact fraction, implementation: float) within 1e-9 relative"""
    wa, wb = a.split(), b.split()
    if len(wa) != len(wb):
        return False
    prev = ''
    for x, y in zip(wa, wb):
        fil = prev in ('o:1', 'o:2', 'o:3')
        prev = x
        if x[:2] in ('q:', 'i:') and y[:2] in ('q:', 'i:') and x[:2] != y[:2]:
            # readDecimal returns a `number` for a quote-prefixed constant: same value, other class
            x, y = 'q:' + x[2:], 'q:' + y[2:]
        if x.startswith('q:') and y.startswith('q:'):
            try:
                fx = Fraction(x[2:]) if '/' in x else Fraction(float(x[2:]))
                fy = Fraction(y[2:]) if '/' in y else Fraction(float(y[2:]))
            except (ValueError, OverflowError):
                return False
            # fil amounts live next to an offset of 2e9..6e9 in a double: absolute resolution 1e-6 (TeX's own is 2^-16)
            tol = Fraction(1, 10 ** 9) * max(abs(fx), abs(fy), Fraction(1, 1000))
            if fil:
                tol = max(tol, Fraction(2, 10 ** 6))
            if abs(fx - fy) > tol:
                return False
        elif x != y:
            return False
    return True


def split_values(obs):
    """top-level values of an `ok v1 v2 … src:… rest:…` observation"""
    ws = obs.split()[1:]
    vals, depth, cur = [], 0, []
    for w in ws:
        if depth == 0 and (w.startswith('src:') or w.startswith('rest:') or w.startswith('lvl:')):
            break
        cur.append(w)
        if w in ('L(', 'D(', 'g('):
            depth += 1
        elif w == ')':
            depth -= 1
        if depth == 0:
            vals.append(' '.join(cur)); cur = []
    return vals


def judge(o):
    if o.case.stream in ('sig', 'sigtree', 'mode', 'ligs'):
        o.corr_ok = (o.impl == o.model)
        o.prop_ok = (o.spec == '-' or o.impl == o.spec)
        return
    a, m = o.impl, o.model
    if o.case.stream == 'arg' and o.case.meta.get('malformed'):
        # the reconstructed argSource of an unterminated group is not modelled
        a = ' '.join(w for w in a.split() if not w.startswith('src:'))
        m = ' '.join(w for w in m.split() if not w.startswith('src:'))
    o.corr_ok = same(a, m)
    o.prop_ok = (o.spec == '-' or same(o.impl, o.spec))
    if o.case.stream == 'arg' and not o.case.meta.get('malformed') and o.impl.startswith('ok'):
        # property oracle for whole calls, independent of the model: the enable counter is restored, and the positions whose
        # value the generator can write down from the call itself (plain lists, dictionaries, absent optionals) are bound to it
        if 'lvl:' in o.impl:
            o.prop_ok = False
            o.note = 'ParameterCommand enable counter not restored'
        if 'cat:' in o.impl:
            o.prop_ok = False
            o.note = 'the character categories are not restored after the invocation (code points %s): what follows is read differently' % o.impl.split('cat:')[1].split()[0]
        vals = split_values(o.impl)
        for k, want in (o.case.meta.get('expect') or {}).items():
            k = int(k)
            if k >= len(vals) or vals[k].split() != want.split():
                o.prop_ok = False
                o.note = 'argument %d is bound to %s, the call writes %s' % (k, vals[k] if k < len(vals) else '?', want)
        if 'object.at' in o.impl or cps_of('<plasTeX.') in o.impl or cps_of(' element at 0x') in o.impl or cps_of(' object at 0x') in o.impl:
            o.prop_ok = False
            o.note = 'a str argument is bound to the repr of a node object'


def shrink(ctx, o, evaluate):
    """drop following tokens / call tokens one at a time while the failure persists"""
    best = o
    if o.case.stream not in ('lit', 'num', 'call'):
        return best
    improved = True
    while improved:
        improved = False
        head, _, tail = best.case.line.partition('|')
        tw = tail.split()
        cands = []
        if o.case.stream == 'num':
            ws = best.case.line.split()
            cands = [Case('num', ' '.join(ws[:1] + ws[1:i] + ws[i + 1:]), {}, 'shrink') for i in range(1, len(ws))]
        elif '|' in best.case.line:
            cands = [Case(o.case.stream, head + '| ' + ' '.join(tw[:i] + tw[i + 1:]), dict(o.case.meta or {}), 'shrink') for i in range(len(tw))]
        for r in evaluate(cands):
            if not r.prop_ok or (o.prop_ok and not r.corr_ok):
                best, improved = r, True
                break
    return best


DOCS = [
    # (document body, expected register value afterwards, what it exercises)
    ('\\newcount\\mycnt \\openout\\foo=bar \\mycnt=5\\relax', 5, 'type any (\\openout)'),
    ('\\newcount\\mycnt \\hskip 1pt plus 2fil \\mycnt=7\\relax', 7, 'Glue'),
    ('\\newcount\\mycnt \\newdimen\\mydim \\mydim=2.5pt \\mycnt=9\\relax', 9, 'Dimen'),
    ('\\newcount\\mycnt \\setlength{\\parindent}{1.5cm} \\mycnt=11\\relax', 11, 'dimen cast'),
    ('\\newcount\\mycnt \\catcode`\\@=11\\relax \\mycnt=13\\relax', 13, 'Number'),
    ('\\newcount\\mycnt \\def\\a#1{#1}\\a{x} \\mycnt=15\\relax', 15, 'Args'),
    ('\\newcount\\mycnt \\immediate\\write\\foo{hello} \\mycnt=17\\relax', 17, 'write'),
]


def run_doc(body):
    """parse a small document; returns (enable level afterwards, text output, value of \\mycnt or None)"""
    from plasTeX.TeX import TeX
    from plasTeX import TeXDocument, ParameterCommand
    ParameterCommand._enablelevel = 0
    ParameterCommand.enabled = True
    doc = TeXDocument()
    tex = TeX(doc)
    tex.input('\\documentclass{article}\\begin{document}' + body + '\\end{document}')
    try:
        tex.parse()
        val = None
        try:
            val = int(doc.context['mycnt'].value)
        except Exception:
            pass
        txt = doc.textContent
        res = (ParameterCommand._enablelevel, txt, val)
    except Exception as e:
        res = (ParameterCommand._enablelevel, canon_exc(e), None)
    ParameterCommand._enablelevel = 0
    ParameterCommand.enabled = True
    return res


def doc_fails(body, expected):
    lvl, txt, val = run_doc(body)
    return (lvl != 0 or val != expected or ('=%d' % expected) in str(txt)), {'enable_level_after': lvl, 'text': str(txt)[-80:], 'mycnt': val}


def extra_checks(ctx):
    viol, n = [], 0
    samples = []
    docs = list(DOCS)
    rng = ctx.rng
    pieces = ['\\openout\\foo=bar ', '\\hskip 1pt plus 2fil ', '\\mydim=2.5pt ', '\\setlength{\\parindent}{1.5cm}', '\\catcode`\\@=11\\relax ',
              '\\a{x}', 'text ', '\\vspace{2pt}', '\\hspace*{1em}', '\\mycnt=3\\relax ', '\\openin\\foo=baz ', '\\kern3pt ', '\\advance\\mycnt by 2\\relax ']
    for _ in range(30 if ctx.tier == 'quick' else 400):
        k = rng.randint(1, 5)
        v = rng.randint(1, 99)
        body = '\\newcount\\mycnt \\newdimen\\mydim \\def\\a#1{#1}' + ''.join(rng.choice(pieces) for _ in range(k)) + '\\mycnt=%d\\relax' % v
        docs.append((body, v, 'random'))
    for body, expected, what in docs:
        n += 1
        bad, obs = doc_fails(body, expected)
        if len(samples) < 2:
            samples.append({'doc': body, 'observed': obs})
        if bad:
            viol.append(Violation('after the document the parameter-expansion counter is not restored / a later register assignment is not executed (%s)' % what,
                                  {'kind': 'failing-input', 'extra': {'doc': body, 'expected_mycnt': expected},
                                   'observed': obs, 'expected': {'enable_level_after': 0, 'mycnt': expected}}))
    fixed = [{'args': '[ link:url ] text', 'call': '{T}', 'tail': '|A~B 50\\% done % a comment\nnext', 'env': False},
             {'args': '[ link:url ]', 'call': '', 'tail': '|A~B 50\\% done % a comment\nnext', 'env': True},
             {'args': '[ link:url ] text', 'call': '[http://x.org/~u#frag]{T}', 'tail': '|A~B % c\nafter', 'env': False}]
    for spec in fixed + [gen_follow_spec(rng) for _ in range(150 if ctx.tier == 'quick' else 2500)]:
        n += 1
        bad, obs = follow_fails(spec)
        if len(samples) < 4:
            samples.append({'follow': spec, 'observed': obs})
        if bad:
            viol.append(Violation('the text that follows the invocation is read differently from the same text after a macro without arguments',
                                  {'kind': 'failing-input', 'extra': spec, 'observed': obs,
                                   'expected': 'with_arguments == without_arguments'}))
    nest_bad = []
    for spec in [gen_nest_spec(rng) for _ in range(200 if ctx.tier == 'quick' else 3000)]:
        n += 1
        bad, got, want = nest_fails(spec)
        if bad:
            nest_bad.append((len(spec['text']), spec['text'], spec, got, want))
    for _, _, spec, got, want in sorted(nest_bad, key=lambda x: x[:2])[:5]:        # the shortest documents first
        viol.append(Violation('a (nested) invocation does not record / bind exactly the text written for it',
                              {'kind': 'failing-input', 'extra': spec, 'observed': got, 'expected': want}))
    fixed_m = [{'sig': 'a', 'call': "{f'}", 'vals': {'a': "f'"}, 'math': True, 'wrap': '\\mbox{$%s$}'},
               {'sig': '[ o ] a', 'call': "[x--y]{g''}", 'vals': {'o': 'x--y', 'a': "g''"}, 'math': True, 'wrap': '\\hbox{$%s$}'},
               {'sig': 'a', 'call': "{a'--}", 'vals': {'a': "a'--"}, 'math': False, 'wrap': '$\\mbox{%s}$'}]
    for spec in fixed_m + [gen_mode_spec(rng) for _ in range(150 if ctx.tier == 'quick' else 2500)]:
        n += 1
        bad, obs, want = mode_fails(spec)
        if bad:
            viol.append(Violation('an argument written in %s mode is not bound to the text written%s' % (
                                      'math' if spec['math'] else 'text', '' if spec['math'] else ' (with TeX\'s text ligatures)'),
                                  {'kind': 'failing-input', 'extra': spec, 'observed': obs, 'expected': want}))
    return viol, {'evaluations': n, 'distinct_nontrivial': n, 'samples': samples}


# ---- document level: an argument is bound to what was written, whatever encloses the formula / text box it is written in

MATH_WRAPS = ['$%s$', '\\(%s\\)', '\\[%s\\]', '\\mbox{$%s$}', '\\hbox{$%s$}', '\\mbox{t $%s$ t}', '{\\bf $%s$}', '\\begin{equation}%s\\end{equation}',
              '\\ensuremath{%s}', '$\\mbox{a $%s$}$', '\\mbox{\\mbox{$%s$}}', '\\textbf{$%s$}']
TEXT_WRAPS = ['%s', '\\mbox{%s}', '$\\mbox{%s}$', '$a\\hbox{b %s}$', '\\mbox{$\\mbox{%s}$}', '\\textbf{%s}', '$\\textbf{%s}$', '{\\it %s}',
              '\\[\\mbox{%s}\\]']


# the context stack (outermost first) each wrapper puts around the invocation: T formula, F text box, N group
WRAP_STACKS = [('%s', ''), ('$%s$', 'T'), ('\\(%s\\)', 'T'), ('\\mbox{%s}', 'F'), ('\\mbox{$%s$}', 'F T'), ('\\hbox{$%s$}', 'F T'), ('$\\mbox{%s}$', 'T F'),
               ('$a\\hbox{b %s}$', 'T F'), ('\\mbox{$\\mbox{%s}$}', 'F T F'), ('{\\bf $%s$}', 'N T'), ('\\mbox{\\mbox{$%s$}}', 'F F T'),
               ('$\\mbox{a $%s$}$', 'T F T'), ('{{$%s$}}', 'N N T'), ('\\mbox{{%s}}', 'F N')]


def tex_ligatures(text):
    """TeX's text ligatures, in the order of the document's table"""
    from plasTeX import TeXDocument
    for src, dest in TeXDocument.defaultCharsubs:
        text = text.replace(src, dest)
    return text


def mode_observe(spec):
    import plasTeX
    from plasTeX.TeX import TeX
    from plasTeX import ParameterCommand
    ParameterCommand._enablelevel = 0
    ParameterCommand.enabled = True
    tex = TeX()
    tex.ownerDocument.context.addGlobal('foo', type('foo', (plasTeX.Command,), {'args': spec['sig']}))
    tex.input(spec['wrap'] % ('\\foo' + spec['call']))
    try:
        doc = tex.parse()
        node = doc.getElementsByTagName('foo')[0]
        return {k: (None if v is None else str(v.textContent)) for k, v in node.attributes.items()}
    except Exception as e:
        return canon_exc(e)


def mode_fails(spec):
    got = mode_observe(spec)
    want = {k: (None if v is None else (v if spec['math'] else tex_ligatures(v))) for k, v in spec['vals'].items()}
    return got != want, {'bound': got, 'document': spec['wrap'] % ('\\foo' + spec['call'])}, want


def gen_mode_spec(rng):
    def text():
        return ''.join(rng.choice(["'", "''", '-', '--', '---', '`', '``', 'a', 'f', 'x', '1', 'y']) for _ in range(rng.randint(1, 4)))
    sig, call, vals = [], '', {}
    if rng.random() < 0.5:
        sig.append('[ o ]')
        if rng.random() < 0.6:
            t = text(); call += '[%s]' % t; vals['o'] = t
        else:
            vals['o'] = None
    for name in 'ab'[:rng.randint(1, 2)]:
        sig.append(name)
        t = text(); call += '{%s}' % t; vals[name] = t
    math = rng.random() < 0.55
    return {'sig': ' '.join(sig), 'call': call, 'vals': vals, 'math': math, 'wrap': rng.choice(MATH_WRAPS if math else TEXT_WRAPS)}


# ---- document level: invocations nested in arguments (also of the same macro): every invocation records exactly its own text

NEST_SIGS = ['[ o ] x', '* x', 'x y', '* [ o ] ( p ) x', 'x', 'x [ o ]', '( p ) x y', '< q > x']


def nest_items(sig):
    """[(name, opener, closer, optional)] of a signature of the simple shapes above"""
    out, ws, i = [], sig.split(), 0
    while i < len(ws):
        w = ws[i]
        if w == '*': out.append(('*modifier*', '*', '', True)); i += 1
        elif w in '[(<': out.append((ws[i + 1], w, {'[': ']', '(': ')', '<': '>'}[w], True)); i += 3
        else: out.append((w, '{', '}', False)); i += 1
    return out


def gen_nest_call(rng, sigs, name, depth, acc):
    """text of one invocation of `name`; appends (name, written argSource, {argument: written content or None}) to acc in pre-order"""
    entry = [name, None, {}]
    acc.append(entry)
    pieces, pending = [], set()
    for arg, op, cl, optional in nest_items(sigs[name]):
        if optional and (op in pending or rng.random() < 0.45):
            pending.add(op)
            entry[2][arg] = None
            continue
        pending = set()
        if op == '*':
            pieces.append('*'); entry[2][arg] = '*'
            continue
        body = ''
        for _ in range(rng.choice([1, 1, 2])):
            if depth > 0 and rng.random() < 0.55:
                body += gen_nest_call(rng, sigs, rng.choice(sorted(sigs)), depth - 1, acc)
            else:
                body += rng.choice(['a', 'b1', 'uv', 's', '7'])
        pieces.append(op + body + cl)
        entry[2][arg] = body
    entry[1] = ''.join(pieces)
    return '\\' + name + entry[1]


def gen_nest_spec(rng):
    sigs = {'foo': rng.choice(NEST_SIGS), 'bar': rng.choice(NEST_SIGS)}
    acc = []
    text = gen_nest_call(rng, sigs, 'foo', rng.choice([1, 2, 2, 3]), acc)
    return {'sigs': sigs, 'text': text + '|rest', 'want': [[n, a, b] for n, a, b in acc]}


def nest_observe(spec):
    import plasTeX
    from plasTeX.TeX import TeX
    from plasTeX import ParameterCommand
    ParameterCommand._enablelevel = 0
    ParameterCommand.enabled = True
    tex = TeX()
    for name, sig in sorted(spec['sigs'].items()):
        tex.ownerDocument.context.addGlobal(name, type(name, (plasTeX.Command,), {'args': sig}))
    tex.input(spec['text'])
    got = []

    def src(v):
        return None if v is None else str(getattr(v, 'source', v))

    def walk(container):
        for child in list(getattr(container, 'childNodes', [])):
            if getattr(child, 'nodeName', None) in spec['sigs'] and hasattr(child, 'arguments'):
                got.append([child.nodeName, child.argSource, {a.name: src(child.attributes.get(a.name)) for a in child.arguments}])
                for a in child.arguments:
                    v = child.attributes.get(a.name)
                    if hasattr(v, 'childNodes'):
                        walk(v)
            else:
                walk(child)
    try:
        out = tex.parse()
        walk(out)
        tail = str(out.textContent)[-5:]
        return {'nodes': got, 'tail': tail}
    except Exception as e:
        return canon_exc(e)


def nest_fails(spec):
    got = nest_observe(spec)
    want = {'nodes': [[n, a, dict(b)] for n, a, b in spec['want']], 'tail': '|rest'}
    return got != want, got, want


def replay_extra(ctx, extra):
    if 'sigs' in extra:
        return nest_fails(extra)[0]
    if 'wrap' in extra:
        return mode_fails(extra)[0]
    if 'args' in extra:
        return follow_fails(extra)[0]
    return doc_fails(extra['doc'], extra['expected_mycnt'])[0]


# ---- document level, through the real tokenizer: what follows an invocation is read exactly as if the macro took no arguments

FOLLOW_ARGS = [  # (declaration, written when present, optional?)
    ('a%d', '{x%d}', False), ('[ o%d ]', '[y%d]', True), ('[ u%d:url ]', '[http://h.org/~u#f%%20&z%d]', True), ('u%d:url', '{http://h.org/~v#g&%d}', False),
    ('( p%d:str )', '(pq%d)', True), ('< q%d >', '<r%d>', True), ('k%d:dict', '{k=v,f%d}', False), ('[ l%d:list ]', '[a,b%d]', True),
    ('n%d:int', '{12%d}', False), ('[ s%d:str ]', '[st%d]', True), ('i%d:id', '{lab%d}', False), ('[ c%d:chr ]', '[c%d]', True)]
FOLLOW_TAILS = ['|A~B 50\\% done % a comment\nnext', '|x~y', '| 100% gone\nkept ~ z', '|p\\%q~r % c\n', '|plain text']


def follow_source(spec, with_args):
    name = 'fooenv' if spec['env'] else 'foo'
    call = spec['call'] if with_args else ''
    if spec['env']:
        return '\\begin{%s}%s%s\\end{%s} after' % (name, call, spec['tail'], name)
    return '\\%s%s%s' % (name, call, spec['tail'])


def follow_observe(spec, with_args):
    """source and text of what follows the invocation (command: the rest of the document; environment: its body)"""
    import plasTeX
    from plasTeX.TeX import TeX
    from plasTeX import TeXDocument, ParameterCommand
    ParameterCommand._enablelevel = 0
    ParameterCommand.enabled = True
    base = plasTeX.Environment if spec['env'] else plasTeX.Command
    name = 'fooenv' if spec['env'] else 'foo'
    cls = type(name, (base,), {'args': spec['args'] if with_args else ''})
    doc = TeXDocument()
    doc.context.addGlobal(name, cls)
    tex = TeX(doc)
    tex.input(follow_source(spec, with_args))
    try:
        out = tex.parse()
        node = out.getElementsByTagName(name)[0]
        if spec['env']:
            return 'body:%r|%r' % (node.textContent, ''.join(getattr(c, 'source', str(c)) for c in node.childNodes))
        kids = list(out.childNodes)
        i = [k for k, c in enumerate(kids) if c is node][0]
        after = kids[i + 1:]
        return 'after:%r|%r' % (''.join(getattr(c, 'textContent', str(c)) for c in after), ''.join(getattr(c, 'source', str(c)) for c in after))
    except Exception as e:
        return canon_exc(e)


def follow_fails(spec):
    got = follow_observe(spec, True)
    want = follow_observe(spec, False)
    return got != want, {'with_arguments': got, 'without_arguments': want, 'document': follow_source(spec, True)}


def gen_follow_spec(rng):
    decl, call = [], []
    pending = set()        # openers of optional arguments left out since the last written one (LaTeX's own ambiguity)
    for i in range(rng.randint(1, 4)):
        d, c, opt = rng.choice(FOLLOW_ARGS)
        decl.append(d % i)
        if not opt or (c[0] not in pending and rng.random() < 0.5):
            call.append(c % i)
            pending = set()
        else:
            pending.add(c[0])
    return {'args': ' '.join(decl), 'call': ''.join(call), 'tail': rng.choice(FOLLOW_TAILS), 'env': rng.random() < 0.4}


def search(ctx, evaluate, corr_bad):
    """proof/tie broken, no property failure in the main batch: shrunk disagreements, then a larger seeded batch against the Spec oracle"""
    rng = random.Random(ctx.seed * 7919 + 5)
    for o in corr_bad[:20]:
        s = shrink(ctx, o, evaluate)
        if not s.prop_ok:
            return Violation('implementation differs from the property oracle (shrunk disagreement)', {'kind': 'failing-input', 'outcome': s.to_json()})
    cases = [gen_lit_case(rng) for _ in range(30000)] + [gen_call_case(rng) for _ in range(15000)]
    cases += [finish_arg_case(gen_arg_case(rng)) for _ in range(8000)]
    cases += list(c05_sig.gen_sig_cases(rng, 8000))
    bad = [o for o in evaluate(cases) if not o.prop_ok]
    if bad:
        o = shrink(ctx, bad[0], evaluate)
        return Violation('implementation differs from the property oracle (found by search)', {'kind': 'failing-input', 'outcome': o.to_json()})
    # unbalanced enable/disable path: name the function and look for a document that shows it
    try:
        from framework import run_driver
        f = run_driver(ID, [Case('paths', '', {})])[0][0]
    except Exception:
        f = ''
    ctx.say('search: skeleton table says', f)
    class _C: pass
    c2 = _C(); c2.rng = rng; c2.tier = 'thorough'
    v, _ = extra_checks(c2)
    return v[0] if v else None
