"""C09 - Every reference resolves to the object its label names, wherever the label is.

streams
  lbl  : operation histories (numbered / number / label / ref) run on a real `Context` with stub
         nodes: `stub.refstepcounter`, `stub.postParse`, `Context.label`, `Context.ref` are the real
         functions; the whole final table (idref slots, labels, pending queue, ids, numbers,
         currentlabel) is compared with the Lean model, the resolution / printed number / identifier
         view with the Lean Spec oracle (`resolveSpec`, `numberOf`, `identOf`).
         Exhaustive up to symmetry for short histories, random beyond (85% well-formed, 15% malformed:
         blank labels, duplicate labels, re-used slots, labels without object, explicit node=).
  doc9 : generated LaTeX documents (labels on sections, subsections, equations, the rows of eqnarray
         environments (with eqnarray* / figure* / table* siblings in either order), enumerate items,
         figures, tables, theorems; label names of one or several words, with punctuation, `_`, upper case; \\ref/\\pageref before, after and inside the labelled object;
         dangling references; itemize items as unlabelled numbered objects, footnotes as reference sites) parsed by the
         real interpreter; each document comes with variants in which all references are moved
         before / after / inside their labelled objects.  The event history of the document goes to the
         driver; observation = for every \\ref node which object `idref['label']` *is* (identity, object
         index in document order), the printed number, every object's id.
  parse9: one call of a macro with a random signature (leading `*`, mandatory / optional arguments; counter None, ''
         or a name; numbered level or not) with labels, references and nested numbered macros inside its arguments
         and events before / after it, parsed by the real `Macro.parse` on real classes; the driver turns the call into
         events with the model of the protocol (`ParseEvents.parse`: preParse / preArgument / postArgument /
         refstepcounter / postParse) and runs them; the whole final table is compared as in `lbl`.
  rerun9: the edit / re-run cycle of the command line: `Compile.run` renders another job and the previous
         version of the document in a scratch directory (both write their `.paux`), the document is edited
         (a block inserted in front, a labelled section removed) and parsed again with `Compile.parse`.
         The driver gets the `.paux` files found (`F<job> S<label>@<node>:<number>`) and the history of the
         edited document; model = `compileParse` (restore every file but the job's own, then run), spec =
         `resolveSpecX` (own labels as always, other jobs' labels mean their objects, the stale file means nothing).
  extra: bibliography keys (\\bibitem / \\cite, both orders, missing keys) and, in the thorough tier,
         rendered HTML of a sample of the documents (the text printed for each \\ref).
"""
import logging, random, re
from framework import Case, Violation

ID = 'C09'
LEAN_MODULE = 'PlasVerif.Properties.C09'
LEVEL_TEXT = ('Lean 4 theorems over a line-by-line model of Context.label / Context.ref / Macro.refstepcounter / Macro.id / Macro.idref: '
              'resolve_order_independent proves with the pending-queue invariant, for every history of any length with pairwise distinct labels, '
              'that each reference holds exactly the object current at its label event if the label is written anywhere (before or after the reference) '
              'and a placeholder that is no object otherwise; permutation_invariant, dangling_resolve_to_no_object, label_after_section_attaches_to_it, '
              'label_becomes_identifier, distinct_labels_distinct_ids and ref_number_is_target_number are proved at the same generality. '
              'label_in_argument_names_the_macro / label_after_call_names_the_macro / starred_macro_is_current_and_unnumbered / uncountered_macro_is_transparent '
              'are proved over a model of the event protocol of Macro.parse for every signature: a label in any argument of, or directly after, a numbered macro names it. '
              'resolve_with_restored / compile_resolves_current_document extend this to Context.restore and the loop of Compile.parse: labels pre-loaded from other jobs\' .paux files '
              'do not disturb the document\'s own references and the job\'s own stale .paux is ignored (own_paux_is_ignored; stale_own_labels_counterexample shows why it must be). '
              'The model is tied to the code by differential execution of operation histories on a real Context (exhaustive for short histories) and of '
              'generated documents with their reference-moved variants. Bibliography keys and the rendered text of a reference are carried by the document streams only.')
LEVEL_NOTE = ('Trusted: Lean kernel (axioms propext, Classical.choice, Quot.sound only), the correspondence harness and its generators, CPython. '
              'Modelled not verified: which macros call refstepcounter and when (tied by doc9), castLabel/castRef string normalisation, counters (C08), '
              'bibitem/cite userdata table, renderer templates.')
TECHNIQUE = 'Lean 4 proof (invariant over operation histories, induction on the history) + differential correspondence (component and document level)'
TRUSTED = ['when a macro becomes the current labelled object is modelled (ParseEvents, stream parse9); which counter each LaTeX construct carries and the '
           'special invoke methods (eqnarray rows, captions, items) are tied by the doc9 stream only',
           'bibliography keys (bibitem.invoke / cite.bibitems) and rendered reference text are checked at document level only',
           'the glob / basename test of Compile.parse and the pickle format of .paux files are tied by the rerun9 stream only (format: C20)']
ASSUMPTIONS = ['labels pairwise distinct (NF-doc); every \\ref node parses its argument once',
               'every generated document is parsed with the per-class caches of plasTeX (Macro.locals) cleared, i.e. as in a fresh interpreter; carry-over between documents is C17',
               'labels are written inside a numbered object before any nested numbered object, or directly after a sectioning command',
               'a generated id (a0000000001 ...) never equals a label written in a document']
RULE = ('lbl: canonical (symmetry-reduced) histories enumerated exhaustively up to the stated length plus seeded random histories; doc9: documents of the '
        'C09 grammar generated from the seed, each with 4 placements of the same references; non-trivial = the spec oracle is defined (well-formed history) '
        'and the history contains at least one label that is both written and referenced; distinct = distinct driver request line')
EXHAUSTIVE = {'quick': 'lbl: all histories up to renaming with <= 6 operations over <= 2 numbered nodes, <= 2 labels, <= 3 referring objects (1 slot)',
              'thorough': 'lbl: all histories up to renaming with <= 6 operations over <= 3 numbered nodes, <= 3 labels, <= 3 referring objects (1 slot)'}
CASE_TIMEOUT = 30
GENERATED = []

logging.disable(logging.CRITICAL)

# ---------------------------------------------------------------- names

_FORMS = ['lab%d', 'sec:%d', 'eq.%d', 'it-%d', 'Fig_%dX', 'sec basic facts %d',     # a name of several words
          "eq:a--b_%d", "it's_%d"]     # ligature / quote characters next to a character that is active in math mode


def lname(k):
    return _FORMS[k % 8] % k


_LNUM = re.compile(r"^(?:lab|sec:|eq\.|it-|Fig_|sec basic facts |eq:a--b_|it's_)(\d+)X?$")


def enc(name):
    """label names inside the space separated observation strings"""
    return str(name).replace(' ', '\u2423')


def lnum(s):
    m = _LNUM.match(s) if isinstance(s, str) else None
    if m and lname(int(m.group(1))) == s:
        return int(m.group(1))
    return None


def parse_ops(line):
    ops = []
    for w in line.split():
        if w[0] in 'JFS':
            continue                      # rerun9: the `.paux` files found in the directory
        if w[0] == 'N':
            ops.append(('N', int(w[1:])))
        elif w[0] == 'V':
            a, b = w[1:].split(':'); ops.append(('V', int(a), int(b)))
        elif w[0] == 'L':
            if '@' in w:
                a, b = w[1:].split('@'); ops.append(('L', int(a), int(b)))
            else:
                ops.append(('L', int(w[1:]), None))
        elif w[0] == 'R':
            k, l = w[1:].split(':'); r, s = k.split('.'); ops.append(('R', int(r), int(s), int(l)))
        else:
            raise ValueError(w)
    return ops


def op_word(op):
    if op[0] == 'N': return 'N%d' % op[1]
    if op[0] == 'V': return 'V%d:%d' % (op[1], op[2])
    if op[0] == 'L': return 'L%d' % op[1] if op[2] is None else 'L%d@%d' % (op[1], op[2])
    return 'R%d.%d:%d' % (op[1], op[2], op[3])


def line_of(ops):
    return ' '.join(op_word(o) for o in ops)


# ---------------------------------------------------------------- generation: lbl

def canonical_histories(maxlen, maxn=2, maxl=2, maxr=3):
    """all histories up to renaming: node / label / referrer numbers are introduced in increasing order"""
    out = []

    def rec(h, un, ul, ur):
        if h:
            out.append(list(h))
        if len(h) == maxlen:
            return
        for n in range(1, min(maxn, un + 1) + 1):
            h.append(('N', n)); rec(h, max(un, n), ul, ur); h.pop()
        for l in range(1, min(maxl, ul + 1) + 1):
            h.append(('L', l, None)); rec(h, un, max(ul, l), ur); h.pop()
        for r in range(1, min(maxr, ur + 1) + 1):
            for l in range(1, min(maxl, ul + 1) + 1):
                h.append(('R', r, 0, l)); rec(h, un, max(ul, l), max(ur, r)); h.pop()
    rec([], 0, 0, 0)
    return out


def random_wf_history(rng, size=None):
    """well-formed: distinct labels, distinct (object, slot) keys; refs before/after/between"""
    nl = rng.randint(1, 6)
    labels = rng.sample(range(1, 40), nl)
    dangling = [l for l in rng.sample(range(40, 60), rng.randint(0, 2))]
    skel = []
    node = 0
    for l in labels:
        r = rng.random()
        if r < 0.75 or node == 0:
            node += 1
            skel.append(('N', node))
            if rng.random() < 0.7:
                skel.append(('V', node, rng.randint(1, 30)))
            for _ in range(rng.randint(0, 2)):
                if rng.random() < 0.3:
                    node += 1; skel.append(('N', node))   # an unlabelled numbered object
            skel.append(('L', l, None))
            if rng.random() < 0.3:
                skel.append(('V', skel[-2][1] if skel[-2][0] == 'N' else node, rng.randint(1, 30)))
        elif r < 0.85:
            skel.append(('L', l, None))                    # a second label on the current object
        elif r < 0.93:
            skel.append(('L', l, rng.randint(1, max(1, node))))   # explicit node=
        else:
            skel.insert(0, ('L', l, None))                 # label before any object: names nothing
    nref = rng.randint(1, 8) if size is None else size
    keys = set()
    refs = []
    for i in range(nref):
        l = rng.choice(labels + labels + dangling) if dangling else rng.choice(labels)
        r = rng.randint(1, nref)
        s = 0 if rng.random() < 0.8 else rng.randint(1, 2)
        while (r, s) in keys:
            r += 1
        keys.add((r, s))
        refs.append(('R', r, s, l))
    h = list(skel)
    for ref in refs:
        h.insert(rng.randint(0, len(h)), ref)
    if rng.random() < 0.15:
        h.insert(rng.randint(0, len(h)), ('L', 0, None))
    if rng.random() < 0.1:
        h.insert(rng.randint(0, len(h)), ('R', 90 + rng.randint(0, 3), 0, 0))
    return h


def random_any_history(rng):
    """malformed / arbitrary: duplicates, blanks, re-used slots, everything mixed"""
    k = rng.randint(1, 14)
    h = []
    for _ in range(k):
        r = rng.random()
        if r < 0.2: h.append(('N', rng.randint(1, 3)))
        elif r < 0.3: h.append(('V', rng.randint(1, 3), rng.randint(1, 9)))
        elif r < 0.55: h.append(('L', rng.randint(0, 3), rng.choice([None, None, None, rng.randint(1, 3)])))
        else: h.append(('R', rng.randint(1, 3), rng.randint(0, 1), rng.randint(0, 3)))
    return h


def generate(ctx):
    rng = ctx.rng
    quick = ctx.tier == 'quick'
    for h in (canonical_histories(6) if quick else canonical_histories(6, 3, 3, 3)):
        yield Case('lbl', line_of(h), {'seed': 0})
    n = 3000 if quick else 60000
    for i in range(n):
        h = random_wf_history(rng) if rng.random() < 0.85 else random_any_history(rng)
        yield Case('lbl', line_of(h), {'seed': rng.randrange(1 << 30)})
    ndoc = 150 if quick else 2500
    for i in range(ndoc):
        for c in doc_cases(rng.randrange(1 << 30), malformed=(rng.random() < 0.15)):
            yield c
    for i in range(8 if quick else 120):
        for c in rerun_cases(rng.randrange(1 << 30)):
            yield c
    for i in range(1500 if quick else 20000):
        yield Case('parse9', gen_parse_case(rng), {'seed': rng.randrange(1 << 30)})


def corpus():
    return [
        Case('lbl', 'R1.0:1 N1 L1', {'seed': 1}, 'corpus'),                       # forward reference
        Case('lbl', 'N1 L1 R1.0:1', {'seed': 2}, 'corpus'),                       # backward reference
        Case('lbl', 'R1.0:1 R2.0:1 R3.0:2 N1 L1 N2 L2 R4.0:3', {'seed': 3}, 'corpus'),
        Case('lbl', 'R1.0:1 R1.1:2 N1 L2 N2 L1', {'seed': 4}, 'corpus'),          # two slots of one object, resolved in the other order
        Case('lbl', 'R1.0:1 L1 N1 R2.0:1', {'seed': 5}, 'corpus'),                # label without object keeps the queue
        Case('lbl', 'N1 R1.0:1 R1.1:2 L1 L2', {'seed': 6}, 'corpus'),             # two labels on one object, slots patched by id
        Case('lbl', 'R1.0:1 N1 L1 R1.0:2 N2 L2', {'seed': 7}, 'corpus'),          # re-used slot (malformed)
        Case('lbl', 'R1.0:0 L0 N1 L0@1 R2.0:1 L1@1', {'seed': 8}, 'corpus'),      # blank labels
        Case('lbl', 'R1.0:5 R2.0:5 N1 L5 R3.0:5', {'seed': 6}, 'corpus'),             # a name of several words (style chosen by the seed)
        Case('lbl', 'R1.0:5 R2.0:5 N1 L5 R3.0:5', {'seed': 7}, 'corpus'),
        Case('lbl', 'R1.0:5 R2.0:5 N1 L5 R3.0:5', {'seed': 9}, 'corpus'),
    ] + doc_cases(12345, False) + doc_cases(777, True) + doc_cases(23, False) + doc_cases(42, False) + rerun_cases(4242) + [
        Case('parse9', 'B N90 V90:1 R2.0:5 ; M 1 2 4 1 ; A 1 0 ; A 0 1 L5 R1.0:6 ; A 0 0 ; A 0 1 N7 V7:1 L6 ; E R3.0:5 L9', {'seed': 1}, 'corpus'),
        Case('parse9', 'B N90 V90:1 L12 ; M 1 2 6 1 ; A 1 1 ; A 0 1 L3 ; E L38 R2.0:38 R3.0:3', {'seed': 2}, 'corpus'),   # starred: current, no number
        Case('parse9', 'B N90 V90:1 ; M 1 0 4 1 ; A 0 1 L7 R1.0:7 ; E L17', {'seed': 3}, 'corpus'),                       # no counter: transparent
        Case('parse9', 'B N90 V90:1 ; M 1 2 3 0 ; E L17 R1.0:17', {'seed': 4}, 'corpus'),                                 # no arguments, level not numbered
    ]
    # seeds 23, 42: eqnarray* before an eqnarray whose later rows carry labels; labels of several words


def _refd_and_labelled(line):
    ops = parse_ops(line)
    ls = {o[1] for o in ops if o[0] == 'L' and o[1]}
    rs = {o[3] for o in ops if o[0] == 'R' and o[3]}
    return bool(ls & rs)


def nontrivial(o):
    line = (o.aux[0] if o.aux else '') if o.case.stream == 'parse9' else o.case.line
    return o.spec not in ('-', '') and not o.impl.startswith('err') and _refd_and_labelled(line)


# ---------------------------------------------------------------- implementation side: lbl

_env = {}


def _lbl_env():
    e = _env.get('lbl')
    if e is None or e['uses'] > 400:
        from plasTeX.TeX import TeX
        from plasTeX import TeXDocument, Command
        doc = TeXDocument()
        tex = TeX(doc)
        doc.context.newcounter('stubcnt')

        class Stub(Command):
            counter = 'stubcnt'

        class Referrer(Command):
            pass
        e = _env['lbl'] = {'doc': doc, 'tex': tex, 'Stub': Stub, 'Referrer': Referrer, 'uses': 0}
    e['uses'] += 1
    return e


def canon_exc(e):
    n = type(e).__name__
    return 'err:' + n if n in ('KeyError', 'AttributeError', 'TypeError', 'IndexError', 'ValueError') else 'err:other:' + n


# spellings of label number k at component level (the text goes to Context.label / Context.ref unchanged): names of
# several words, runs of blanks and tabs inside the name, punctuation, upper case, non-ASCII, bare numbers
LBL_STYLES = ['lab%d', 'sec:%d', 'eq.%d', 'it-%d', 'Fig_%dX', 'sec basic facts %d', 'two  blanks  %d', 'tab\there %d',
              '%d', 'Th\u00e9or\u00e8me-%d', 'a/b.c,%d;', 'UPPER%dCase', 'x %d y', 'n-%d']
PADS = ['', '', '', ' ', '  ', '\t', '\n']
BLANKS = ['', ' ', '\t ', '\n']


def slotname(s):
    return 'label' if s == 0 else 'slot%d' % s


def run_lbl(line, seed):
    import plasTeX
    e = _lbl_env()
    doc, tex = e['doc'], e['tex']
    ctx = doc.context
    ctx.labels, ctx.persistentLabels, ctx.refs, ctx.currentlabel = {}, {}, {}, None
    rng = random.Random(seed)
    ops = parse_ops(line)
    stubs, refobjs = {}, {}
    style = rng.choice(LBL_STYLES) if seed else None      # seed 0 (exhaustive part): the document spellings
    names = {}
    for op in ops:
        l = op[1] if op[0] == 'L' else op[3] if op[0] == 'R' else 0
        if l:
            names[l] = (style % l) if style else lname(l)
    number_of = {v: k for k, v in names.items()}

    def lnum(x):
        return number_of.get(x) if isinstance(x, str) else None

    def stub(n):
        if n not in stubs:
            s = e['Stub'](); s.ownerDocument = doc; stubs[n] = s
        return stubs[n]

    def refobj(r):
        if r not in refobjs:
            o = e['Referrer'](); o.ownerDocument = doc; refobjs[r] = o
        return refobjs[r]

    def lstr(l):
        if l == 0:
            return rng.choice(BLANKS)
        return rng.choice(PADS) + names[l] + rng.choice(PADS)
    keys, nodes = [], set()
    for op in ops:
        if op[0] == 'N':
            nodes.add(op[1]); stub(op[1]).refstepcounter(tex)
        elif op[0] == 'V':
            nodes.add(op[1]); ctx.counters['stubcnt'].setcounter(op[2]); stub(op[1]).postParse(tex)
        elif op[0] == 'L':
            if op[2] is None:
                ctx.label(lstr(op[1]))
            else:
                nodes.add(op[2]); ctx.label(lstr(op[1]), stub(op[2]))
        else:
            if (op[1], op[2]) not in keys:
                keys.append((op[1], op[2]))
            ctx.ref(refobj(op[1]), slotname(op[2]), lstr(op[3]))
    for n in nodes:
        stub(n)
    return state_string(ctx, keys, nodes, stubs, refobjs, lnum)


def state_string(ctx, keys, nodes, stubs, refobjs, lnum):
    """the whole cross-reference state in the format of the Lean driver's `stateStr`"""
    import plasTeX
    stub = stubs.get
    byid = {id(s): n for n, s in stubs.items()}

    def target(v):
        if v is None:
            return '-'
        if id(v) in byid:
            return 'n%d' % byid[id(v)]
        if type(v) is plasTeX.Macro and v.parentNode is None:
            k = lnum(getattr(v, '@id', None))
            return 'p%d' % k if k is not None else 'p?'
        return '?' + type(v).__name__

    def numstr(v):
        r = getattr(v, 'ref', None)
        if r is None:
            return '-'
        return getattr(r, 'textContent', str(r)).strip() or '-'
    I = ['%d.%d=%s' % (r, s, target(refobjs[r].idref.get(slotname(s)))) for r, s in keys]
    L = ['%d=%s' % (lnum(k) if lnum(k) is not None else -1, target(v)[1:]) for k, v in ctx.labels.items()]
    P = ['%d=%s' % (lnum(k) if lnum(k) is not None else -1,
                    ','.join(str(next((r for r, o in refobjs.items() if o is x), -1)) for x in v)) for k, v in ctx.refs.items()]
    D = []
    for n in sorted(nodes):
        k = lnum(getattr(stub(n), '@id', None))
        if k is not None:
            D.append('%d=%d' % (n, k))
    V = ['%d=%s' % (n, numstr(stub(n))) for n in sorted(nodes) if numstr(stub(n)) != '-']
    C = target(ctx.currentlabel)[1:] if ctx.currentlabel is not None else '-'
    W = []
    for r, s in keys:
        v = refobjs[r].idref.get(slotname(s))
        W.append('%d.%d=%s' % (r, s, numstr(v) if v is not None else '-'))
    key = lambda w: int(w.split('=')[0])
    if dict(ctx.labels) != dict(ctx.persistentLabels):
        return 'persistentLabels differ from labels'
    return 'I %s | L %s | P %s | D %s | V %s | C %s | W %s' % (
        ' '.join(I), ' '.join(sorted(L, key=key)), ' '.join(sorted(P, key=key)), ' '.join(D), ' '.join(V), C, ' '.join(W))


def view_of_state(full, line):
    """the property view (what the Spec speaks about) of a full state string"""
    secs = dict((p.strip().split(' ', 1) + [''])[:2] for p in full.split(' | '))
    di = dict(w.split('=') for w in secs.get('I', '').split())
    dw = dict(w.split('=') for w in secs.get('W', '').split())
    I, W = [], []
    for o in parse_ops(line):
        if o[0] == 'R' and o[3] != 0:
            k = '%d.%d' % (o[1], o[2])
            v = di.get(k, '-')
            I.append(k + '=' + ('o' + v[1:] if v.startswith('n') else 'none' if v.startswith('p') else v))
            W.append(k + '=' + dw.get(k, '-'))
    return 'I %s | W %s | D %s' % (' '.join(I), ' '.join(W), secs.get('D', ''))


# ---------------------------------------------------------------- generation + implementation: doc9

REMOVED_LABEL = 58
FOREIGN = [(80, 901, '1'), (81, 902, '1'), (82, 903, '2')]     # label, model node, number in the other job


class DocGen:
    """one document skeleton (objects + labels) from a seed; `render(placement)` gives the LaTeX text,
    the event history, the object kinds in document order and the numbers LaTeX's rules give them."""

    def __init__(self, seed, malformed=False, old=False):
        rng = random.Random(seed)
        self.malformed = malformed
        self.nextlabel = rng.randint(1, 5)
        self.blocks = []
        self.early_label = None
        self.dup = malformed and rng.random() < 0.5
        self.dup_at = rng.randint(1, 3)
        self.blank = malformed and rng.random() < 0.5
        if malformed and rng.random() < 0.4:
            self.early_label = self.newlabel(rng, 1.0)
        nb = rng.randint(2, 7)
        for _ in range(nb):
            b = self.gen_block(rng)
            if b[0] == 'eqn' and rng.random() < 0.5:
                # the starred and the numbered form of an environment in one document, in either order
                self.blocks.append(('eqn', not b[1], [(None if not b[1] else self.newlabel(rng, 0.7), rng.random() < 0.3)
                                                      for _ in range(rng.randint(1, 3))]))
            self.blocks.append(b)
        if not any(b[0] == 'sec' for b in self.blocks):
            self.blocks.insert(0, ('sec', 1, rng.choice([1, 2]), self.newlabel(rng, 1.0), False))
        if old:
            # the version of the document before the last edit: its first block was not there yet (so numbers
            # differ) and it still had a labelled section at the end (label REMOVED_LABEL, gone in the new version)
            self.blocks = self.blocks[1:] + [('sec', 1, 2, REMOVED_LABEL, False)]
        self.labels = []
        self.render({})     # collects self.labels, self.nsites, self.inside

    def newlabel(self, rng, p=0.75):
        if rng.random() < p:
            self.nextlabel += rng.randint(1, 3)
            return self.nextlabel
        return None

    def gen_list(self, rng, depth):
        if depth > 1 or rng.random() < 0.75:
            kind = 'enum'
        else:
            kind = 'itemize'
        items = []
        for _ in range(rng.randint(1, 3)):
            lab = self.newlabel(rng, 0.6) if kind == 'enum' else None
            nested = self.gen_list(rng, depth + 1) if depth < 2 and rng.random() < 0.25 else None
            items.append((lab, rng.random() < 0.5, nested))
        return (kind, items)

    def gen_block(self, rng):
        r = rng.random()
        if r < 0.2:
            return ('para', rng.random() < 0.25)
        if r < 0.42:
            return ('sec', rng.choice([1, 1, 2]), rng.choice([1, 2, 2]), self.newlabel(rng, 0.85), rng.random() < 0.15)
        if r < 0.52:
            return ('eq', self.newlabel(rng, 0.85), rng.random() < 0.4)
        if r < 0.62:
            # a multi-line display: numbered (every row is an object that can carry a label) or starred
            star = rng.random() < 0.35
            rows = [(None if star else self.newlabel(rng, 0.7), rng.random() < 0.3) for _ in range(rng.randint(1, 4))]
            return ('eqn', star, rows)
        if r < 0.74:
            return self.gen_list(rng, 1)
        if r < 0.86:
            return ('float', rng.choice(['figure', 'table', 'figure', 'table', 'figure*', 'table*']), self.newlabel(rng, 0.85),
                    rng.random() < 0.5)
        return ('thm', rng.choice(['thm', 'lem']), self.newlabel(rng, 0.85), rng.random() < 0.3,
                self.newlabel(rng, 0.8) if rng.random() < 0.3 else False)

    # -- rendering
    def render(self, placement):
        self.out, self.ev, self.kinds, self.nums = [], [], [], []
        self.site = 0
        self.refno = 0
        self.labels = []
        self.inside = {}          # label -> site inside its object
        self.pending_inside = None
        self.dup_done = False
        self.nlab = 0
        self.placement = placement
        self.cnt = {'sec': 0, 'sub': 0, 'eq': 0, 'figure': 0, 'table': 0, 'thm': 0}
        o = self.out
        o.append('\\documentclass{article}\n\\newtheorem{thm}{Theorem}\n\\newtheorem{lem}[thm]{Lemma}\n\\begin{document}\n')
        if self.early_label is not None:
            o.append('\\label{%s}\n' % lname(self.early_label)); self.ev.append(('L', self.early_label, None)); self.labels.append(self.early_label)
        o.append('Intro '); self.do_site(); o.append('\n\n')
        for b in self.blocks:
            if b[0] in ('enum', 'itemize'):
                self.r_list(b, 1)
            else:
                getattr(self, 'r_' + b[0])(b)
        o.append('Outro '); self.do_site(); o.append('\n\\end{document}\n')
        self.nsites = self.site
        return ''.join(o)

    def obj(self, kind, num):
        self.kinds.append(kind); self.nums.append(num)
        n = len(self.kinds)
        self.ev.append(('N', n))
        return n

    def do_label(self, lab):
        if lab is None:
            return
        if self.dup and not self.dup_done and len(self.labels) >= 1 and self.labels[0] is not None and self.nlab == self.dup_at:
            lab = self.labels[0]            # malformed: a label written twice
            self.dup_done = True
        self.nlab += 1
        self.out.append('\\label{%s}' % lname(lab))
        self.ev.append(('L', lab, None))
        if lab not in self.labels:
            self.labels.append(lab)
        self.pending_inside = lab

    def do_site(self):
        s = self.site
        self.site += 1
        if self.pending_inside is not None:
            self.inside[self.pending_inside] = s
            self.pending_inside = None
        for cmd, lab in self.placement.get(s, []):
            self.refno += 1
            name = lname(lab) if lab else ('' if self.refno % 2 else ' ')
            self.out.append(' \\%s{%s} ' % (cmd, name))
            self.ev.append(('R', self.refno, 0, lab))

    def r_para(self, b):
        self.out.append('Some text ')
        self.do_site()
        if b[1]:
            self.out.append('\\footnote{a note')      # not a numbered object in plasTeX: no event
            self.do_site()
            self.out.append('}')
        self.out.append(' more text.\n\n')

    def r_sec(self, b):
        _, level, mode, lab, title_site = b
        if level == 1:
            self.cnt['sec'] += 1; self.cnt['sub'] = 0
            num = '%d' % self.cnt['sec']
        else:
            self.cnt['sub'] += 1
            num = '%d.%d' % (self.cnt['sec'], self.cnt['sub'])
        self.out.append('\\%s{Title %s' % ('section' if level == 1 else 'subsection', num.replace('.', ' ')))
        n = self.obj('section' if level == 1 else 'subsection', num)
        if mode == 1:
            self.do_label(lab)
        if title_site:
            self.do_site()
        self.out.append('}')
        self.ev.append(('V', n, n))
        if mode == 2:
            self.out.append('\n' if lab is not None and lab % 2 else '')
            self.do_label(lab)
        self.out.append('\nBody ')
        self.do_site()
        self.out.append('\n\n')

    def r_eq(self, b, nested=False):
        _, lab, insite = b[:3]
        self.cnt['eq'] += 1
        self.out.append('\\begin{equation} x = y ')
        n = self.obj('equation', '%d' % self.cnt['eq'])
        self.ev.append(('V', n, n))
        self.do_label(lab)
        if insite:
            bare = (self.cnt['eq'] % 2 == 0)       # references directly in math mode, or inside a text box
            self.out.append(' ' if bare else ' \\mbox{see ')
            self.do_site()
            self.out.append(' ' if bare else '}')
        self.out.append(' \\end{equation}\n')
        if not nested:
            self.out.append('After ')
            self.do_site()
            self.out.append('\n\n')

    def r_list(self, b, depth):
        kind, items = b
        env = 'enumerate' if kind == 'enum' else 'itemize'
        self.out.append('\\begin{%s}\n' % env)
        i = 0
        for lab, first, nested in items:
            i += 1
            self.out.append('\\item ')
            n = self.obj('item', ('%d' % i) if (kind == 'enum' and depth == 1) else None)
            self.ev.append(('V', n, n))
            if first:
                self.do_label(lab)
                self.out.append(' entry ')
            else:
                self.out.append(' entry ')
                self.do_label(lab)
            self.out.append(' ')
            self.do_site()
            self.out.append('\n')
            if nested:
                self.r_list(nested, depth + 1)
        self.out.append('\\end{%s}\n\n' % env)

    def r_eqn(self, b):
        _, star, rows = b
        self.out.append('\\begin{eqnarray%s}\n' % ('*' if star else ''))
        for i, (lab, insite) in enumerate(rows):
            if not star:
                self.cnt['eq'] += 1
                # row 1 is numbered by the environment, each `\\\\` numbers the row it opens
                n = self.obj('eqnarray' if i == 0 else 'ArrayRow', '%d' % self.cnt['eq'])
                self.ev.append(('V', n, n))
            self.out.append(' a_%d &=& b ' % i)
            self.do_label(lab)
            if insite:
                self.out.append(' ')
                self.do_site()
            self.out.append(' \\\\\n' if i < len(rows) - 1 else '\n')
        self.out.append('\\end{eqnarray%s}\nAfter ' % ('*' if star else ''))
        self.do_site()
        self.out.append('\n\n')

    def r_float(self, b):
        _, env, lab, incap = b
        self.cnt[env.rstrip('*')] += 1
        self.out.append('\\begin{%s}\nfloat body ' % env)
        self.do_site()
        self.out.append('\n\\caption{Caption ')
        n = self.obj('caption', '%d' % self.cnt[env.rstrip('*')])
        if incap:
            self.do_label(lab)
        self.out.append(' ')
        self.do_site()
        self.out.append('}')
        self.ev.append(('V', n, n))
        if not incap:
            self.do_label(lab)
        self.out.append('\n\\end{%s}\n\n' % env)

    def r_thm(self, b):
        _, env, lab, title, eqlab = b
        self.cnt['thm'] += 1
        self.out.append('\\begin{%s}' % env)
        n = self.obj('thmenv', '%d' % self.cnt['thm'])
        if title:
            self.out.append('[Name ')
            self.do_site()
            self.out.append(']')
        self.ev.append(('V', n, n))
        self.do_label(lab)
        self.out.append(' statement ')
        self.do_site()
        if eqlab is not False:
            self.out.append('\n')
            self.r_eq(('eq', eqlab, False), nested=True)
            self.out.append(' and ')
            self.do_site()
        self.out.append('\n\\end{%s}\n\n' % env)


def placements(gen, seed):
    """the same multiset of references, placed randomly / all before / all after / inside their objects"""
    rng = random.Random(seed)
    labels = list(gen.labels)
    refs = []
    for l in labels:
        for _ in range(rng.randint(0, 3)):
            refs.append((rng.choice(['ref', 'ref', 'pageref']), l))
    for _ in range(rng.randint(0, 2)):
        refs.append((rng.choice(['ref', 'pageref']), 60 + rng.randint(0, 9)))      # dangling
    if gen.blank:
        refs.append(('ref', 0))
    rng.shuffle(refs)
    ns = gen.nsites
    res = []
    p = {}
    for x in refs:
        p.setdefault(rng.randrange(ns), []).append(x)
    res.append(('random', p))
    res.append(('before', {0: list(refs)}))
    res.append(('after', {ns - 1: list(refs)}))
    p = {}
    for x in refs:
        p.setdefault(gen.inside.get(x[1], rng.randrange(ns)), []).append(x)
    res.append(('inside', p))
    return res


def doc_cases(seed, malformed):
    gen = DocGen(seed, malformed)
    out = []
    for name, p in placements(gen, seed + 1):
        gen.render(p)
        ev = list(gen.ev)
        out.append(Case('doc9', line_of(ev), {'seed': seed, 'malformed': malformed, 'placement': name,
                                              'place': {str(k): v for k, v in p.items()}}))
    return out


OBJ_KINDS = {'section', 'subsection', 'equation', 'item', 'caption', 'thmenv', 'eqnarray'}


def is_object(n):
    """the numbered objects of the grammar; of a numbered eqnarray the environment itself carries the number of
    its first row, every later row is an object of its own (rows of eqnarray* are not numbered)"""
    if n.nodeName in OBJ_KINDS:
        return True
    if n.nodeName == 'ArrayRow':
        p = n.parentNode
        if p is not None and p.nodeName == 'eqnarray':
            rows = [c for c in p.childNodes if c.nodeName == 'ArrayRow']
            return bool(rows) and rows[0] is not n
    return False


def reset_class_caches():
    """every document starts like a fresh interpreter as far as the per-class caches of plasTeX are concerned
    (`Macro.locals` stores its table on the class): otherwise the order in which earlier documents of this
    process happened to use related environments would decide what a later document exercises"""
    import plasTeX
    stack, seen = [plasTeX.Macro], set()
    while stack:
        c = stack.pop()
        if c in seen:
            continue
        seen.add(c)
        if '@locals' in vars(c):
            delattr(c, '@locals')
        stack.extend(c.__subclasses__())


def walk(node, seen):
    if id(node) in seen:
        return
    seen.add(id(node))
    yield node
    attrs = getattr(node, 'attributes', None)
    if isinstance(attrs, dict):
        for v in attrs.values():
            if hasattr(v, 'nodeType'):
                yield from walk(v, seen)
            elif isinstance(v, list):
                for x in v:
                    if hasattr(x, 'nodeType'):
                        yield from walk(x, seen)
    for c in getattr(node, 'childNodes', []):
        yield from walk(c, seen)


def parse_tex(tex_src):
    from plasTeX.TeX import TeX
    from plasTeX import TeXDocument
    reset_class_caches()
    doc = TeXDocument()
    tex = TeX(doc)
    tex.input(tex_src)
    tex.parse()
    return doc


def foreign_tex():
    return ('\\documentclass{article}\\begin{document}\\section{F}\\label{%s} text\n\\begin{equation}x=y\\label{%s}\\end{equation}\n'
            '\\section{G}\\label{%s} text\\end{document}\n' % tuple(lname(l) for l, _, _ in FOREIGN))


def stale_entries(gen_old):
    """what the previous run of the job left in its `.paux`: label -> (model node, number token), read off the
    event history of the old version"""
    cur, out = None, []
    for op in gen_old.ev:
        if op[0] == 'N':
            cur = op[1]
        elif op[0] == 'L' and op[1] and cur is not None:
            out = [e for e in out if e[0] != op[1]] + [(op[1], 800 + cur, 800 + cur)]
    return out


def rerun_cases(seed):
    """the edit / re-run cycle of the command line: job `doc` was rendered before (its stale doc.paux is in the
    directory), another job `other` left other.paux; the edited document is parsed with Compile.parse"""
    gen_old = DocGen(seed, False, old=True)
    gen = DocGen(seed, False)
    prefix = ['J1', 'F1'] + ['S%d@%d:%d' % e for e in stale_entries(gen_old)] + ['F2'] + ['S%d@%d:%d' % (l, n, n) for l, n, _ in FOREIGN]
    out = []
    for name, p in placements(gen, seed + 1)[:2]:
        rng = random.Random(seed + 2)
        extra = [('ref', REMOVED_LABEL), (rng.choice(['ref', 'pageref']), REMOVED_LABEL)] + \
                [(rng.choice(['ref', 'pageref']), l) for l, _, _ in FOREIGN if rng.random() < 0.7]
        p = {k: list(v) for k, v in p.items()}
        for x in extra:
            p.setdefault(0 if name == 'before' else rng.randrange(gen.nsites), []).append(x)
        gen.render(p)
        out.append(Case('rerun9', ' '.join(prefix) + ' ' + line_of(gen.ev),
                        {'seed': seed, 'malformed': False, 'placement': name, 'place': {str(k): v for k, v in p.items()}}))
    return out


def doc_of_case(case):
    m = case.meta
    gen = DocGen(m['seed'], m['malformed'])
    src = gen.render({int(k): [tuple(x) for x in v] for k, v in m['place'].items()})
    return gen, src


def run_doc9(case):
    import plasTeX
    gen, src = doc_of_case(case)
    case.meta['tex'] = src
    if line_of(gen.ev) != case.line:
        raise RuntimeError('doc9 generator is not deterministic')
    doc = parse_tex(src)
    return observe_doc(doc, gen, case.line)


def run_rerun9(case):
    """Compile.run on the other job and on the old version of this job, then Compile.parse on the edited file"""
    import os, tempfile, shutil
    gen, src = doc_of_case(case)
    case.meta['tex'] = src
    if line_of(gen.ev) != ' '.join(w for w in case.line.split() if w[0] not in 'JFS'):
        raise RuntimeError('rerun9 generator is not deterministic')
    old = DocGen(case.meta['seed'], False, old=True).render({})
    case.meta['tex_previous_run'] = old
    from plasTeX.Config import defaultConfig
    from plasTeX.client import collect_renderer_config
    import plasTeX.Compile as Compile

    def config():
        c = defaultConfig()
        collect_renderer_config(c)
        c['files']['split-level'] = -100
        c['images']['imager'] = 'none'
        c['images']['vector-imager'] = 'none'
        return c
    d = tempfile.mkdtemp(prefix='c09rr')
    cwd = os.getcwd()
    import io, contextlib
    try:
        os.chdir(d)
        with contextlib.redirect_stdout(io.StringIO()):
            for job, text in (('other', foreign_tex()), ('doc', old)):
                with open(job + '.tex', 'w', encoding='utf-8') as f:
                    f.write(text)
                reset_class_caches()
                Compile.run(job + '.tex', config())
                os.chdir(d)
            if not (os.path.exists('doc.paux') and os.path.exists('other.paux')):
                raise RuntimeError('rerun9: the first runs wrote no .paux')
            with open('doc.tex', 'w', encoding='utf-8') as f:
                f.write(src)
            reset_class_caches()
            tex = Compile.parse('doc.tex', config())
        return observe_doc(tex.ownerDocument, gen, case.line)
    finally:
        os.chdir(cwd)
        shutil.rmtree(d, ignore_errors=True)


def observe_doc(doc, gen, line):
    import plasTeX
    ctx = doc.context
    mentioned = set()
    for op in parse_ops(line):
        if op[0] == 'L' and op[1]: mentioned.add(lname(op[1]))
        if op[0] == 'R' and op[3]: mentioned.add(lname(op[3]))
    foreign = {lname(l): n for l, n, _ in FOREIGN} if line.split()[:1] == ['J1'] else {}
    objs, refs = [], []
    for n in walk(doc, set()):
        if is_object(n):
            objs.append(n)
        elif n.nodeName in ('ref', 'pageref'):
            refs.append(n)
    if [o.nodeName for o in objs] != gen.kinds:
        return 'err:structure:' + ','.join(o.nodeName for o in objs)
    byid = {id(o): i + 1 for i, o in enumerate(objs)}
    innodes = {id(n) for n in walk(doc, set())}

    def numstr(v):
        r = getattr(v, 'ref', None)
        if r is None:
            return '-'
        return getattr(r, 'textContent', str(r)).strip() or '-'

    def target(v, lab):
        if v is None:
            return '-'
        if id(v) in byid:
            return 'o%d' % byid[id(v)]
        if lab.strip() in foreign and v is ctx.labels.get(lab.strip()) and v.parentNode is None and id(v) not in innodes:
            return 'o%d' % foreign[lab.strip()]        # the object of the other job, re-created by Context.restore
        if type(v) is plasTeX.Macro and v.parentNode is None and id(v) not in innodes and getattr(v, 'ref', None) is None:
            return 'none' if getattr(v, '@id', None) == lab.strip() else 'none?id'
        return '?' + str(v.nodeName) + ('(not in the document)' if id(v) not in innodes else '')
    I, W = [], []
    for r in refs:
        lab = r.attributes['label']
        v = r.idref.get('label')
        key = enc(lab) if lab.strip() else '~'
        I.append('%s>%s' % (key, target(v, lab)))
        W.append('%s>%s' % (key, numstr(v) if v is not None else '-'))
    D = ['%d=%s' % (i + 1, enc(getattr(o, '@id'))) for i, o in enumerate(objs)
         if isinstance(getattr(o, '@id', None), str) and not getattr(o, '@hasgenid', False)]
    N = ['%d=%s' % (i + 1, numstr(o)) for i, o in enumerate(objs)]
    L = sorted('%s=%s' % (enc(k), target(v, k)) for k, v in ctx.labels.items() if not foreign or k in mentioned)
    P = sorted('%s=%d' % (enc(k), len(v)) for k, v in ctx.refs.items())
    C = target(ctx.currentlabel, '')[1:] if ctx.currentlabel is not None else '-'
    return 'I %s | W %s | D %s | L %s | P %s | C %s | N %s' % (' '.join(sorted(I)), ' '.join(sorted(W)), ' '.join(D),
                                                               ' '.join(L), ' '.join(P), C, ' '.join(N))


def doc_view(case, s, nums, full):
    """bring a driver answer (model state or spec view) of a doc9 case into the shape of run_doc9's observation"""
    ops = parse_ops(case.line)
    lab_of = {(o[1], o[2]): o[3] for o in ops if o[0] == 'R'}
    secs = dict((p.strip().split(' ', 1) + [''])[:2] for p in s.split(' | '))
    I, W = [], []
    for w in secs.get('I', '').split():
        k, v = w.split('=')
        r, sl = k.split('.')
        l = lab_of[(int(r), int(sl))]
        key = enc(lname(l)) if l else '~'
        v = v if v == 'none' else 'o' + v[1:] if v[0] == 'n' else 'none' if v[0] == 'p' else v
        I.append('%s>%s' % (key, v))
    for w in secs.get('W', '').split():
        k, v = w.split('=')
        r, sl = k.split('.')
        l = lab_of[(int(r), int(sl))]
        key = enc(lname(l)) if l else '~'
        W.append('%s>%s' % (key, nums.get(int(v), '?') if v != '-' else '-'))
    D = ['%s=%s' % (w.split('=')[0], enc(lname(int(w.split('=')[1])))) for w in secs.get('D', '').split()]
    res = 'I %s | W %s | D %s' % (' '.join(sorted(I)), ' '.join(sorted(W)), ' '.join(D))
    if full:
        L = sorted('%s=o%s' % (enc(lname(int(w.split('=')[0]))), w.split('=')[1]) for w in secs.get('L', '').split())
        P = sorted('%s=%d' % (enc(lname(int(w.split('=')[0]))), len(w.split('=')[1].split(','))) for w in secs.get('P', '').split())
        res += ' | L %s | P %s | C %s' % (' '.join(L), ' '.join(P), secs.get('C', '').strip())
    return res


def _tag(body):
    """short histogram class put in front of the observation (`<tag>: <observation>`)"""
    i = body.split(' | ')[0].split()[1:]
    vals = [w.split('=')[-1].split('>')[-1] for w in i]
    a = sum(1 for v in vals if v[:1] in ('n', 'o') and v != 'none')
    b = sum(1 for v in vals if v[:1] == 'p' or v == 'none')
    return 'resolved%s-dangling%s' % (a if a < 3 else '3+', b if b < 2 else '2+')


def body_of(s):
    return s.split(': ', 1)[1] if (s.startswith('resolved') and ': ' in s) else s


# ---------------------------------------------------------------- stream parse9: the event protocol of Macro.parse

def gen_parse_case(rng):
    """one call of a macro with a random signature (leading `*`, mandatory and optional arguments), a counter that is
    None / '' / a name, labels, references and nested numbered macros inside its arguments, and events around it"""
    labels = iter(rng.sample(range(1, 40), 12))
    used, refno, nested = [], [0], [1]

    def content(n):
        ops = []
        for _ in range(n):
            r = rng.random()
            if r < 0.45:
                l = next(labels); used.append(l); ops.append('L%d' % l)
            elif r < 0.8:
                refno[0] += 1
                l = rng.choice(used) if used and rng.random() < 0.5 else rng.choice([rng.randint(1, 39), 50 + rng.randint(0, 3)])
                ops.append('R%d.0:%d' % (refno[0], l))
            elif nested[0] < 6:
                nested[0] += 1
                ops += ['N%d' % nested[0], 'V%d:1' % nested[0]]
        return ops
    before = []
    if rng.random() < 0.7:
        before += ['N90', 'V90:1']
        if rng.random() < 0.4:
            l = next(labels); used.append(l); before.append('L%d' % l)
    before += content(rng.randint(0, 2)) if rng.random() < 0.5 else []
    before = [w for w in before if not (w[0] == 'N' and w != 'N90') and not (w[0] == 'V' and w != 'V90:1')]
    ctr = rng.choice([0, 1, 2, 2, 2])
    segs = ['B ' + ' '.join(before), 'M 1 %d %d %d' % (ctr, rng.randint(1, 9), 0 if rng.random() < 0.15 else 1)]
    nargs = rng.randint(0, 3)
    for i in range(nargs):
        if i == 0 and rng.random() < 0.4:
            segs.append('A 1 %d' % rng.randint(0, 1))
        else:
            optional = rng.random() < 0.35
            given = 0 if optional and rng.random() < 0.4 else 1
            segs.append(('A 0 %d ' % given) + (' '.join(content(rng.randint(0, 3))) if given else ''))
    after = []
    if rng.random() < 0.7:
        l = next(labels); used.append(l); after.append('L%d' % l)
    after += [w for w in content(rng.randint(0, 3)) if w[0] not in 'NV']
    segs.append('E ' + ' '.join(after))
    line = ' ; '.join(x.strip() for x in segs)
    # optional arguments are marked in meta (the model does not need to know)
    return line


def node_class_name(n):
    return 'T' if n == 1 else 'Nbefore' if n == 90 else 'N' + 'abcdefghij'[n]


def run_parse9(case, opsline):
    from plasTeX.TeX import TeX
    from plasTeX import TeXDocument, Command
    segs = [x.split() for x in case.line.split(';')]
    rng = random.Random(case.meta.get('seed', 0))
    doc = TeXDocument()
    tex = TeX(doc)
    ctx = doc.context
    classes = {}

    def text_of(words):
        out = []
        for w in words:
            if w[0] == 'L':
                out.append('\\label{%s}' % lname(int(w[1:])))
            elif w[0] == 'R':
                r, l = w[1:].split(':')
                r = int(r.split('.')[0])
                name = 'R' + 'abcdefghijklmnopqrstuvwxyz'[r]
                if name not in classes:
                    classes[name] = type(name, (Command,), {'args': 'label:idref'})
                out.append('\\%s{%s}' % (name, lname(int(l))))
            elif w[0] == 'N':
                n = int(w[1:])
                name = node_class_name(n)
                if name not in classes:
                    ctx.newcounter('ctr' + name)
                    classes[name] = type(name, (Command,), {'counter': 'ctr' + name})
                out.append('\\%s ' % name)
            elif w[0] == 'V':
                pass
        return ' x '.join(out)
    before, m, args, after = segs[0][1:], segs[1][1:], [x[1:] for x in segs[2:-1]], segs[-1][1:]
    ctr, v, lvl = int(m[1]), int(m[2]), int(m[3])
    argspec, calltext = [], '\\T'
    for i, a in enumerate(args):
        if a[0] == '1':
            argspec.append('*')
            calltext += '*' if a[1] == '1' else ''
        elif a[1] == '0':
            argspec.append('[ a%d ]' % i)                       # an optional argument that is not given
        else:
            optional = rng.random() < 0.4
            argspec.append('[ a%d ]' % i if optional else 'a%d' % i)
            body = ' y ' + text_of(a[2:]) + ' '
            calltext += ('[%s]' if optional else '{%s}') % body
    attrs = {'args': ' '.join(argspec), 'counter': {0: None, 1: '', 2: 'ctrT'}[ctr]}
    if not lvl:
        attrs['level'] = 50          # neither `secnumdepth >= level` nor `level > ENDSECTIONS_LEVEL`
    ctx.newcounter('ctrT')
    ctx.counters['ctrT'].setcounter(v - 1)
    classes['T'] = type('T', (Command,), attrs)
    src = 'Start ' + text_of(before) + ' ' + calltext + ' ' + text_of(after) + ' end.'
    for name, cls in classes.items():
        ctx.addGlobal(name, cls)
    case.meta['tex'] = src
    case.meta['signature'] = attrs['args']
    tex.input(src)
    tex.parse()
    ops = parse_ops(opsline)
    keys, nodes = [], set()
    for op in ops:
        if op[0] in 'NV':
            nodes.add(op[1])
        elif op[0] == 'R' and (op[1], op[2]) not in keys:
            keys.append((op[1], op[2]))
    found = {}
    for n in walk(doc, set()):
        found.setdefault(n.nodeName, n)
    stubs = {n: found[node_class_name(n)] for n in nodes | {1} if node_class_name(n) in found}
    refobjs = {r: found['R' + 'abcdefghijklmnopqrstuvwxyz'[r]] for r, _ in keys}
    return state_string(ctx, keys, nodes, stubs, refobjs, lnum)


def impl(case, aux):
    try:
        if case.stream == 'parse9':
            body = run_parse9(case, aux[0] if aux else '')
        elif case.stream == 'lbl':
            body = run_lbl(case.line, (case.meta or {}).get('seed', 0))
        elif case.stream == 'rerun9':
            body = run_rerun9(case)
        else:
            body = run_doc9(case)
    except RuntimeError:
        raise
    except Exception as e:
        return canon_exc(e)
    if body.startswith('err') or not body.startswith('I '):
        return body
    return _tag(body) + ': ' + body


def judge(o):
    c = o.case
    if o.impl.startswith('err'):
        o.corr_ok = False
        o.prop_ok = (o.spec == '-')
        o.note = 'the implementation raised'
        return
    obs = body_of(o.impl)
    if c.stream in ('lbl', 'parse9'):
        opsline = c.line if c.stream == 'lbl' else (o.aux[0] if o.aux else '')
        o.corr_ok = (obs == o.model)
        o.prop_ok = (o.spec == '-' or (obs.startswith('I ') and view_of_state(obs, opsline) == o.spec))
        return
    # doc9
    secs = dict((p.strip().split(' ', 1) + [''])[:2] for p in obs.split(' | '))
    own = {int(w.split('=')[0]): w.split('=', 1)[1] for w in secs.get('N', '').split()}
    gen, _ = doc_of_case(c)
    nums = {i + 1: (gen.nums[i] if gen.nums[i] is not None else own.get(i + 1, '-')) for i in range(len(gen.nums))}
    if c.stream == 'rerun9':
        nums.update({n: num for _, n, num in FOREIGN})
    impl_full = ' | '.join('%s %s' % (k, secs.get(k, '')) for k in 'IWDLPC')
    noblank = lambda t: ' '.join(w for w in t.split() if not w.startswith('~>'))
    impl_view = ' | '.join('%s %s' % (k, noblank(secs.get(k, ''))) for k in 'IWD')
    model_full = doc_view(c, o.model, nums, True)
    o.corr_ok = (impl_full == model_full)
    numbers_ok = all(own.get(i + 1) == gen.nums[i] for i in range(len(gen.nums)) if gen.nums[i] is not None)
    if o.spec == '-':
        o.prop_ok = True
    else:
        spec_view = doc_view(c, o.spec, nums, False)
        o.prop_ok = (impl_view == spec_view)
        if o.prop_ok and not numbers_ok:
            o.prop_ok = False
            o.note = 'an object does not carry the number LaTeX gives it: %s vs %s' % (own, gen.nums)
    if not o.corr_ok or not o.prop_ok:
        o.note = (o.note + ' expected(model)=' + model_full + (' expected(spec)=' + doc_view(c, o.spec, nums, False) if o.spec != '-' else ''))[:3000]


# ---------------------------------------------------------------- shrink / search

def shrink(ctx, o, evaluate):
    """delete operations while the property still fails (doc9 cases are first re-run as bare histories)"""
    best = o
    if o.case.stream in ('rerun9', 'parse9'):
        return o
    if o.case.stream == 'doc9':
        r = evaluate([Case('lbl', o.case.line, {'seed': 0}, 'shrink')])[0]
        if r.prop_ok:
            return o
        best = r
    improved = True
    while improved:
        improved = False
        ops = best.case.line.split()
        cands = [Case('lbl', ' '.join(ops[:i] + ops[i + 1:]), dict(best.case.meta or {'seed': 0}), 'shrink') for i in range(len(ops))]
        cands = [c for c in cands if c.line]
        for r in evaluate(cands):
            if not r.prop_ok:
                best = r
                improved = True
                break
    return best


def search(ctx, evaluate, corr_bad):
    """proof/tie broken but no spec mismatch in the main batch: well-formed neighbours of the disagreeing cases,
    a longer exhaustive scope and a bigger seeded batch, all against the Spec oracle"""
    rng = random.Random(ctx.seed + 7919)
    cases = []
    for o in corr_bad[:40]:
        ops = parse_ops((o.aux[0] if o.aux else '') if o.case.stream == 'parse9' else o.case.line)
        # well-formed projections: keep first label event per label and first ref per key
        seenl, seenk, wf = set(), set(), []
        for op in ops:
            if op[0] == 'L' and op[1]:
                if op[1] in seenl: continue
                seenl.add(op[1])
            if op[0] == 'R' and op[3]:
                if (op[1], op[2]) in seenk: continue
                seenk.add((op[1], op[2]))
            wf.append(op)
        cases.append(Case('lbl', line_of(wf), {'seed': 0}, 'search'))
    cases += [Case('lbl', line_of(h), {'seed': 0}, 'search') for h in canonical_histories(7)]
    cases += [Case('lbl', line_of(random_wf_history(rng)), {'seed': rng.randrange(1 << 30)}, 'search') for _ in range(30000)]
    for _ in range(150):
        cases += doc_cases(rng.randrange(1 << 30), False)
    for _ in range(20):
        cases += rerun_cases(rng.randrange(1 << 30))
    cases += [Case('parse9', gen_parse_case(rng), {'seed': rng.randrange(1 << 30)}, 'search') for _ in range(3000)]
    cases = [c for c in cases if c.line]
    bad = [o for o in evaluate(cases) if not o.prop_ok]
    if bad:
        o = shrink(ctx, bad[0], evaluate)
        return Violation('implementation differs from the property oracle (found by search)',
                         {'kind': 'failing-input', 'outcome': o.to_json()})
    return None


# ---------------------------------------------------------------- document-level oracles without the driver

def bib_doc(seed):
    rng = random.Random(seed)
    k = rng.randint(1, 5)
    keys = ['key%d' % i for i in rng.sample(range(1, 30), k)]
    missing = ['nokey%d' % rng.randint(1, 9)]
    cites = []
    for _ in range(rng.randint(1, 5)):
        ks = rng.sample(keys + missing, rng.randint(1, min(3, len(keys) + 1)))
        cites.append(ks)
    before = [c for c in cites if rng.random() < 0.5]
    after = [c for c in cites if c not in before]
    def cite(ks): return 'See \\cite{%s}. ' % ','.join(ks)
    bib = '\\begin{thebibliography}{9}\n' + ''.join('\\bibitem{%s} Entry %s.\n' % (x, x) for x in keys) + '\\end{thebibliography}\n'
    src = ('\\documentclass{article}\\begin{document}\n\\section{A}\n' + ''.join(cite(c) for c in before) + '\n\n' + bib +
           '\n' + ''.join(cite(c) for c in after) + '\n\\end{document}\n')
    return src, keys, before + after


def check_bib(seed):
    """None when fine, else a description"""
    src, keys, cites = bib_doc(seed)
    try:
        doc = parse_tex(src)
        items = [n for n in walk(doc, set()) if n.nodeName == 'bibitem']
        cs = [n for n in walk(doc, set()) if n.nodeName == 'cite']
        if [b.attributes['key'] for b in items] != keys:
            return 'bibitems %r' % [b.attributes['key'] for b in items]
        if len(cs) != len(cites):
            return 'cite count'
        for c, ks in zip(cs, cites):
            got = c.bibitems
            want = [items[keys.index(x)] for x in ks if x in keys]
            if len(got) != len(want) or any(a is not b for a, b in zip(got, want)):
                return '\\cite{%s} resolves to %r' % (','.join(ks), [b.attributes['key'] for b in got])
            for b in got:
                if b.id != b.attributes['key'] or str(b.ref) != str(keys.index(b.attributes['key']) + 1):
                    return 'bibitem %s has id %r number %r' % (b.attributes['key'], b.id, b.ref)
    except Exception as e:
        return canon_exc(e)
    return None


def render_refs(case):
    """render the document with the HTML5 renderer; None when every \\ref prints its object's number"""
    import os, tempfile, shutil
    from plasTeX.Renderers.HTML5 import Renderer
    gen, src = doc_of_case(case)
    ops = parse_ops(case.line)
    d = tempfile.mkdtemp(prefix='c09r')
    cwd = os.getcwd()
    try:
        os.chdir(d)
        from plasTeX.TeX import TeX
        from plasTeX import TeXDocument
        doc = TeXDocument()
        doc.config['files']['split-level'] = -10
        doc.config['images']['imager'] = 'none'
        doc.config['images']['vector-imager'] = 'none'
        tex = TeX(doc)
        tex.input(src)
        tex.parse()
        objs = [n for n in walk(doc, set()) if n.nodeName in OBJ_KINDS]
        refs = [n for n in walk(doc, set()) if n.nodeName in ('ref', 'pageref')]
        want = []
        def in_math(n):
            while n is not None:
                if n.nodeName in ('equation', 'math', 'displaymath', 'eqnarray', 'eqnarray*'):
                    return True
                n = n.parentNode
            return False
        for r in refs:
            if in_math(r):
                continue                         # mathematics is handed to the imager / MathJax as source text
            v = r.idref.get('label')
            t = getattr(v, 'ref', None)
            if t is None:
                want.append('??')
            elif r.nodeName == 'pageref':
                want.append('*')                 # the HTML5 theme prints a link with text `*` for a page reference
            else:
                want.append(t.textContent.strip() if hasattr(t, 'textContent') else str(t))
        Renderer().render(doc)
        html = ''
        for f in sorted(os.listdir(d)):
            if f.endswith('.html'):
                html += open(os.path.join(d, f), encoding='utf-8', errors='replace').read()
        # the rendered references, in document order of the body; titles are repeated in navigation, so count per text
        got = re.findall(r'<a href="[^"]*">([^<]*)</a>|(\?\?)', html)
        got = [a.strip() if a or not b else '??' for a, b in got]
        from collections import Counter
        cw, cg = Counter(want), Counter(got)
        for k, v in cw.items():
            if cg.get(k, 0) < v:
                return 'rendered references %r do not contain %r x%d' % (dict(cg), k, v)
        return None
    finally:
        os.chdir(cwd)
        shutil.rmtree(d, ignore_errors=True)


WITNESS_DOCS = {
    # D14: a label with `_` (or `^`) written in math mode was registered under the repr of a TeXFragment
    'd14_label_underscore_in_equation': (
        '\\documentclass{article}\\begin{document}\\section{S}\\label{sec_1} See \\ref{eq_energy} and \\ref{sec_1}.\n'
        '\\begin{equation} E_0 = mc^2 \\label{eq_energy} \\end{equation} Again \\ref{eq_energy}, \\pageref{eq_energy}.\\end{document}',
        {'eq_energy': ('equation', '1', 3), 'sec_1': ('section', '1', 1)}),
    # D15: a name read in math mode went through the typographic substitutions (`--` -> en dash, `'` -> curly quote)
    'd15_label_with_ligature_in_equation': (
        "\\documentclass{article}\\begin{document}See \\ref{eq:a--b_c} and \\ref{it's_x}.\n"
        "\\begin{equation} x \\label{eq:a--b_c} \\end{equation}\\begin{equation} y \\label{it's_x} \\ref{eq:a--b_c} \\end{equation}"
        " Again \\ref{eq:a--b_c}, \\pageref{it's_x}.\\end{document}",
        {'eq:a--b_c': ('equation', '1', 3), "it's_x": ('equation', '2', 2)}),
    'd14_label_in_macro_argument': (
        '\\documentclass{article}\\newcommand{\\beq}[1]{\\begin{equation}#1\\end{equation}}\\begin{document}\\ref{a_b^c}'
        '\\beq{x_1 \\label{a_b^c} y_2 \\ref{a_b^c}} \\ref{a_b^c}\\end{document}',
        {'a_b^c': ('equation', '1', 3)}),
}


def check_witness(name):
    """None when fine: every label names a node of the expected kind/number with that id, and all its references hold that node"""
    src, want = WITNESS_DOCS[name]
    try:
        doc = parse_tex(src)
        labels = doc.context.labels
        if sorted(labels) != sorted(want):
            return 'labels registered: %r' % sorted(str(k)[:40] for k in labels)
        refs = [n for n in walk(doc, set()) if n.nodeName in ('ref', 'pageref')]
        for l, (kind, num, nrefs) in want.items():
            node = labels[l]
            if node.nodeName != kind or node.id != l or node.ref.textContent != num:
                return 'label %s names %s id=%r number=%r' % (l, node.nodeName, node.id, node.ref and node.ref.textContent)
            mine = [r for r in refs if r.attributes['label'] == l]
            if len(mine) != nrefs or any(r.idref.get('label') is not node for r in mine):
                return 'references to %s: %r' % (l, [getattr(r.idref.get('label'), 'nodeName', None) for r in mine])
        if doc.context.refs:
            return 'pending references left: %r' % sorted(str(k)[:40] for k in doc.context.refs)
    except Exception as e:
        return canon_exc(e)
    return None


def extra_checks(ctx):
    rng = ctx.rng
    viol, n, nontriv, samples = [], 0, 0, []
    for name in sorted(WITNESS_DOCS):
        n += 1
        nontriv += 1
        r = check_witness(name)
        samples.append({'stream': 'witness', 'name': name, 'result': r or 'ok'})
        if r:
            viol.append(Violation('a reference does not resolve to the object its label names',
                                  {'kind': 'failing-input', 'extra': {'what': 'witness', 'name': name}, 'observed': r,
                                   'expected': {k: list(v) for k, v in WITNESS_DOCS[name][1].items()}, 'tex': WITNESS_DOCS[name][0]}))
            return viol, {'evaluations': n, 'distinct_nontrivial': nontriv, 'samples': samples}
    nb = 40 if ctx.tier == 'quick' else 600
    for i in range(nb):
        seed = rng.randrange(1 << 30)
        n += 1
        r = check_bib(seed)
        nontriv += 1
        if i < 2:
            samples.append({'stream': 'bib', 'seed': seed, 'result': r or 'ok'})
        if r:
            viol.append(Violation('bibliography key does not resolve to its entry',
                                  {'kind': 'failing-input', 'extra': {'what': 'bib', 'seed': seed}, 'observed': r, 'tex': bib_doc(seed)[0]}))
            break
    nr = 4 if ctx.tier == 'quick' else 60
    for i in range(nr):
        seed = rng.randrange(1 << 30)
        for c in doc_cases(seed, False)[:2]:
            n += 1
            try:
                r = render_refs(c)
            except Exception as e:
                r = canon_exc(e)
            nontriv += 1
            if r:
                viol.append(Violation('a rendered reference does not print the number of its object',
                                      {'kind': 'failing-input', 'extra': {'what': 'render', 'case': c.to_json()}, 'observed': r,
                                       'tex': c.meta.get('tex') or doc_of_case(c)[1]}))
                break
        if viol:
            break
    return viol, {'evaluations': n, 'distinct_nontrivial': nontriv, 'samples': samples}


def replay_extra(ctx, extra):
    if extra.get('what') == 'witness':
        return check_witness(extra['name']) is not None
    if extra.get('what') == 'bib':
        return check_bib(extra['seed']) is not None
    if extra.get('what') == 'render':
        try:
            return render_refs(Case.from_json(extra['case'])) is not None
        except Exception:
            return True
    return False
