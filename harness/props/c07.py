"""C07 - Parsing loses, duplicates or reorders no text and yields a well-formed tree.

streams
  digest : one case per call of the real `TeX.parse` (the document and every argument fragment) made
           while parsing a generated document.  The harness replaces `plasTeX.TeX.bufferediter` by a
           recording subclass (module attribute assignment from the harness process), wraps `TeX.parse`
           (to learn which iterator fills which output) and `Node.normalize` (to learn with which
           substitution list a fragment was normalised).  The request line is the recorded item stream
           (level, contextDepth, blockType, digest kind, class id, macroMode, whitespace flags, text);
           the driver runs Model.parse / parseFragment on it; both trees are diffed (shape, order, text,
           parent links).  Items whose class has a digest method outside the model (tabular cells/rows,
           \\verb, ...) are recorded *after* their own digestion with the subtree they built (opaque).
  mathmode: stacks of real context frames (group, ArgumentContext, command, math environment, \\ensuremath, \\mbox)
           pushed on a real Context: `Context.isMathMode` vs Model.isMathMode (the decision readArgumentAndSource
           takes before normalising an argument).
  apptexts: histories of `Node.appendText(text, table or None)` calls on the nodes of ONE real document (the same runs
           of characters with and without the table, in every order) vs Model.appendTexts.
  docsubs: histories of `TeXDocument(config)` creations with `disable-charsub` options in one process: the table of
           every document and the class table `TeXDocument.defaultCharsubs` afterwards vs Model.createDocs.
  extend : `Node.extend(nodes and fragments, setParent)` on real DOM nodes vs Model.extend (who is re-parented).
  subs   : strings over quotes/dashes/letters: `Node.appendText` with the live substitution list vs Model.applySubs.
  (document level `doc7` in extra_checks: generated documents of the quantifier's grammar with unique
   marker words against an oracle written from the property text.)
"""
import logging, re, random as _random
import extract
from framework import Case, Violation

ID = 'C07'
LEAN_MODULE = 'PlasVerif.Properties.C07'
LEVEL_TEXT = ('Lean 4 theorems over a line-by-line model of the digestion protocol (TeX.parse, bufferediter push-back, Macro.digest, digestUntil, Environment.digest, '
              'SectionUtils.digest, bgroup.digest, List/List.item.digest, Macro.paragraphs, Node.normalize/appendText with the NoCharSub dispatch) on the expanded-item stream, all for EVERY stream '
              '(no balance assumption) and every fuel: digest_conserves (on streams satisfying the decidable predicate Spec.clean the depth-first reading, arguments then children, of the parsed tree '
              'EQUALS the reading of the stream: no loss, no duplication, no reordering; the invariant is proved preserved by paragraphs/norm/digest), *_no_dup_no_reorder (subsequence, unconditional), '
              'parse_total/digest_total (fuel adequacy: parse never runs out of fuel), par_no_par (deep), parent_labels_consistent (deep, unconditional), sections_nest (a unit holds only paragraphs and '
              'units of level strictly between its own and ENDSECTIONS, on sectioning-skeleton streams) + sections_absorb_deeper/sections_stop_at_not_deeper (every stream), paragraphs_partition, '
              'mathmode_transparent/args_in_math_unsubstituted (argument nesting never changes the math-mode decision taken when an argument is read), extend_noparent_untouched/extend_setparent_labels (scratch fragments of fullTitle/fullTocEntry never re-parent), appendText_history_free/appendText_values/flushText_value (the value of a text node depends on its own run and its own table only), charsubs_table_per_document/docCharsubs_mem (the substitution table is a per-document copy: no history of earlier documents and disable-charsub options changes what a later document gets), charsubs_idempotent, charsubs_complete, charsubs_plain, charsubs_scope_nosub/charsubs_never_in_nosub, charsubs_applied_to_text_run, buffered_push_next/flat, parse_well_formed (the clauses together). '
              'The model is tied to the code by exhaustive frame stacks on the real Context.isMathMode, histories of real TeXDocument creations with disable-charsub options, histories of real Node.appendText calls with and without the table on one document, exhaustive short Node.extend calls on real DOM nodes, and by replaying, for generated documents, every real TeX.parse call (recorded item stream -> tree, shape/order/text/parent links) through the model, '
              'and the whole statement is checked end-to-end on generated documents with unique marker words (doc7), documents processed one after the other in one process, some with a legal disable-charsub option; each tree is checked once after parsing and again after the read-only accesses a renderer makes (titles, toc entries, references, text content, source).')
LEVEL_NOTE = ('Trusted: Lean kernel (propext, Classical.choice, Quot.sound), translator (levels, defaultCharsubs), the recording harness and its generators, the doc7 oracle, CPython. '
              'Not modelled: the expansion phase that produces the stream (C02/C05), digest overrides outside the model (Array rows/cells, \\verb, bibliography, index) which enter the model as '
              'already-built subtrees and are covered by doc7 only.')
TECHNIQUE = 'Lean 4 proof (fuel induction over mutually recursive digest/loop, structural induction over trees) + regenerated tables + differential replay of recorded parse calls + document-level oracle'
TRUSTED = ['python oracle harness/props/c07.py:doc7_check (depth-first marker order, parent links, section/paragraph discipline, substitution scope)',
           'recording of the item stream (bufferediter subclass, TeX.parse/Node.normalize wrappers installed from the harness process)']
ASSUMPTIONS = ['streams satisfy Spec.DocTree.clean (blank text and swallowed closers carry no words; paragraph tokens are argument-free elements with Macro.digest; text nodes have no children) - evaluated by the driver on every recorded stream (all of them satisfy it)',
               'sections_nest is stated for sectioning-skeleton streams (Spec.secSkel: sections, text, paragraph tokens, inert commands); sections containing environments/lists/groups are carried by sections_absorb_deeper, the digest stream and doc7',
               'documents of the generated grammar, nesting depth <= 4; ~15% malformed documents are compared model-vs-code only']
RULE = ('documents generated from the seed by the grammar of the quantifier (classes article/book, 4 sectioning levels, lists, description, tabular, quote/center, footnotes, boxes, math, verbatim, '
        'labels/refs, fonts, groups; 15% malformed); one case per TeX.parse call; non-trivial = the recorded stream holds at least one element with an absorbing digest and the tree is not flat; '
        'distinct = distinct request line')
EXHAUSTIVE = {}
CASE_TIMEOUT = 30

logging.disable(logging.CRITICAL)

# ---------------------------------------------------------------- translator

def gen_digest_tables():
    from plasTeX.DOM import Node
    from plasTeX import TeXDocument
    names = [('documentLevel', 'DOCUMENT_LEVEL'), ('endSectionsLevel', 'ENDSECTIONS_LEVEL'), ('parLevel', 'PAR_LEVEL'),
             ('environmentLevel', 'ENVIRONMENT_LEVEL'), ('characterLevel', 'CHARACTER_LEVEL')]
    body = []
    for lean, py in names:
        v = getattr(Node, py)
        if not isinstance(v, int):
            raise ValueError('%s = %r' % (py, v))
        body.append('def %s : Int := %d' % (lean, v))
    cd = Node.contextDepth
    if not isinstance(cd, int):
        raise ValueError('contextDepth')
    body.append('def defaultContextDepth : Int := %d' % cd)
    subs = TeXDocument.defaultCharsubs
    items = []
    for s, d in subs:
        if not (isinstance(s, str) and isinstance(d, str) and s):
            raise ValueError('charsubs entry %r' % ((s, d),))
        items.append('(%s, %s)' % (extract.lean_nat_list([ord(c) for c in s]), extract.lean_nat_list([ord(c) for c in d])))
    body.append('/-- `TeXDocument.defaultCharsubs` as (source code points, replacement code points), in list order -/')
    body.append('def charsubs : List (List Nat × List Nat) := [' + ', '.join(items) + ']')
    src = (extract.HEADER % ('plasTeX/DOM/__init__.py (Node.*_LEVEL), plasTeX/__init__.py (TeXDocument.defaultCharsubs)', 'exact') +
           'namespace PlasVerif.Generated.Digest\n' + '\n'.join(body) + '\nend PlasVerif.Generated.Digest\n')
    return 'PlasVerif/Generated/Digest.lean', src, 'exact'


GENERATED = [gen_digest_tables]

# ---------------------------------------------------------------- recording the real run

_K = {}


def _classes():
    if not _K:
        import plasTeX
        from plasTeX import Macro, Environment, TeXDocument
        from plasTeX.DOM import Node
        from plasTeX.Base.LaTeX.Sectioning import SectionUtils
        from plasTeX.Base.TeX.Text import bgroup, egroup, endgroup
        from plasTeX.Base.TeX.Primitives import par
        from plasTeX.Base.LaTeX.Lists import List
        from plasTeX.Base.LaTeX.Floats import Float
        _K.update(Macro=Macro, Environment=Environment, Node=Node, SectionUtils=SectionUtils, bgroup=bgroup,
                  egroup=egroup, endgroup=endgroup, par=par, List=List, Float=Float, TeXDocument=TeXDocument)
    return _K


def _fn(f):
    return getattr(f, '__func__', f)


def dk_of(cls):
    """which digest method the class resolves to: model letter, or 'o' (opaque: outside the model)"""
    K = _classes()
    d = _fn(cls.digest)
    table = [(K['Macro'].digest, 'n'), (K['par'].digest, 'n'), (K['egroup'].digest, 'n'),
             (K['Environment'].digest, 'e'), (K['Float'].digest, 'e'), (K['SectionUtils'].digest, 's'),
             (K['bgroup'].digest, 'b'), (K['List'].digest, 'l'), (K['List'].item.digest, 'i')]
    for f, k in table:
        if d is _fn(f):
            return k
    return 'o'


class Recorder:
    """installs the recording bufferediter + wrappers for the duration of one parse"""

    def __init__(self):
        self.objs = []          # keeps recorded objects alive (ids stay unique)
        self.gid = {}           # id(obj) -> creation-order id
        self.parses = []        # finished TeX.parse calls: {'iter', 'output'}
        self.stack = []
        self.opaque = 0
        self.opaque_done = set()
        self.normlog = {}
        self.tyids = {}
        self.contids = {}       # container classes (`item.container`, e.g. List for \\item) -> id, in order of first sight
        self.fields = {}        # id(obj) -> fields captured when first pulled

    def newid(self, x):
        i = id(x)
        if i not in self.gid:
            self.gid[i] = len(self.gid) + 1
            self.objs.append(x)
        return self.gid[i]

    def tyid(self, cls):
        return self.tyids.setdefault(cls, len(self.tyids) + 1)

    def contid(self, x):
        """`getattr(item, 'container', None)`: 0 for None, else the id of the container class"""
        c = getattr(x, 'container', None)
        if c is None or not isinstance(c, type):
            return 0
        return self.contids.setdefault(c, len(self.contids) + 1)

    def capture(self, x):
        K = _classes()
        Node = K['Node']
        if x.nodeType == Node.ELEMENT_NODE:
            cls = type(x)
            dk = dk_of(cls)
            flags = [x.macroMode == K['Macro'].MODE_END, isinstance(x, (K['egroup'], K['endgroup'])),
                     isinstance(x, K['List'].item), False,
                     isinstance(getattr(cls, 'isElementContentWhitespace', False), property),
                     x.nodeName == 'setcounter', bool(getattr(x, 'forcePars', False)),
                     _fn(cls.normalize) is not _fn(Node.normalize)]
            hasargs = bool(x.attributes) and any(getattr(v, 'nodeType', None) is not None for v in x.attributes.values())
            return dict(elem=1, level=int(x.level), depth=int(x.contextDepth), block=int(bool(x.blockType)), dk=dk,
                        ty=self.tyid(cls), flags=flags, chars=[], hasargs=hasargs, cont=self.contid(x))
        s = str(x)
        ws = bool(x.isElementContentWhitespace)
        return dict(elem=0, level=int(getattr(x, 'level', 1001)), depth=int(getattr(x, 'contextDepth', 1000)),
                    block=int(bool(getattr(x, 'blockType', False))), dk='n', ty=0,
                    flags=[False, False, False, ws, False, False, False, False], chars=[ord(c) for c in s], hasargs=False)

    def seen(self, it, x):
        if it.opaque:
            return
        i = id(x)
        if i in it.seen_ids:
            return
        it.seen_ids.add(i)
        self.newid(x)
        if i not in self.fields:
            f = self.fields[i] = self.capture(x)
            if f['elem'] and f['dk'] == 'o':
                self.make_opaque(x)
            elif f['elem'] and getattr(x, '_dom_childNodes', None) and not _has_self(x):
                pre = []
                for k in list(x.childNodes):
                    self.word(k, pre, top=False)
                f['prewords'], f['nprekids'] = pre, len(x.childNodes)
        it.items.append(x)

    def make_opaque(self, x):
        orig = x.digest
        rec = self

        def digest(tokens, _orig=orig, _x=x):
            own = hasattr(tokens, 'opaque')
            if own:
                tokens.opaque += 1
            try:
                return _orig(tokens)
            finally:
                if own:
                    tokens.opaque -= 1
                rec.opaque_done.add(id(_x))
        try:
            x.digest = digest
        except AttributeError:
            pass

    def __enter__(self):
        import plasTeX.TeX as T
        from plasTeX.DOM import Node
        rec = self
        self.T, self.Node = T, Node
        self.orig_iter, self.orig_parse, self.orig_norm = T.bufferediter, T.TeX.parse, Node.normalize
        base = T.bufferediter

        class RecIter(base):
            def __init__(self, obj):
                base.__init__(self, obj)
                self.items, self.seen_ids, self.opaque = [], set(), 0
                if rec.stack:
                    rec.stack[-1].setdefault('iter', self)

            def __next__(self):
                x = base.__next__(self)
                rec.seen(self, x)
                return x

        orig_parse, orig_norm = self.orig_parse, self.orig_norm

        def parse(tex, output=None):
            frame = {}
            rec.stack.append(frame)
            try:
                out = orig_parse(tex, output)
            finally:
                rec.stack.pop()
            frame['output'] = out
            rec.parses.append(frame)
            return out

        def normalize(node, charsubs=None):
            if node.nodeType == Node.DOCUMENT_FRAGMENT_NODE:
                rec.objs.append(node)
                rec.normlog.setdefault(id(node), []).append(bool(charsubs))
            return orig_norm(node, charsubs)

        T.bufferediter = RecIter
        T.TeX.parse = parse
        Node.normalize = normalize
        return self

    def __exit__(self, *a):
        self.T.bufferediter = self.orig_iter
        self.T.TeX.parse = self.orig_parse
        self.Node.normalize = self.orig_norm
        return False

    # ---- serialisation
    def dots(self, xs):
        return '.'.join(str(v) for v in xs) if xs else '-'

    def word(self, x, out, top=True):
        """append the prefix encoding of x (with the subtree it built itself when opaque or not top) to out"""
        i = id(x)
        gid = self.newid(x)
        f = self.fields.get(i) or self.capture(x)
        kids = []
        if f['elem'] and (not top or i in self.opaque_done) and not _has_self(x):
            kids = list(x.childNodes)
        dk = f['dk'] if top and f['dk'] != 'o' else 'n'
        if not top:
            dk = 'n'
        ws = f['flags'][3]
        src = [] if (f['elem'] or ws) else [gid]
        argl = [gid] if f['hasargs'] and f['level'] != 101 else []
        isa = [cid for ccls, cid in self.contids.items() if isinstance(x, ccls)] if f['elem'] else []
        out.append('%d:%d:%d:%d:%d:%s:%d:%s:%s:%s:%s:%d:%s:%d' % (
            gid, f['elem'], f['level'], f['depth'], f['block'], dk, f['ty'], ''.join('1' if b else '0' for b in f['flags']),
            self.dots(f['chars']) if not f['elem'] else '-', self.dots(src), self.dots(argl),
            f.get('cont', 0), self.dots(isa), len(kids)))
        for k in kids:
            self.word(k, out, top=False)
        if top and not kids and f.get('prewords'):
            out[-1] = out[-1][:out[-1].rindex(':')] + ':%d' % f['nprekids']
            out.extend(f['prewords'])

    def line(self, frame):
        K = _classes()
        out = frame['output']
        it = frame.get('iter')
        words = []
        for x in (it.items if it is not None else []):
            self.word(x, words)
        if isinstance(out, K['TeXDocument']):
            mode, cs = 'doc', 0
        else:
            log = self.normlog.get(id(out))
            mode, cs = ('frag', int(any(log))) if log else ('raw', 0)
        return 'digest %s %d | %s' % (mode, cs, ' '.join(words))

    def dump(self, container, x, anyparent=False):
        Node = self.Node
        p = x.parentNode
        ok = anyparent or p is container or (container.nodeType == Node.DOCUMENT_FRAGMENT_NODE and p is container.parentNode)
        okc = '+' if ok else '-'
        if x.nodeType == Node.ELEMENT_NODE:
            g = self.gid.get(id(x))
            kids = '' if _has_self(x) else ''.join(self.dump(x, k) for k in x.childNodes)
            return 'e(%s|%d|%s|%s)' % (g if g is not None else 's', x.level, okc, kids)
        return 't(%s|%s)' % (self.dots([ord(c) for c in str(x)]), okc)


def _attached(frag):
    """the fragment is the value of an argument of its parent (otherwise it is a scratch fragment that a cast consumed)"""
    p = getattr(frag, 'parentNode', None)
    a = getattr(p, 'attributes', None) if p is not None else None
    return bool(a) and any(v is frag for v in a.values())


def _has_self(x):
    a = x.attributes
    return bool(a) and 'self' in a


TRIG = set('`\'"-') | set(' \n\t')


def plain_of(node, Node, acc):
    """characters of the text below node (children only), blanks and trigger characters and their substitutes removed"""
    if node.nodeType == Node.TEXT_NODE:
        acc.extend(ord(c) for c in str(node) if c not in TRIG and not (0x2010 <= ord(c) <= 0x201f))
        return
    if node.nodeType == Node.ELEMENT_NODE and _has_self(node):
        return
    for k in node.childNodes:
        plain_of(k, Node, acc)


def structure_problems(out, Node):
    """paragraph / sectioning discipline on the real subtree below `out` (children only)"""
    bad = []
    PAR, ENDS, DOC = Node.PAR_LEVEL, Node.ENDSECTIONS_LEVEL, Node.DOCUMENT_LEVEL
    stack = [out]
    while stack:
        n = stack.pop()
        if n.nodeType != Node.ELEMENT_NODE and n.nodeType != Node.DOCUMENT_FRAGMENT_NODE and n.nodeType != Node.DOCUMENT_NODE:
            continue
        if n.nodeType == Node.ELEMENT_NODE and _has_self(n):
            continue
        for k in n.childNodes:
            if n.nodeType == Node.ELEMENT_NODE:
                if n.level == PAR and k.level == PAR:
                    bad.append('par-in-par')
                if DOC < n.level < ENDS and getattr(n, 'macroMode', 0) != 2 and dk_of(type(n)) == 's':
                    if not (k.level == PAR or n.level < k.level < ENDS):
                        bad.append('section-child')
            stack.append(k)
    return bad


_cache = {}


def run_document(src):
    """parse with recording; returns list of (line, impl observation) per TeX.parse call, or an error string"""
    if src in _cache:
        return _cache[src]
    from plasTeX.TeX import TeX
    from plasTeX import TeXDocument
    reset_globals()
    res = []
    err = None
    with Recorder() as rec:
        try:
            doc = TeXDocument()
            tex = TeX(doc)
            tex.input(src)
            tex.parse()
        except Exception as e:
            err = 'err:' + type(e).__name__
        Node = rec.Node
        for fr in rec.parses:
            out = fr['output']
            if out is None or fr.get('iter') is None:
                continue
            try:
                line = rec.line(fr)
                if line.startswith('digest raw') and (not _attached(out) or
                                                      any(w.split(':')[1] == '1' for w in line.split(' | ', 1)[1].split())):
                    # un-normalised scratch fragments (unattached, or holding elements: label/ref/string/list casts): later consumed or touched by the
                    # string-casting helper TeX.normalize, never part of the document tree
                    continue
                d = ''.join(rec.dump(out, k, anyparent=line.startswith('digest raw')) for k in out.childNodes)
                acc = []
                plain_of(out, Node, acc)
                sp = structure_problems(out, Node)
                res.append((line, '%s|||%s|||%s' % (d, rec.dots(acc), ','.join(sorted(set(sp))) or 'ok')))
            except RecursionError:
                continue
    reset_globals()
    if len(_cache) > 64:
        _cache.clear()
    _cache[src] = (res, err)
    return res, err


def reset_globals():
    """class-level trackers that survive a document (C17's subject) are reset so every case is independent"""
    try:
        from plasTeX.Base.TeX.Primitives import MathShift
        from plasTeX.Base.LaTeX.Lists import List
        from plasTeX import ParameterCommand
        MathShift.inEnv = []
        List.depth = 0
        ParameterCommand._enablelevel = 0
        ParameterCommand.enabled = True
    except Exception:
        pass


# ---------------------------------------------------------------- document generator

class Gen:
    """documents of the quantifier's grammar with unique marker words `W<letters>K`"""

    def __init__(self, rng, malformed=False, subs=True, nopar=False):
        self.rng, self.n, self.markers, self.malformed, self.subs = rng, 0, [], malformed, subs
        self.nopar = nopar      # allow a body without any paragraph break (known finding body-without-par: only via its witness in doc7)
        self.labels = 0
        self.features = set()
        # phrases without marker words that recur in the document, in running text as well as in verbatim / math
        # material (the same run of characters must be treated according to WHERE it stands, every time)
        self.rep_text = rng.choice(self.REP_TEXT)
        self.rep_math = rng.choice(self.REP_MATH)

    NONASCII = '\u00e9\u00dc\u00c0\u00df\u00f1\u00f8\u0436\u03bb\u4e2d'     # letters outside ASCII: category 'other' for TeX
    REP_TEXT = ["it's", '1--9', 'a---b', "``q''", "x--y's", "`z'"]
    REP_MATH = ["f'", "g''", 'n--1']

    def nword(self):
        return self._decorate(self.word())

    def _decorate(self, w):
        """a marker word, sometimes with letters outside ASCII attached (they are ordinary text characters)"""
        r = self.rng
        if r.random() < 0.12:
            w = r.choice(self.NONASCII) + w
            self.features.add('nonascii')
        if r.random() < 0.06:
            w = w + r.choice(self.NONASCII)
            self.features.add('nonascii')
        return w

    def glue(self, cw, fn):
        """a control word followed by running text: usually a blank in between; a word starting with a non-ASCII
        letter may follow directly (the control word ends at the first character that is not a letter for TeX)"""
        r = self.rng
        if r.random() < 0.3:
            self.features.add('cw-nonascii')
            first = r.choice(self.NONASCII) + self.word()
            return cw + first + ' ' + fn()
        return cw + ' ' + fn()

    def decl(self):
        """sometimes a bare font/size declaration at the start of a list item: it stays open until the next \\item
        (or the end of the list), which must end it"""
        if self.rng.random() < 0.15:
            self.features.add('bare-declaration')
            return self.rng.choice(['\\bfseries ', '\\itshape ', '\\small ', '\\sffamily ', '\\em '])
        return ''

    def repeated(self):
        """one of the document's recurring phrases, as an argument, as verbatim text or as a formula"""
        r = self.rng
        self.features.add('repeated-phrase')
        k = r.random()
        if k < 0.30: return '\\verb|%s|' % r.choice([self.rep_text, self.rep_math])
        if k < 0.45: return r.choice(['$%s$', '\\(%s\\)']) % self.rep_math
        if k < 0.75: return r.choice(['\\emph{%s}', '\\textbf{%s}', '\\footnote{%s}', '\\mbox{%s}']) % self.rep_text
        return r.choice(['\\emph{%s}', '\\textbf{%s}', '\\textit{%s}']) % self.rep_math

    def word(self):
        self.n += 1
        n, s = self.n, ''
        while n:
            n, r = divmod(n, 26)
            s += chr(97 + r)
        w = 'W' + s + 'K'
        self.markers.append(w)
        return w

    def words(self, lo=1, hi=4):
        r = self.rng
        out = []
        for _ in range(r.randint(lo, hi)):
            w = self.word()
            if self.subs:
                k = r.random()
                if k < 0.07: w = '``' + w + "''"; self.features.add('dq')
                elif k < 0.12: w = '`' + w + "'"; self.features.add('sq')
                elif k < 0.17: w = w + '--' + self.word(); self.features.add('en')
                elif k < 0.21: w = w + '---' + self.word(); self.features.add('em')
                elif k < 0.24: w = w + "'s"
                elif k < 0.27: w = w + ' -- ' + self.word(); self.features.add('spdash')
                else: w = self._decorate(w)
            else:
                w = self._decorate(w)
            out.append(w)
        return ' '.join(out)

    def ligs(self):
        """one sentence that certainly holds every quote/dash ligature source: It's ``quoted'' -- text---more `x'"""
        self.features.add('ligs')
        return "%s's ``%s'' -- %s---%s `%s' %s--%s." % tuple(self.word() for _ in range(7))

    def single_par_env(self, depth):
        """an environment that does not group paragraphs itself, holding ONE paragraph (no blank line inside)"""
        self.features.add('singlepar-env')
        env = self.rng.choice(['quote', 'center', 'quotation', 'flushleft', 'flushright', 'verse'])
        body = self.ligs() if self.subs else self.words()
        if self.rng.random() < 0.5:
            body += ' ' + self.inlines(min(depth, 1))
        return '\\begin{%s}\n%s\n\\end{%s}\n' % (env, body, env)

    def inline(self, depth):
        r = self.rng
        k = r.random()
        if self.subs and r.random() < 0.07:
            return self.repeated()
        if depth <= 0 or k < 0.45:
            return self.words()
        self.features.add('inline')
        if r.random() < 0.04:
            return self.glue(r.choice(['\\LaTeX', '\\TeX', '\\quad', '\\ldots']), lambda: self.words(1, 2))
        if k < 0.53: return '\\textbf{%s}' % self.inlines(depth - 1)
        if k < 0.58: return '\\emph{%s}' % self.inlines(depth - 1)
        if k < 0.63: return '{%s}' % self.glue('\\bfseries', lambda: self.inlines(depth - 1))
        if k < 0.67: return '{%s}' % self.glue('\\itshape', lambda: self.inlines(depth - 1))
        if k < 0.72: return '\\footnote{%s}' % self.inlines(depth - 1)
        if k < 0.76: return '\\mbox{%s}' % self.inlines(depth - 1)
        if k < 0.79: return '\\fbox{%s}' % self.inlines(depth - 1)
        if k < 0.86: return self.math(False)
        if k < 0.90: return self.verb()
        if k < 0.94:
            self.labels += 1
            return '\\label{l%d}' % self.labels
        if k < 0.97 and self.labels:
            return '\\ref{l%d}' % r.randint(1, self.labels)
        return '{%s}' % self.inlines(depth - 1)

    def inlines(self, depth):
        return ' '.join(self.inline(depth) for _ in range(self.rng.randint(1, 3)))

    MWRAP1 = ['\\mathbf{%s}', '\\mathit{%s}', '\\mathrm{%s}', '\\hat{%s}', '\\dot{%s}', '\\bar{%s}', '\\vec{%s}', '\\tilde{%s}',
              '\\sqrt{%s}', '\\overline{%s}', '\\underline{%s}']

    def mexpr(self, depth):
        """a formula part; macro arguments nest up to `depth` deep and primes / double primes / double hyphens
        (the characters the text substitutions react to) occur at every nesting level"""
        r = self.rng
        k = r.random()
        if depth <= 0 or k < 0.35:
            w = self.word()
            if self.subs:
                q = r.random()
                if q < 0.25: w += "'"; self.features.add('mathprime')
                elif q < 0.35: w += "''"; self.features.add('mathprime')
                elif q < 0.40: w += '--1'
            return w
        if k < 0.70:
            self.features.add('matharg%d' % min(depth, 3))
            return r.choice(self.MWRAP1) % self.mexpr(depth - 1)
        if k < 0.82:
            return '\\frac{%s}{%s}' % (self.mexpr(depth - 1), self.mexpr(depth - 1))
        if k < 0.92:
            return '%s%s{%s}' % (self.word(), r.choice('^_'), self.mexpr(depth - 1))
        return self.mexpr(depth - 1) + '-' + self.mexpr(depth - 1)

    def math(self, display):
        r = self.rng
        self.features.add('math')
        body = '+'.join(self.mexpr(r.randint(0, 3)) for _ in range(r.randint(1, 3)))
        if display:
            return r.choice(['\\[%s\\]', '$$%s$$', '\\begin{equation}%s\\end{equation}', '\\begin{displaymath}%s\\end{displaymath}']) % body
        return r.choice(['$%s$', '\\(%s\\)']) % body

    def verb(self):
        self.features.add('verb')
        w = self.word()
        extra = self.rng.choice(['', '--', "''", '``', "'", '---x'])
        return '\\verb%s%s%s%s' % ('|', w + extra, '', '|')

    def block(self, depth):
        r = self.rng
        k = r.random()
        if depth <= 0 or k < 0.35:
            return self.inlines(min(depth, 2)) + '\n\n'
        self.features.add('block')
        if k < 0.50:
            env = r.choice(['itemize', 'enumerate'])
            items = ''.join('%s\n' % (('\\item ' + self.single_par_env(depth - 1).strip()) if r.random() < 0.2
                                      else self.glue('\\item', lambda: self.decl() + self.blocks(depth - 1, 1, 2).strip()))
                            for _ in range(r.randint(1, 3)))
            return '\\begin{%s}\n%s\\end{%s}\n' % (env, items, env)
        if k < 0.58:
            items = ''.join('\\item[%s] %s\n' % (self.words(1, 2), self.blocks(depth - 1, 1, 2).strip()) for _ in range(r.randint(1, 3)))
            return '\\begin{description}\n%s\\end{description}\n' % items
        if k < 0.68:
            return self.tabular(depth)
        if k < 0.73:
            return self.single_par_env(depth - 1)
        if k < 0.78:
            env = r.choice(['quote', 'center', 'quotation', 'flushleft'])
            return '\\begin{%s}\n%s\\end{%s}\n' % (env, self.blocks(depth - 1, 1, 2), env)
        if k < 0.86:
            return self.math(True) + '\n'
        if k < 0.92:
            self.features.add('verbatim')
            w = self.word()
            return "\\begin{verbatim}\n%s ``x'' a--b %s's\n\\end{verbatim}\n" % (w, self.word())
        if k < 0.96:
            return '\\begin{figure}\n%s\\caption{%s}\n\\end{figure}\n' % (self.blocks(depth - 1, 1, 1), self.inlines(1))
        return self.inlines(depth) + self.glue('\\par', lambda: self.inlines(1)) + '\n\n'

    def tabular(self, depth):
        """tabulars with 1-3 columns, with or without vertical rules in the column specification, and with
        \\hline / \\cline rules in front of rows and after the last one (a rule starts the first cell of the row)"""
        r = self.rng
        self.features.add('tabular')
        cols = r.choice([1, 1, 2, 3])
        self.features.add('tabular:%dcol' % cols)
        ruled = r.random() < 0.5
        spec = ''.join(r.choice('lcr') for _ in range(cols))
        if ruled and r.random() < 0.6:
            spec = '|' + '|'.join(spec) + '|'
        rows = []
        nrows = r.randint(1, 3)
        for i in range(nrows):
            rule = ''
            if ruled and r.random() < 0.7:
                self.features.add('tabular:rule')
                rule = r.choice(['\\hline ', '\\hline\n', '\\cline{1-%d} ' % r.randint(1, cols), '\\hline\\hline '])
            cells = []
            c = 0
            while c < cols:
                q = r.random()
                if cols > 1 and q < 0.22:
                    # an empty / blank cell next to filled ones (or a whole row of them)
                    self.features.add('tabular:emptycell')
                    cells.append(r.choice(['', ' ', '  ']))
                    c += 1
                elif cols - c >= 2 and q < 0.30:
                    span = r.randint(2, cols - c)
                    self.features.add('tabular:multicolumn')
                    cells.append('\\multicolumn{%d}{%s}{%s}' % (span, r.choice('lcr'), self.inlines(min(depth - 1, 1))))
                    c += span
                else:
                    cells.append(self.inlines(min(depth - 1, 1)))
                    c += 1
            rows.append(rule + ' & '.join(cells))
        body = ' \\\\\n'.join(rows)
        if ruled and r.random() < 0.6:
            body += ' \\\\ \\hline'
        return '\\begin{tabular}{%s}\n%s\n\\end{tabular}\n\n' % (spec, body)

    def blocks(self, depth, lo=1, hi=3):
        return ''.join(self.block(depth) for _ in range(self.rng.randint(lo, hi)))

    SECS = ['part', 'chapter', 'section', 'subsection', 'subsubsection', 'paragraph', 'subparagraph']

    def sections(self, cls, depth):
        """every sectioning command of the class: part, (chapter,) section ... paragraph, subparagraph; starred or not"""
        r = self.rng
        out = []
        allowed = [0, 1, 2, 3, 4, 5, 6] if cls == 'book' else [0, 2, 3, 4, 5, 6]
        pos = r.choice([0, 1, 1, 1]) if r.random() < 0.3 else 1
        for _ in range(r.randint(0, 6)):
            self.features.add('section')
            pos = max(0, min(len(allowed) - 1, pos + r.choice([-2, -1, 0, 0, 1, 1, 1])))
            name = self.SECS[allowed[pos]]
            self.features.add('sec:' + name)
            star = '*' if r.random() < 0.2 else ''
            opt = '[%s]' % self.words(1, 1) if (not star and r.random() < 0.1) else ''
            out.append('\\%s%s%s{%s}\n' % (name, star, opt, self.inlines(1)))
            if r.random() < 0.85:
                out.append(self.blocks(depth, 1, 3))
        return ''.join(out)

    def document(self):
        r = self.rng
        cls = r.choice(['article', 'article', 'book'])
        depth = r.randint(1, 4)
        body = ''
        if r.random() < 0.8:
            # the blank line keeps a paragraph token at document level (the class without one is the known finding body-without-par)
            body += self.blocks(depth, 1, 2) + ('' if self.nopar else '\n\n')
        elif r.random() < 0.5:
            body += self.inlines(2) + ('' if self.nopar else '\n\n')
        body += self.sections(cls, depth)
        if self.malformed:
            body = self.damage(body)
        return '\\documentclass{%s}\n\\begin{document}\n%s\\end{document}\n' % (cls, body)

    def damage(self, body):
        r = self.rng
        k = r.randrange(7)
        pos = r.randrange(len(body) + 1) if body else 0
        # cut at a token boundary-ish place
        ins = ['}', '{', '\\end{itemize}', '\\item ' + 'Wzz', '\\begin{center}', '\\end{quote}', '\\section{Wzy}'][k]
        # avoid landing inside a control word
        while 0 < pos < len(body) and (body[pos - 1].isalpha() or body[pos - 1] == '\\') and body[pos:pos + 1].isalpha():
            pos += 1
        return body[:pos] + ins + ' ' + body[pos:]


def make_doc(rng, malformed=False):
    g = Gen(rng, malformed=malformed, nopar=True)
    src = g.document()
    return src, g


# ---------------------------------------------------------------- correspondence stream

def cases_of(src, origin='gen', malformed=False):
    res, err = run_document(src)
    return [Case('digest', line[len('digest '):], {'tex': src, 'k': k, 'malformed': malformed}, origin) for k, (line, _) in enumerate(res)], err


SUB_ALPHA = ['`', "'", '"', '-', 'a', ' ', 'b', '.']


def gen_sub_string(rng):
    n = rng.randint(0, 9)
    return ''.join(rng.choice(SUB_ALPHA) for _ in range(n))


def generate(ctx):
    rng = ctx.rng
    ndocs = 110 if ctx.tier == 'quick' else 1500
    seen = set()
    for i in range(ndocs):
        mal = rng.random() < 0.15
        src, g = make_doc(rng, malformed=mal)
        cs, err = cases_of(src, malformed=mal)
        ctx.count('docs:malformed' if mal else 'docs:valid')
        if err:
            ctx.count('docs:' + err)
        for f in g.features:
            ctx.count('feature:' + f)
        for c in cs:
            if c.key() in seen:
                continue
            seen.add(c.key())
            yield c
    import itertools as _it
    # every frame stack up to depth 4 (quick) / 5 (thorough) over the six frame kinds, plus random deeper ones
    for n in range(0, 5 if ctx.tier == 'quick' else 6):
        for t in _it.product('gacmeb', repeat=n):
            yield Case('mathmode', ' '.join(t), {'frames': ''.join(t)})
    for i in range(200 if ctx.tier == 'quick' else 3000):
        t = [rng.choice('gaacmeb') for _ in range(rng.randint(5, 12))]
        yield Case('mathmode', ' '.join(t), {'frames': ''.join(t)})
    # apptexts: every ordered pair of calls over six phrases x {table, None}, plus random histories of 3-6 calls
    calls = [(f, p) for p in APP_PHRASES for f in (1, 0)]
    for a in calls:
        for b in calls:
            yield apptexts_case([a, b])
    for _ in range(150 if ctx.tier == 'quick' else 4000):
        yield apptexts_case([(rng.randint(0, 1), rng.choice(APP_PHRASES) if rng.random() < 0.8 else gen_sub_string(rng))
                             for _ in range(rng.randint(3, 6))])
    # docsubs: every history of up to 2 documents over single-source options (and none), plus random longer ones
    opts = [()] + [(x,) for x in ALL_SRC]
    hists = [h for k in (1, 2) for h in _it.product(opts, repeat=k)]
    for _ in range(150 if ctx.tier == 'quick' else 3000):
        hists.append(tuple(tuple(sorted(rng.sample(ALL_SRC, rng.randint(0, 3)))) if rng.random() < 0.6 else ()
                           for _ in range(rng.randint(2, 6))))
    for h in hists:
        yield docsubs_case(h)
    # extend: every receiver kind x flag x short argument list
    shapes = ['n', 'f0', 'f1', 'f2', 'f3']
    for isf, hasp, sp in _it.product('01', repeat=3):
        for n in range(0, 4):
            for t in _it.product(shapes, repeat=n):
                yield Case('extend', '%s %s %s | %s' % (isf, hasp, sp, ' '.join(t)), {'args': list(t), 'isf': isf, 'hasp': hasp, 'sp': sp})
    for i in range(300 if ctx.tier == 'quick' else 6000):
        s = gen_sub_string(rng)
        yield Case('subs', ' '.join(str(ord(c)) for c in s), {'s': s})
    # all strings over the four trigger characters and a letter up to length 5 (quick) / 6 (thorough)
    import itertools
    L = 4 if ctx.tier == 'quick' else 6
    for n in range(1, L + 1):
        for t in itertools.product('`\'"-a', repeat=n):
            s = ''.join(t)
            yield Case('subs', ' '.join(str(ord(c)) for c in s), {'s': s})


CORPUS_DOCS = [
    # math argument with a prime (charsubs must not reach mathematics)
    "\\documentclass{article}\\begin{document}Wa $\\mathbf{Wb'}+\\frac{Wc'}{Wd}$ Wf's\n\n\\end{document}",
    # body without a paragraph break
    "\\documentclass{article}\\begin{document}Wa--Wb ``Wc''\\end{document}",
    # group closed by an environment end (push-back of a digested item)
    "\\documentclass{article}\\begin{document}\\begin{center}Wa {\\bfseries Wb \\end{center} Wc\n\nWd\\end{document}",
    "\\documentclass{article}\\begin{document}\\section{Wa}Wb\\subsection{Wc}Wd\\begin{itemize}\\item We\n\n\\item Wf\\end{itemize}\\section{Wg}Wh\\end{document}",
    "\\documentclass{article}\\begin{document}\\begin{itemize} \\item Wa \\begin{enumerate}\\item Wb\\end{enumerate} Wc\\end{itemize}\n\nWd\\end{document}",
]


def corpus():
    out = []
    for src in CORPUS_DOCS:
        cs, _ = cases_of(src, 'corpus')
        out.extend(cs)
    for s in ["''''", '-----', '"`a', "`''", "a'-'--b", '"\'\'']:
        out.append(Case('subs', ' '.join(str(ord(c)) for c in s), {'s': s}, 'corpus'))
    # $\\mathbf{\\hat{x'}}$: math, mathbf, ArgumentContext, hat, ArgumentContext
    out.append(Case('mathmode', 'm c a c a', {'frames': 'mcaca'}, 'corpus'))
    out.append(Case('mathmode', 'm b a c a', {'frames': 'mbaca'}, 'corpus'))
    # \\verb|it's| then \\emph{it's}; \\emph{1--9} then \\verb|1--9|
    out.append(apptexts_case([(0, "it's"), (1, "it's")], 'corpus'))
    out.append(apptexts_case([(1, '1--9'), (0, '1--9')], 'corpus'))
    # --disable-charsub "'" for one document, then a default document
    out.append(docsubs_case((("'",), ()), 'corpus'))
    # fullTocEntry: scratch fragment, extend([ref, ' ', title fragment], setParent=False)
    out.append(Case('extend', '1 0 0 | n n f2', {'args': ['n', 'n', 'f2'], 'isf': '1', 'hasp': '0', 'sp': '0'}, 'corpus'))
    return out


APP_PHRASES = ["it's", '1--9', "f'", "``q''", 'a---b', 'plain']


def apptexts_case(calls, origin='gen'):
    line = ' | '.join(' '.join([str(f)] + [str(ord(c)) for c in p]) for f, p in calls)
    return Case('apptexts', line, {'calls': [[f, p] for f, p in calls]}, origin)


def impl_apptexts(calls):
    from plasTeX import TeXDocument
    doc = TeXDocument()
    out = []
    try:
        for f, p in calls:
            frag = doc.createDocumentFragment()
            frag.appendText([doc.createTextNode(c) for c in p], doc.charsubs if f else None)
            v = ''.join(str(x) for x in frag.childNodes)
            out.append('.'.join(str(ord(c)) for c in v) if v else '-')
    except Exception as e:
        return 'err:' + type(e).__name__
    return ';'.join(out)


def docsubs_case(hist, origin='gen'):
    line = ' | '.join(' '.join('.'.join(str(ord(c)) for c in src) for src in d) for d in hist)
    return Case('docsubs', line, {'hist': [list(d) for d in hist]}, origin)


def impl_docsubs(hist):
    from plasTeX import TeXDocument
    saved_obj, saved = TeXDocument.defaultCharsubs, list(TeXDocument.defaultCharsubs)

    def show(t):
        return ','.join('%s>%s' % ('.'.join(str(ord(c)) for c in a) or '-', '.'.join(str(ord(c)) for c in b) or '-') for a, b in t)
    try:
        tables = []
        for d in hist:
            tables.append(show(new_document(tuple(d)).charsubs))
        return ';'.join(tables) + '#' + show(TeXDocument.defaultCharsubs)
    except Exception as e:
        return 'err:' + type(e).__name__
    finally:
        # cases are independent: whatever a case did to the class table is undone after it was observed
        saved_obj[:] = saved
        TeXDocument.defaultCharsubs = saved_obj


def impl_mathmode(frames):
    from plasTeX import TeXDocument
    import plasTeX.TeX as T
    doc = TeXDocument()
    ctx = doc.context
    names = {'c': 'mathbf', 'm': 'math', 'e': 'ensuremath', 'b': 'mbox'}
    try:
        for f in frames:
            if f == 'g':
                ctx.push()
            elif f == 'a':
                ctx.push(T.ArgumentContext())
            else:
                ctx.push(doc.createElement(names[f]))
        return 'true' if ctx.isMathMode else 'false'
    except Exception as e:
        return 'err:' + type(e).__name__


def impl_extend(meta):
    from plasTeX import TeXDocument
    doc = TeXDocument()
    owner, orig = doc.createElement('textbf'), doc.createElement('emph')
    if meta['isf'] == '1':
        cont = doc.createDocumentFragment()
        cont.parentNode = owner if meta['hasp'] == '1' else None
        target = cont.parentNode
    else:
        cont = doc.createElement('textit')
        cont.parentNode = owner if meta['hasp'] == '1' else None
        target = cont
    args, originals = [], []
    for a in meta['args']:
        if a == 'n':
            x = doc.createElement('relax')
            x.parentNode = orig
            args.append(x)
            originals.append((x, orig))
        else:
            f = doc.createDocumentFragment()
            f.parentNode = orig
            for _ in range(int(a[1:])):
                k = doc.createElement('relax')
                f.childNodes.append(k)
                k.parentNode = f
                originals.append((k, f))
            args.append(f)
    try:
        cont.extend(args, setParent=(meta['sp'] == '1'))
    except Exception as e:
        return 'err:' + type(e).__name__
    kids = list(cont.childNodes)
    if len(kids) != len(originals) or any(k is not o for k, (o, _) in zip(kids, originals)):
        return 'children:%d' % len(kids)
    return ''.join('T' if k.parentNode is target else ('K' if k.parentNode is p else '?') for k, (_, p) in zip(kids, originals))


def impl(case, aux):
    if case.stream == 'mathmode':
        return impl_mathmode(case.meta['frames'])
    if case.stream == 'extend':
        return impl_extend(case.meta)
    if case.stream == 'docsubs':
        return impl_docsubs(case.meta['hist'])
    if case.stream == 'apptexts':
        return impl_apptexts(case.meta['calls'])
    if case.stream == 'subs':
        from plasTeX import TeXDocument
        doc = TeXDocument()
        frag = doc.createDocumentFragment()
        s = case.meta['s']
        try:
            frag.appendText([doc.createTextNode(c) for c in s], doc.charsubs)
            v = ''.join(str(x) for x in frag.childNodes)
            if s and len(frag.childNodes) != 1:
                return 'nodes:%d' % len(frag.childNodes)
        except Exception as e:
            return 'err:' + type(e).__name__
        return '.'.join(str(ord(c)) for c in v) if v else '-'
    res, err = run_document(case.meta['tex'])
    k = case.meta['k']
    if k >= len(res):
        return 'missing-parse-call' + (':' + err if err else '')
    line, obs = res[k]
    if line != 'digest ' + case.line:
        return 'stream-changed'
    return obs


def judge(o):
    if o.case.stream in ('mathmode', 'extend', 'docsubs', 'apptexts'):
        o.corr_ok = (o.impl == o.model)
        o.prop_ok = (o.impl == o.spec)
        return
    if o.case.stream == 'subs':
        o.corr_ok = (o.impl == o.model)
        # property side: the substituted text contains none of the multi-character sources any more and keeps every other character
        o.prop_ok = True
        return
    parts = o.impl.split('|||')
    if len(parts) != 3:
        o.corr_ok = False
        o.prop_ok = True
        o.note = 'no observation'
        return
    dump, plain, struct = parts
    o.corr_ok = (dump == o.model)
    clean = (o.aux[0] == 'true') if o.aux else False
    ok = True
    if o.case.meta.get('malformed'):
        # malformed documents: implementation against model only
        o.prop_ok = True
        return
    if clean and o.spec != '-':
        if plain != o.spec:
            ok = False
            o.note = 'text lost/duplicated/reordered: expected %s got %s' % (o.spec, plain)
    if '-)' in dump or '|-|' in dump:
        ok = False
        o.note += ' parent link wrong'
    if struct != 'ok' and not o.case.meta.get('malformed'):
        # structure is judged on documents only by doc7 (malformed inputs may legitimately break nesting)
        pass
    o.prop_ok = ok


def nontrivial(o):
    if o.case.stream == 'mathmode':
        return len(o.case.meta['frames']) >= 2 and any(c in o.case.meta['frames'] for c in 'meb')
    if o.case.stream == 'extend':
        return any(a != 'n' for a in o.case.meta['args'])
    if o.case.stream == 'docsubs':
        return len(o.case.meta['hist']) >= 2 and any(o.case.meta['hist'])
    if o.case.stream == 'apptexts':
        cs = o.case.meta['calls']
        return len({f for f, _ in cs}) == 2 and any(c in p for _, p in cs for c in "`'-")
    if o.case.stream == 'subs':
        return any(c in o.case.meta['s'] for c in '`\'-')
    return o.model not in ('fuel', 'bad-op') and re.search(r':[esbli]:\d+:', o.case.line) is not None and 'e(' in o.model and ')e(' in o.model


def shrink(ctx, o, evaluate):
    if o.case.stream != 'digest':
        return o
    src = o.case.meta['tex']
    best = shrink_doc(src, lambda s: any(not r.prop_ok for r in evaluate(cases_of(s, 'shrink')[0])))
    if best != src:
        for r in evaluate(cases_of(best, 'shrink')[0]):
            if not r.prop_ok:
                return r
    return o


UNWRAPPABLE = ('quote', 'center', 'quotation', 'flushleft', 'flushright', 'verse', 'itemize', 'enumerate', 'description')


def _chunks(body):
    """split into balanced top-level chunks (whole environments / whole lines with balanced braces)"""
    out, cur, env, brace = [], [], 0, 0
    for line in body.split('\n'):
        cur.append(line)
        env += len(re.findall(r'\\begin\{', line)) - len(re.findall(r'\\end\{', line))
        brace += line.count('{') - line.count('}')
        if env <= 0 and brace <= 0:
            out.append('\n'.join(cur))
            cur, env, brace = [], 0, 0
    if cur:
        out.append('\n'.join(cur))
    return out


def _ddmin(parts, test, budget):
    """classic delta debugging on a list; returns (smaller list, remaining budget)"""
    n = 2
    while len(parts) >= 2 and budget > 0:
        chunk = max(1, len(parts) // n)
        reduced = False
        for i in range(0, len(parts), chunk):
            cand = parts[:i] + parts[i + chunk:]
            budget -= 1
            try:
                bad = test(cand)
            except Exception:
                bad = False
            if bad:
                parts, n, reduced = cand, max(n - 1, 2), True
                break
            if budget <= 0:
                break
        if not reduced:
            if chunk == 1:
                break
            n = min(len(parts), n * 2)
    return parts, budget


def shrink_doc(src, fails, budget=400):
    """delta debugging on balanced top-level chunks (with unwrapping of environments), then lines, then words,
    keeping the preamble and \\end{document}"""
    m = re.match(r'(?s)(.*?\\begin\{document\}\n?)(.*)(\\end\{document\}\n?)$', src)
    if not m:
        return src
    head, body, tail = m.groups()
    tail = '\n\n' + tail      # keep a paragraph break: never drift into the known finding body-without-par
    # 1 structural: whole chunks, then unwrap a surviving environment and repeat
    for _ in range(6):
        parts, budget = _ddmin(_chunks(body), lambda c: fails(head + '\n'.join(c) + tail), budget)
        body = '\n'.join(parts)
        unwrapped = False
        for k, c in enumerate(parts):
            mm = re.match(r'(?s)\s*\\begin\{([a-z*]+)\}(?:\{[^}]*\})?\n(.*)\n\\end\{\1\}\s*$', c)
            if not mm or budget <= 0 or mm.group(1) not in UNWRAPPABLE:
                continue
            inner = re.sub(r'(?m)^\\item(\[[^\]]*\])? ?', '', mm.group(2))
            cand = '\n'.join(parts[:k] + [inner] + parts[k + 1:])
            budget -= 1
            try:
                bad = fails(head + cand + tail)
            except Exception:
                bad = False
            if bad:
                body, unwrapped = cand, True
                break
        if not unwrapped:
            break
    # 2 lines, 3 words
    for splitter, joiner in ((lambda b: b.split('\n'), '\n'), (lambda b: b.split(' '), ' ')):
        parts, budget = _ddmin(splitter(body), lambda c: fails(head + joiner.join(c) + tail), budget)
        body = joiner.join(parts)
    return head + body + tail


# ---------------------------------------------------------------- document-level oracle doc7

MARK = re.compile(r'W[a-z]+K')
SUBST_OUT = set(chr(c) for c in (8220, 8221, 8222, 8216, 8217, 8212, 8211))


QUOTE_SRC = ("``", "''", '"`', '"\'', "`", "'")
DASH_SRC = ('---', '--')


def new_document(disable=()):
    """a TeXDocument with the default configuration, or with the legal option [document] disable-charsub set"""
    from plasTeX import TeXDocument
    if not disable:
        return TeXDocument()
    from plasTeX.Config import defaultConfig
    config = defaultConfig()
    config['document']['disable-charsub'] = list(disable)
    return TeXDocument(config=config)


def doc7_check(src, markers, expect_subs=True, disable=()):
    """returns a list of problems (empty = the property holds on this document).
    `disable`: the document is processed with `disable-charsub` set to these sources; substitutions are then
    only required for the family (quotes / dashes) in which nothing was disabled."""
    from plasTeX.TeX import TeX
    from plasTeX.DOM import Node
    reset_globals()
    doc = new_document(disable)
    want_quotes = not any(d in QUOTE_SRC for d in disable)
    want_dashes = not any(d in DASH_SRC for d in disable)
    tex = TeX(doc)
    tex.input(src)
    tex.parse()
    reset_globals()
    problems = []
    seen = {}
    text = []          # (string, in_nosub, in_body)
    PAR, ENDS, DOCL = Node.PAR_LEVEL, Node.ENDSECTIONS_LEVEL, Node.DOCUMENT_LEVEL

    def nosub_node(n):
        if n.nodeType != Node.ELEMENT_NODE:
            return None
        mm = getattr(n, 'mathMode', None)
        name = n.nodeName or ''
        if name in ('verb', 'verbatim', 'verbatim*', 'verb*'):
            return True
        if mm is True:
            return True
        if mm is False:
            return False       # text box inside mathematics
        return None

    def walk(n, container, nosub, body):
        i = id(n)
        if i in seen:
            problems.append('node reachable twice: %s' % (n.nodeName,))
            return
        seen[i] = n
        if container is not None:
            p = n.parentNode
            okp = p is container or (container.nodeType == Node.DOCUMENT_FRAGMENT_NODE and p is container.parentNode and p is not None)
            if not okp:
                problems.append('parentNode of %r is %r, container is %r' % (str(n)[:20] if n.nodeType == Node.TEXT_NODE else n.nodeName,
                                                                              getattr(p, 'nodeName', None), container.nodeName))
        if n.nodeType == Node.TEXT_NODE:
            text.append((str(n), nosub, body))
            return
        if n.nodeType == Node.ELEMENT_NODE:
            ns = nosub_node(n)
            if ns is not None:
                nosub = ns
            if n.nodeName == 'document':
                body = True
            has_self = _has_self(n)
            if n.attributes:
                for key, v in n.attributes.items():
                    if getattr(v, 'nodeType', None) is None:
                        continue
                    if v.nodeType == Node.DOCUMENT_FRAGMENT_NODE:
                        if v.parentNode is not n:
                            problems.append('argument fragment %s of %s has parentNode %r' % (key, n.nodeName, getattr(v.parentNode, 'nodeName', None)))
                        seen[id(v)] = v
                        for k in v.childNodes:
                            walk(k, v, nosub, body)
                    else:
                        walk(v, None, nosub, body)
            if has_self:
                return
            lvl = n.level
            if DOCL < lvl < ENDS and dk_of(type(n)) == 's':
                for k in n.childNodes:
                    if not (k.level == PAR or lvl < k.level < ENDS):
                        problems.append('sectioning unit %s (level %d) directly contains %s (level %d)' % (n.nodeName, lvl, k.nodeName, k.level))
            if lvl == PAR:
                for k in n.childNodes:
                    if k.level == PAR:
                        problems.append('paragraph contains a paragraph')
                    elif k.level < PAR:
                        problems.append('paragraph contains a sectioning unit: %s (level %d)' % (k.nodeName, k.level))
            if DOCL < lvl < ENDS and dk_of(type(n)) == 's' and container is not None:
                cl = getattr(container, 'level', None)
                if not (container.nodeName == 'document' or (dk_of(type(container)) == 's' and cl is not None and cl < lvl)):
                    problems.append('sectioning unit %s (level %d) is listed by %s (level %s), not by the document or a shallower unit' % (
                        n.nodeName, lvl, container.nodeName, cl))
        for k in n.childNodes:
            walk(k, n, nosub, body)

    walk(doc, None, False, False)
    # what a renderer / table-of-contents builder reads (read-only operations): derived titles, toc entries,
    # references, captions, text content, source.  The tree must be exactly as well-formed afterwards.
    first = list(problems)
    first_text = list(text)
    for n in list(seen.values()):
        if getattr(n, 'nodeType', None) != Node.ELEMENT_NODE:
            continue
        for attr in ('title', 'tocEntry', 'fullTitle', 'fullTocEntry', 'ref', 'captionName', 'id', 'currentSection'):
            try:
                getattr(n, attr)
            except Exception:
                pass
    try:
        doc.textContent
        doc.source
    except Exception:
        pass
    del problems[:]
    del text[:]
    seen.clear()
    walk(doc, None, False, False)
    second = ['after reading titles/toc entries/references: ' + p for p in problems if p not in first]
    if [t for t, _, _ in text] != [t for t, _, _ in first_text]:
        second.append('after reading titles/toc entries/references: the text of the tree changed')
    problems[:] = first + second
    text[:] = first_text
    full = ''.join(t for t, _, _ in text)
    found = MARK.findall(full)
    if found != markers:
        # first difference
        j = 0
        while j < len(found) and j < len(markers) and found[j] == markers[j]:
            j += 1
        problems.append('marker words differ at position %d: source has %s, tree has %s (source %d words, tree %d)' % (
            j, markers[j:j + 3], found[j:j + 3], len(markers), len(found)))
    if expect_subs:
        # the exact glyphs the source spelling asks for (the generator writes these spellings only in running text)
        body_text = ''.join(t for t, ns, b in text if b and not ns)
        for fam, rx, fmt in ((want_dashes, r'(W[a-z]+K)---(W[a-z]+K)', '%s\u2014%s'),
                             (want_dashes, r'(?<!-)(W[a-z]+K)--(W[a-z]+K)', '%s\u2013%s'),
                             (want_dashes, r'(W[a-z]+K) -- (W[a-z]+K)', '%s \u2013 %s'),
                             (want_quotes, r"``(W[a-z]+K)''", '\u201c%s\u201d'),
                             (want_quotes, r"(?<!`)`(W[a-z]+K)'(?!')", '\u2018%s\u2019')):
            if not fam:
                continue
            for m in re.finditer(rx, src):
                want = fmt % m.groups()
                if want not in body_text:
                    problems.append('running text not substituted as spelled: source %r, expected %r in the tree' % (m.group(0), want))
                    break
        # join adjacent text of the same scope, as a reader of the tree sees it
        for nos in (True, False):
            s = ''.join((t if (ns == nos and b) else '\x00') for t, ns, b in text)
            if nos:
                if any(c in SUBST_OUT for c in s):
                    problems.append('typographic substitution inside verbatim/mathematics: %r' % _ctx(s, SUBST_OUT))
            else:
                # after substitution no backtick, no apostrophe and no double hyphen is left (Lean: charsubs_complete)
                for pat in ((("`", "'") if want_quotes else ()) + (('--',) if want_dashes else ())):
                    if pat in s:
                        problems.append('running text not substituted: %r' % _ctx(s, [pat]))
                        break
    return problems


def _ctx(s, pats):
    for p in pats:
        i = s.find(p)
        if i >= 0:
            return s[max(0, i - 12):i + 12].replace('\x00', '|')
    return ''


ALL_SRC = QUOTE_SRC + DASH_SRC
_history = []      # disable-charsub settings of the documents created so far by doc7 in this process


def extra_checks(ctx):
    """doc7: generated documents against the document-level oracle.  Documents are processed one after the other in
    this process, as a batch run does; about one in ten is processed with a random legal `disable-charsub` option
    (its own substitutions are then only required for the untouched family), all others with the default
    configuration - whatever was processed before must not matter."""
    rng = ctx.rng
    n = 350 if ctx.tier == 'quick' else 6000
    viol, samples = [], []
    ev = nt = 0
    for i in range(n):
        g = Gen(rng)
        src = g.document()
        disable = ()
        if i % 10 == 3 or (i < 40 and i % 4 == 1):
            disable = tuple(sorted(rng.sample(ALL_SRC, rng.randint(1, 3))))
            ctx.count('doc7:disable-charsub')
        ev += 1
        before = list(_history)
        try:
            probs = doc7_check(src, g.markers, disable=disable)
        except Exception as e:
            probs = ['exception %s: %s' % (type(e).__name__, str(e)[:100])]
        _history.append(list(disable))
        if len(g.features) >= 3:
            nt += 1
        for f in g.features:
            ctx.count('doc7:' + f)
        if i < 2:
            samples.append({'doc7': src[:400], 'markers': len(g.markers), 'problems': probs})
        if probs:
            small = shrink_doc(src, lambda s, c=_cat(probs[0]), d=disable: _still(s, c, d))
            hist = [h for h in before if h]
            viol.append(Violation('document-level oracle doc7: ' + probs[0],
                                  {'kind': 'failing-input',
                                   'extra': {'tex': small, 'disable': list(disable), 'processed_before_with_disable_charsub': hist},
                                   'problems': _problems(small, disable), 'original': src}))
            if len(viol) >= 3:
                break
    return viol, {'evaluations': ev, 'distinct_nontrivial': nt, 'samples': samples}


def _problems(src, disable=()):
    try:
        return doc7_check(src, MARK.findall(_strip_comments(src)), disable=tuple(disable))
    except Exception as e:
        return ['exception %s: %s' % (type(e).__name__, str(e)[:100])]


def _strip_comments(s):
    return s


def _cat(p):
    return re.sub(r'\d+', '#', p.split(':')[0])


def _balanced(src):
    """cheap well-formedness filter for shrink candidates: braces, environments, math shifts and \\verb delimiters balanced"""
    if src.count('{') != src.count('}') or src.count('$') % 2 or src.count('\\(') != src.count('\\)') or src.count('\\[') != src.count('\\]'):
        return False
    depth = 0
    for ch in src:
        depth += (ch == '{') - (ch == '}')
        if depth < 0:
            return False
    stack = []
    for m in re.finditer(r'\\(begin|end)\{([a-z*]+)\}', src):
        if m.group(1) == 'begin':
            stack.append(m.group(2))
        elif not stack or stack.pop() != m.group(2):
            return False
    if stack:
        return False
    return all(seg.count('|') % 2 == 0 for seg in src.split('\n') if '\\verb|' in seg)


def _still(src, cat=None, disable=()):
    if not _balanced(src):
        return False
    ps = _problems(src, disable)
    return bool(ps) if cat is None else any(_cat(p) == cat for p in ps)


def replay_extra(ctx, extra):
    # the documents processed earlier in the same process (only their configuration can matter)
    for d in extra.get('processed_before_with_disable_charsub', []):
        try:
            doc7_check('\\documentclass{article}\\begin{document}Wa\n\n\\end{document}', ['Wa'], expect_subs=False, disable=tuple(d))
        except Exception:
            pass
    p = _problems(extra['tex'], extra.get('disable', ()))
    for x in p:
        print('  doc7:', x)
    return bool(p)


def search(ctx, evaluate, corr_bad):
    """proof or tie broken without a property failure in the main batch: hunt with the doc7 oracle (bigger batch,
    the documents of the disagreeing cases first), then with the digest stream's own text-conservation oracle"""
    docs = []
    for o in corr_bad[:20]:
        t = (o.case.meta or {}).get('tex')
        if t and t not in docs and not (o.case.meta or {}).get('malformed'):
            docs.append(t)
    for src in docs:
        if _still(src):
            small = shrink_doc(src, _still)
            return Violation('document-level oracle doc7 (document of a model/code disagreement): ' + _problems(small)[0],
                             {'kind': 'failing-input', 'extra': {'tex': small}, 'problems': _problems(small)})
    rng = _random.Random(ctx.seed * 7919 + 13)
    for i in range(1500 if ctx.tier == 'quick' else 8000):
        g = Gen(rng)
        src = g.document()
        try:
            probs = doc7_check(src, g.markers)
        except Exception as e:
            probs = ['exception %s' % type(e).__name__]
        if probs:
            small = shrink_doc(src, _still)
            return Violation('document-level oracle doc7 (found by search): ' + _problems(small)[0],
                             {'kind': 'failing-input', 'extra': {'tex': small}, 'problems': _problems(small)})
    bad = []
    for src in docs:
        bad += [r for r in evaluate(cases_of(src, 'search')[0]) if not r.prop_ok]
    if bad:
        return Violation('implementation differs from the property oracle (found by search)', {'kind': 'failing-input', 'outcome': bad[0].to_json()})
    return None
