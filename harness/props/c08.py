"""C08 - counters and automatic numbers follow LaTeX's numbering rules.

streams
  num  : every value 1..4999 (quick: all Roman/roman, thorough: + surroundings) and 1..26 for alph/Alph plus
         out-of-range values: the live `Counter` properties against Model.represent and Spec.roman/alph (exhaustive).
  ctr  : random operation histories (`newcounter` forests incl. forward references and cycles, step/set/add) on a
         real `Context`; observation = every counter value in dict order.
  fmt  : random `\\the…` format strings (nested `${the…}`, `$name`, `${name.fmt}`, trimLeft) evaluated by the real
         `TheCounter.invoke`; the format string is split into pieces by the two regexes of the code (harness side).
  doc8 : generated documents (article and book) mixing sectioning, equations, eqnarray rows, captions, theorem-like
         environments (own / shared / within / starred), lists, explicit counter manipulation, \\appendix; the event list
         is derived from the generator's own AST, the observation is `ref.textContent` of the numbered nodes in
         document order plus all final counter values.  Implementation vs event machine (model) vs LaTeX oracle (spec).
"""
import ast, inspect, logging, random, re
import extract
from framework import Case, Violation

ID = 'C08'
LEAN_MODULE = 'PlasVerif.Properties.C08'
LEVEL_TEXT = ('Lean 4 theorems over a line-by-line model of Counter / numToRoman / TheCounter.invoke / the Macro numbering life cycle / '
              'List, eqnarray, newtheorem, appendix: step_resets_exactly (a step zeroes exactly the counters declared within it, transitively, '
              'for every store and every reset relation, and reports a cycle instead of looping), set/add change one counter, '
              'roman_standard (all n in 1..4999, by digit decomposition of the translated numToRoman), alph_standard (1..26), '
              'format evaluation = declarative nested substitution (fmt_eval, sound + complete + deterministic, model fuel sufficient on ranked tables) and trimLeft, '
              'and over arbitrary event histories: consecutive numbering (consecutive_numbers_history: decidable "no event names the counter or one above it"), starred / too-deep / \\item[label] '
              'print nothing, shared counters interleave, numbered-within restarts, enumerate_counts_from_one (List.invoke invariant preserved by every safe event, '
              'items print 1,2,3 restarting in every nested list, labelled items do not count). '
              'numToRoman and the class counter tables are regenerated from the live code on every run; the model is tied to the code by '
              'differential execution (exhaustive for the representations) and generated documents are checked against an independent LaTeX oracle. '
              'User entry points are in the model: \\arabic/\\roman/\\Roman/\\alph/\\Alph{c} and \\thec in text (show_prints_representation), \\renewcommand{\\thec} '
              '(renewed_the_is_used, appendix_overrides_renewed), \\setcounter{n}{\\value{m}} (value_is_copied), the --counter option (initial_counter_option), and the format '
              'lexer (format_lexer_roundtrip, class_formats_split). Which construct steps when (document level) is carried by the doc8 stream only.')
LEVEL_NOTE = ('Trusted: Lean kernel (axioms propext, Classical.choice, Quot.sound only), harness/extract.py and the AST translator of numToRoman in '
              'harness/props/c08.py, the two format regexes re-used by the harness to split format strings, the correspondence harness and generators, CPython. '
              'Modelled not verified: expansion/digestion that turns source into the event sequence, templates that display numbers.')
TECHNIQUE = 'Lean 4 proof (induction on reset fuel / histories, digit decomposition) + AST-translated numToRoman + probed class tables + differential correspondence'
TRUSTED = ['the two regexes of TheCounter.invoke are modelled by a hand-written lexer (Model.splitFormat, ASCII \\w and \\s): tied by the fmt stream (raw format strings, '
           'malformed references included) and by class_formats_split (kernel check against the harness regex split of the live class formats); Python re itself is trusted',
           'macro expansion that turns \\renewcommand{\\thec}{...} bodies, \\arabic{c}, \\value{c} into the modelled events is tied by the doc8 stream only',
           'document -> event sequence (which macro steps which counter when) is tied by the doc8 stream only']
ASSUMPTIONS = ['roman_standard is structural: thousands prefix by induction, the twelve regenerated statements are recognised (decide on the table) as three scaled copies of one digit program, '
               'each stage proved by a scaling lemma + ten closed digit cases; the kernel evaluation of 0..999 is kept only as a cross-check',
               'enumerate_counts_from_one / list_invariant_*: hypotheses ListInv (class table well-formed for lists, checked by the kernel on the regenerated tables), listSafe events and '
               'well-nested lists (stackAfter defined); the driver re-checks these decidable hypotheses on every generated document inside the oracle domain',
               'reading a counter that does not exist creates it (Counters.__getitem__); that side effect inside \\the... evaluation is not modelled, the value read (0) is',
               'generated documents keep lists balanced and at most 4 deep, do not manipulate enumi..enumiv explicitly, use \\nonumber only inside eqnarray rows, '
               'place a unit heading right after \\appendix, keep counters non-negative, and number theorems only within units that print a number',
               'sectioning deeper than sec-num-depth steps its counter in plasTeX (LaTeX does not); only the printed numbers are compared with the LaTeX oracle, '
               'and \\arabic / \\value / \\thec are generated only for counters both sides agree on',
               '\\renewcommand{\\thec} is generated at the top level of the body only (it is local to its group), with \\the... references going strictly upwards (no cycles); '
               'a non-arabic \\thechapter is generated only while the chapter number stays positive (known finding roman-chapter-zero-float covers the other case)']
RULE = ('num: exhaustive ranges; ctr/fmt: seeded random histories (fmt: counter values incl. 10, 20, 100, 1000 and multiples of 10; judged against the executable '
        'nested-substitution oracle substEval); doc8: seeded random documents, 40 (thorough 400) groups of 2-4 of them parsed by a fresh Python process each (which construct a process uses first matters for per-class caches) (explicit values on the digit boundaries 9/10, 99/100 ..., 8% long documents of 10-24 units)  optional arguments spelled as text, empty [], blank, math or a command; (~15% malformed: undefined counters, 5-deep lists); '
        'non-trivial = spec defined and (num: always; ctr: at least one reset edge and one step; doc8: at least 3 printed numbers); distinct = distinct request line')
EXHAUSTIVE = {'quick': 'num stream: Roman and roman for every value 1..4999, Alph/alph 1..26 (plus -60..60 for the model)',
              'thorough': 'num stream: Roman and roman for every value -100..5100, Alph/alph/arabic/fnsymbol -60..60'}
CASE_TIMEOUT = 20

logging.disable(logging.CRITICAL)

# ---------------------------------------------------------------- translator

def _regexes_of_the_code():
    """the three regex literals of TheCounter.invoke, read from the current source (AST): pattern and replacement of
    the first `re.sub`, pattern of the second"""
    import plasTeX
    fn = ast.parse(inspect.getsource(plasTeX.TheCounter)).body[0]
    subs = [n for n in ast.walk(fn) if isinstance(n, ast.Call) and isinstance(n.func, ast.Attribute) and n.func.attr == 'sub'
            and isinstance(n.func.value, ast.Name) and n.func.value.id == 're' and isinstance(n.args[0], ast.Constant)]
    subs.sort(key=lambda n: (n.lineno, n.col_offset))
    with_repl = [n for n in subs if isinstance(n.args[1], ast.Constant) and '$' in n.args[0].value]
    with_cb = [n for n in subs if isinstance(n.args[1], ast.Name) and n.args[1].id == 'counterValue']
    return (with_repl[0].args[0].value, with_repl[0].args[1].value), with_cb[0].args[0].value


try:
    RX1, RX2 = _regexes_of_the_code()
except Exception:                      # source shape changed: fall back to the last known literals
    RX1 = (r'\$(\w+)', r'${\1}')
    RX2 = r'\$\{\s*([^\s.{}]+)(?:\.(\w+))?\s*\}'


def split_format(fmt):
    """the two regex passes of TheCounter.invoke -> [('L', text) | ('R', name, fmt or None)]"""
    fmt = re.sub(RX1[0], RX1[1], fmt)
    out, pos = [], 0
    for m in re.finditer(RX2, fmt):
        if m.start() > pos:
            out.append(('L', fmt[pos:m.start()]))
        out.append(('R', m.group(1), m.group(2)))
        pos = m.end()
    if pos < len(fmt):
        out.append(('L', fmt[pos:]))
    return out


def _roman_program():
    """AST of plasTeX.numToRoman -> (div, thousand symbol, [(isWhile, k, sym)])"""
    import plasTeX
    fn = ast.parse(inspect.getsource(plasTeX.numToRoman)).body[0]
    arg = fn.args.args[0].arg
    body = [s for s in fn.body if not (isinstance(s, ast.Expr) and isinstance(s.value, ast.Constant))]
    s0 = body[0]
    # n, number = divmod(x, 1000)
    assert isinstance(s0, ast.Assign) and isinstance(s0.targets[0], ast.Tuple)
    nvar, numvar = [t.id for t in s0.targets[0].elts]
    call = s0.value
    assert isinstance(call, ast.Call) and call.func.id == 'divmod' and call.args[0].id == arg
    div = call.args[1].value
    s1 = body[1]
    assert isinstance(s1, ast.Assign) and isinstance(s1.value, ast.BinOp) and isinstance(s1.value.op, ast.Mult)
    rvar = s1.targets[0].id
    l, r = s1.value.left, s1.value.right
    if isinstance(r, ast.Constant):
        l, r = r, l
    thousand = l.value
    assert isinstance(thousand, str) and r.id == nvar
    stmts = []
    for s in body[2:-1]:
        assert isinstance(s, (ast.If, ast.While)) and not s.orelse
        t = s.test
        assert isinstance(t, ast.Compare) and t.left.id == numvar and len(t.ops) == 1
        k = t.comparators[0].value
        if isinstance(t.ops[0], ast.Gt):
            k = k + 1
        else:
            assert isinstance(t.ops[0], ast.GtE)
        sym = dec = None
        assert len(s.body) == 2
        for b in s.body:
            if isinstance(b, ast.AugAssign):
                tgt, op, v = b.target.id, b.op, b.value
            else:
                assert isinstance(b, ast.Assign) and isinstance(b.value, ast.BinOp) and b.value.left.id == b.targets[0].id
                tgt, op, v = b.targets[0].id, b.value.op, b.value.right
            if tgt == rvar:
                assert isinstance(op, ast.Add)
                sym = v.value
            else:
                assert tgt == numvar and isinstance(op, ast.Sub)
                dec = v.value
        assert isinstance(sym, str) and isinstance(dec, int) and isinstance(k, int) and dec == k and k >= 1
        stmts.append((isinstance(s, ast.While), k, sym))
    ret = body[-1]
    assert isinstance(ret, ast.Return) and ret.value.id == rvar
    assert isinstance(div, int) and div >= 1
    return div, thousand, stmts


def _class_tables(cls):
    from plasTeX.TeX import TeX
    from plasTeX import TeXDocument
    doc = TeXDocument()
    tex = TeX(doc)
    tex.input('\\documentclass{%s}\\begin{document}x\\end{document}' % cls)
    tex.parse()
    counters, thes = [], []
    for k, c in doc.context.counters.items():
        assert re.fullmatch(r'\w+', k) and (c.resetby is None or isinstance(c.resetby, str)) and isinstance(c.value, int)
        counters.append((k, c.resetby, c.value))
        t = doc.context['the' + k]
        assert isinstance(t.format, str)
        thes.append((k, split_format(t.format), bool(t.trimLeft), t.format))
    return counters, thes


def _lean_chars(s):
    assert all(c.isascii() and c.isalnum() for c in s)
    return '[' + ', '.join("'%s'" % c for c in s) + ']'


def _lean_opt(s):
    return 'none' if s is None else 'some ' + extract.lean_str(s)


def _lean_pieces(ps):
    return '[' + ', '.join('(true, %s, %s)' % (extract.lean_str(p[1]), extract.lean_str(p[2] or '')) if p[0] == 'R'
                           else '(false, %s, "")' % extract.lean_str(p[1]) for p in ps) + ']'


def gen_counters():
    from plasTeX import encoding
    div, thousand, stmts = _roman_program()
    letters = encoding.stringletters()
    assert isinstance(letters, str) and all(32 < ord(c) < 127 for c in letters)
    src = (extract.HEADER % ('plasTeX/__init__.py (numToRoman, AST), plasTeX/encoding.py, plasTeX/Packages/{book,article}.py (probed)', 'exact') +
           'namespace PlasVerif.Generated.Counters\n'
           '/-! `numToRoman`, statement by statement: `n, number = divmod(x, romanDiv)`; `roman = romanThousand * n`;\n'
           '    then each entry `(isWhile, k, sym)` is `if/while number >= k: roman = roman + sym; number = number - k`. -/\n'
           'def romanDiv : Nat := %d\n'
           'def romanThousand : List Char := %s\n'
           'def romanStmts : List (Bool × Nat × List Char) := [%s]\n'
           '/-- `encoding.stringletters()` -/\n'
           'def letters : String := %s\n' % (
               div, _lean_chars(thousand),
               ', '.join('(%s, %d, %s)' % ('true' if w else 'false', k, _lean_chars(s)) for w, k, s in stmts),
               extract.lean_str(letters)))
    for cls in ('book', 'article'):
        counters, thes = _class_tables(cls)
        src += ('/-- counters declared by `\\documentclass{%s}`: (name, resetby, initial value), in declaration order -/\n' % cls +
                'def %sCounters : List (String × Option String × Int) := [%s]\n' % (
                    cls, ', '.join('(%s, %s, %d)' % (extract.lean_str(n), _lean_opt(r), v) for n, r, v in counters)) +
                '/-- their `\\the…` macros: (counter, format split into (isRef, name|text, representation), trimLeft) -/\n'
                'def %sThes : List (String × List (Bool × String × String) × Bool) := [\n  %s]\n' % (
                    cls, ',\n  '.join('(%s, %s, %s)' % (extract.lean_str(n), _lean_pieces(ps), 'true' if tl else 'false')
                                      for n, ps, tl, _ in thes)) +
                '/-- the same macros with their raw `format` strings, as the class file writes them (counter, format, trimLeft) -/\n'
                'def %sFormats : List (String × String × Bool) := [%s]\n' % (
                    cls, ', '.join('(%s, %s, %s)' % (extract.lean_str(n), extract.lean_str(raw), 'true' if tl else 'false')
                                   for n, _, tl, raw in thes)))
    src += 'end PlasVerif.Generated.Counters\n'
    return 'PlasVerif/Generated/Counters.lean', src, 'exact'


GENERATED = [gen_counters]

# ---------------------------------------------------------------- generation: num / ctr / fmt

NAMES = ['ca', 'c-b', 'c3', 'Cd', 'c_e', 'cf']     # digits, capitals and `_` are word characters; `-` is legal in a LaTeX counter name
FMTS = ['arabic', 'roman', 'Roman', 'alph', 'Alph', 'fnsymbol']


def gen_ctr(rng):
    """declarations (mostly a forest, sometimes forward references / cycles / duplicates) then operations"""
    k = rng.randint(1, 6)
    names = NAMES[:k]
    words = []
    bad = rng.random() < 0.15
    for i, n in enumerate(names):
        if i and rng.random() < 0.7:
            w = rng.choice(names[:i])
        elif bad and rng.random() < 0.5:
            w = rng.choice(names)          # forward reference, self reference, possible cycle
        else:
            w = '-'
        words.append('N:%s:%s' % (n, w))
    for _ in range(rng.randint(1, 14)):
        r = rng.random()
        n = rng.choice(names) if not (bad and rng.random() < 0.1) else 'zz'
        if r < 0.55: words.append('S:%s' % n)
        elif r < 0.75: words.append('T:%s:%d' % (n, rng.randint(-2, 9)))
        elif r < 0.92: words.append('A:%s:%d' % (n, rng.randint(-3, 4)))
        else: words.append('N:%s:%s' % (rng.choice(NAMES), rng.choice(names + ['-'])))
    return ' '.join(words)


def lit_word(s):
    return 'L' + '_'.join(str(ord(c)) for c in s)


def gen_fmt(rng):
    k = rng.randint(1, 4)
    names = NAMES[:k]
    # values on both sides of every digit boundary, values ending in 0 and multi-digit values ("10.1", "100.20")
    vals = {n: rng.choice([0, 0, 1, 2, 3, 7, 9, 10, 12, 20, 26, 30, 99, 100, 101, 110, 1000, rng.randint(-3, 60),
                           10 * rng.randint(1, 40)]) for n in names}
    macros = {}
    order = list(names)
    rng.shuffle(order)
    for i, n in enumerate(order):
        parts = []
        for _ in range(rng.randint(1, 4)):
            r = rng.random()
            if r < 0.3:
                parts.append(rng.choice(['.', '-', '0.', 'x', ' ', '0', '(', ')']))
            elif r < 0.5 and i:
                parts.append('${the%s}' % rng.choice(order[:i]))
            elif r < 0.55:
                parts.append('${the%s}' % rng.choice(order))       # maybe itself / a cycle
            elif r < 0.7:
                parts.append('$%s' % rng.choice(names))
            elif r < 0.95:
                parts.append('${%s%s.%s%s}' % (rng.choice(['', ' ']), rng.choice(names), rng.choice(FMTS), rng.choice(['', ' '])))
            else:
                # lexer edge cases: unmatched / malformed references stay literal text, `\s` is more than a blank
                parts.append(rng.choice(['${zz}', '${%s.nosuch}' % names[0], '$', '${', '}', '$$', '${%s.}' % names[0],
                                         '${%s.arabic.x}' % names[0], '${ %s x}' % names[0], '${\t%s\t}' % names[0],
                                         '${\n%s.Roman\n}' % names[0], '$%s_x' % names[0], '${}', '${.arabic}', '$ {%s}' % names[0],
                                         '{%s}' % names[0], '$%s$%s' % (names[0], names[-1]), '${%s}}' % names[0]]))
        macros['the' + n] = (''.join(parts), rng.random() < 0.4)
    target = 'the' + rng.choice(order)
    words = ['V:%s:%d' % (n, v) for n, v in vals.items()]
    for m, (f, tl) in macros.items():
        # the raw format string goes to the driver: the model's own lexer (Model.splitFormat) does the two regex passes
        words.append('F:%s:%d:%s' % (m, 1 if tl else 0, '_'.join(str(ord(ch)) for ch in f)))
    words.append('E:' + target)
    meta = {'kind': 'fmt', 'vals': vals, 'macros': {m: [f, tl] for m, (f, tl) in macros.items()}, 'target': target}
    return ' '.join(words), meta


# ---------------------------------------------------------------- generation: documents

LEVELS = {'part': -1, 'chapter': 0, 'section': 1, 'subsection': 2, 'subsubsection': 3, 'paragraph': 4, 'subparagraph': 5}
ENV_LEVEL, CMD_LEVEL = 201, 1001


BOUNDARY_VALUES = [9, 10, 19, 20, 29, 30, 49, 50, 89, 90, 99, 100, 101, 109, 110, 199, 200, 999, 1000]


# spellings of an optional argument that is *present*: ordinary text, empty, blank, math, a command, punctuation.
# (An empty `[]` is still a given argument: \item[] has a label - the empty one - and does not count.)
OPT_TEXTS = ['lbl', 'lbl', 'short text', '', '', ' ', '$\\ast$', '\\textbf{x}', '--', '1.', '(a)']


def opt_arg(rng):
    return '[%s]' % rng.choice(OPT_TEXTS)


class DocGen:
    """builds LaTeX source and the event list side by side"""

    def __init__(self, rng, cls, snd, malformed):
        self.rng, self.cls, self.snd, self.malformed = rng, cls, snd, malformed
        self.src, self.ev = [], []
        self.marks = []           # (len(src), len(ev)) at the start of every top-level block of the body
        self.thms = []            # (env, counter or '' )
        self.user = []            # user counters
        self.appendix = False
        self.chapter_positive = False     # an unstarred \chapter has been seen and the counter was not set back to 0
        self.chapter_renewed = False
        self.depth = 0
        self.secs = (['chapter'] if cls == 'book' else []) + ['section', 'subsection', 'subsubsection', 'paragraph']
        self.unit = 'chapter' if cls == 'book' else 'section'

    def printed_units(self):
        return [s for s in self.secs if LEVELS[s] <= self.snd]

    def preamble(self):
        rng = self.rng
        units = self.printed_units()
        if rng.random() < 0.8:
            self.src.append('\\newtheorem{thma}{Theorem}')
            self.ev.append('NT:thma:-:-:0'); self.thms.append(('thma', 'thma'))
        if rng.random() < 0.7 and units:
            w = rng.choice(units)
            self.src.append('\\newtheorem{thmb}{Lemma}[%s]' % w)
            self.ev.append('NT:thmb:-:%s:0' % w); self.thms.append(('thmb', 'thmb'))
        if self.thms and rng.random() < 0.7:
            sh = rng.choice(self.thms)[0]
            self.src.append('\\newtheorem{thmc}[%s]{Corollary}' % sh)
            self.ev.append('NT:thmc:%s:-:0' % sh); self.thms.append(('thmc', sh))
        if rng.random() < 0.3:
            self.src.append('\\newtheorem*{thmd}{Remark}')
            self.ev.append('NT:thmd:-:-:1'); self.thms.append(('thmd', ''))
        if self.thms and self.thms[0][0] == 'thma' and rng.random() < 0.3:
            self.src.append('\\newtheorem{thme}{Claim}[thma]')
            self.ev.append('NT:thme:-:thma:0'); self.thms.append(('thme', 'thme'))
        if rng.random() < 0.25:
            # LaTeX builds counter names with \csname: any characters are legal, e.g. a hyphen
            w = rng.choice(units + [None])
            self.src.append('\\newtheorem{thm-x}{Proposition}%s' % ('[%s]' % w if w else ''))
            self.ev.append('NT:thm-x:-:%s:0' % (w or '-')); self.thms.append(('thm-x', 'thm-x'))
        if rng.random() < 0.6:
            self.src.append('\\newcounter{ua}')
            self.ev.append('N:ua:-'); self.user.append('ua')
            if rng.random() < 0.7:
                w = rng.choice(units + ['ua', 'equation'])
                self.src.append('\\newcounter{ub}[%s]' % w)
                self.ev.append('N:ub:%s' % w); self.user.append('ub')
                if rng.random() < 0.5:
                    self.src.append('\\newcounter{uc}[ub]')
                    self.ev.append('N:uc:ub'); self.user.append('uc')
            if rng.random() < 0.2:
                self.src.append('\\newcounter{u-d}[ua]')
                self.ev.append('N:u-d:ua'); self.user.append('u-d')

    def text(self):
        return self.rng.choice(['alpha', 'beta gamma', 'x', 'some text', 'word'])

    # ---- entry points a user calls directly: \arabic{c} ..., \thec, \value{c}, \renewcommand{\thec}{...}

    def readable(self):
        """counters whose value LaTeX and plasTeX agree on (not the sectioning levels below the numbering depth)"""
        return (list(self.user) + ['equation', 'figure', 'table'] + sorted({c for _, c in self.thms if c}) +
                self.printed_units())

    def show(self, fmt, c):
        self.src.append('\\emph{\\%s{%s}}' % (fmt, c)); self.ev.append('SH:%s:%s' % (fmt, c))

    def show_any(self):
        rng = self.rng
        c = rng.choice(self.readable())
        if rng.random() < 0.5:
            self.show('arabic', c)
        elif not (self.appendix and c == self.unit) and c.isalpha():
            self.src.append('\\emph{\\the%s}' % c); self.ev.append('ST:%s' % c)
        else:
            self.show('arabic', c)

    def show_positive(self, c):
        """right after an object of counter c was numbered: its value is at least 1"""
        if self.rng.random() < 0.12 and c in self.readable():
            self.show(self.rng.choice(['Roman', 'roman', 'arabic']), c)

    def value_op(self):
        rng = self.rng
        pool = list(self.user) * 2 + ['equation', 'figure', 'table'] + [c for _, c in self.thms if c]
        pool += [s for s in self.secs if not (self.appendix and s == self.unit)]
        pool = [c for c in pool if c != 'chapter'] or ['equation']
        n, m = rng.choice(pool), rng.choice(self.readable())
        if rng.random() < 0.6:
            self.src.append('\\setcounter{%s}{\\value{%s}}' % (n, m)); self.ev.append('TV:%s:%s' % (n, m))
        else:
            self.src.append('\\addtocounter{%s}{\\value{%s}}' % (n, m)); self.ev.append('AV:%s:%s' % (n, m))

    def renew(self):
        """\\renewcommand{\\thec}{...} at the top level of the body"""
        rng = self.rng
        units = self.printed_units()
        cands = [u for u in units[:3]] + ['equation', 'figure', 'table'] + sorted({c for _, c in self.thms if c and c.isalpha()})
        c = rng.choice(cands)
        if self.appendix and c == self.unit:
            return self.show_any()
        if c == 'chapter' and not self.chapter_positive:
            # known finding `roman-chapter-zero-float`: with a non-arabic \thechapter and chapter = 0 the textual
            # trimLeft cannot drop the prefix; the generators reach that class only through the witness
            return self.show_any()
        if c == 'chapter':
            self.chapter_renewed = True
        # a parent macro strictly above c (never creates a cycle: units only refer upwards)
        parents = []
        if c != 'chapter':
            if self.cls == 'book' and 'chapter' in units:
                parents.append('thechapter')
            if c not in ('chapter', 'section') and 'section' in units:
                parents.append('thesection')
        fmt = rng.choice(['arabic', 'arabic', 'Roman', 'roman'])
        shape = rng.randrange(4)
        if shape == 0 or not parents:
            body = [('K', fmt, c)] if shape != 3 else [('L', '('), ('K', fmt, c), ('L', ')')]
        elif shape == 1:
            body = [('M', rng.choice(parents)), ('L', rng.choice(['.', '-', '.'])), ('K', fmt, c)]
        elif shape == 2:
            body = [('K', 'arabic', c), ('L', '/'), ('M', rng.choice(parents))]
        else:
            body = [('L', 'S'), ('M', rng.choice(parents)), ('L', '.'), ('K', 'arabic', c)]
        tex = ''.join(b[1] if b[0] == 'L' else '\\%s{%s}' % (b[1], b[2]) if b[0] == 'K' else '\\%s ' % b[1] for b in body)
        words = ';'.join(lit_word(b[1]) if b[0] == 'L' else 'K,%s,%s' % (b[1], b[2]) if b[0] == 'K' else 'M,%s' % b[1]
                         for b in body)
        self.src.append('\\renewcommand{\\the%s}{%s}' % (c, tex.rstrip()))
        self.ev.append('RT:%s:%s' % (c, words))

    def counter_op(self):
        rng = self.rng
        pool = list(self.user) * 2 + ['equation', 'figure', 'table'] + [c for _, c in self.thms if c and not c.startswith('thmc')]
        pool += [s for s in self.secs if not (self.appendix and s == self.unit)]
        if self.malformed and rng.random() < 0.3:
            pool = ['nosuch']
        if self.chapter_renewed:
            pool = [c for c in pool if c != 'chapter'] or ['equation']     # keep the chapter number positive (see renew)
        c = rng.choice(pool)
        r = rng.random()
        if c == 'chapter' and r < 0.4:
            self.chapter_positive = False          # may be set to 0
        if r < 0.4:
            # small values, and values around / on the digit boundaries (9, 10, 19, 20, 99, 100 ...): the printed
            # numbers then contain zeros and several digits ("10.1", "100.20")
            v = rng.randint(0, 12) if rng.random() < 0.6 else rng.choice(BOUNDARY_VALUES)
            self.src.append('\\setcounter{%s}{%d}' % (c, v)); self.ev.append('T:%s:%d' % (c, v))
            if c in self.readable() and rng.random() < 0.25:
                fmts = ['arabic'] + (['Roman', 'roman'] if v >= 1 else []) + (['alph', 'Alph'] * 2 if 1 <= v <= 26 else [])
                self.show(rng.choice(fmts), c)
        elif r < 0.65:
            v = rng.randint(0, 3) if rng.random() < 0.8 else rng.choice([7, 8, 9, 10, 90, 100])
            self.src.append('\\addtocounter{%s}{%d}' % (c, v)); self.ev.append('A:%s:%d' % (c, v))
        else:
            self.src.append('\\%s{%s}' % (rng.choice(['stepcounter', 'refstepcounter']), c)); self.ev.append('S:%s' % c)

    def equation(self):
        self.src.append('\\begin{equation}a=b\\end{equation}')
        self.ev.append('C:equation:equation:0:%d' % ENV_LEVEL)
        if self.rng.random() < 0.1:
            self.src.append('\\addtocounter{equation}{-1}'); self.ev.append('A:equation:-1')
        else:
            self.show_positive('equation')

    def eqnarray(self):
        rng = self.rng
        rows = rng.randint(1, 4)
        s = ['\\begin{eqnarray}']
        self.ev.append('QB')
        for i in range(rows):
            s.append('a_%d &=& b' % i)
            if rng.random() < 0.3:
                s.append(rng.choice(['\\nonumber', '\\nonumber ', '\\notag ']))
                self.ev.append('NN')
            if i < rows - 1:
                # \\* (no page break here) and \\[2pt] (extra space) end a row like \\ does
                s.append(rng.choice(['\\\\ ', '\\\\ ', '\\\\ ', '\\\\* ', '\\\\[2pt] ']))
                self.ev.append('QR')
        s.append('\\end{eqnarray}')
        self.src.append(''.join(s))

    def eqnarray_star(self):
        """the unnumbered relative: rows print no number and do not step the counter (LaTeX: eqnarray*)"""
        rng = self.rng
        rows = rng.randint(1, 3)
        s = ['\\begin{eqnarray*}']
        for i in range(rows):
            s.append('a_%d &=& b' % i)
            self.ev.append('C:srow:equation:1:%d' % CMD_LEVEL)
            if i < rows - 1:
                s.append(rng.choice(['\\\\ ', '\\\\ ', '\\\\* ', '\\\\[2pt] ']))
        s.append('\\end{eqnarray*}')
        self.src.append(''.join(s))

    def display(self):
        """an equation-like display: numbered, unnumbered array, or plain unnumbered display math"""
        r = self.rng.random()
        if r < 0.55: self.eqnarray()
        elif r < 0.9: self.eqnarray_star()
        else: self.src.append(self.rng.choice(['\\[a=b\\]', '\\begin{displaymath}a=b\\end{displaymath}']))

    def float_(self):
        rng = self.rng
        kind = rng.choice(['figure', 'table'])
        env = kind + ('*' if rng.random() < 0.2 else '')      # figure* / table*: same counter
        self.src.append('\\begin{%s}' % env)
        if kind == 'table' and rng.random() < 0.25:
            self.src.append('\\begin{tabular}{ll}a&b\\\\ c&d\\end{tabular}')
        for _ in range(2 if rng.random() < 0.1 else 1):       # sometimes two captions in one float
            if rng.random() < 0.9:
                self.src.append('\\caption%s{%s}' % (opt_arg(rng) if rng.random() < 0.2 else '', self.text()))
                self.ev.append('C:caption:%s:0:%d' % (kind, CMD_LEVEL))
                self.show_positive(kind)
        self.src.append('\\end{%s}' % env)

    def theorem(self, allow_list=True):
        rng = self.rng
        if not self.thms:
            return self.equation()
        env, c = rng.choice(self.thms)
        self.src.append('\\begin{%s}%s %s' % (env, opt_arg(rng) if rng.random() < 0.2 else '', self.text()))
        self.ev.append('H:%s' % env)
        r = rng.random()
        if r < 0.25: self.equation()
        elif r < 0.35: self.display()
        elif r < 0.5 and allow_list and self.depth < 3: self.list_()
        self.src.append('\\end{%s}' % env)

    def list_(self):
        rng = self.rng
        limit = 5 if self.malformed else 4
        kind = rng.choice(['enumerate', 'enumerate', 'enumerate', 'itemize', 'description'])
        self.depth += 1
        self.src.append('\\begin{%s}' % kind)
        self.ev.append('BL')
        for _ in range(rng.randint(1, 4)):
            term = (kind == 'description') or (kind == 'enumerate' and rng.random() < 0.15)
            self.src.append('\\item%s %s' % (opt_arg(rng) if term else '', self.text()))
            self.ev.append('I:%s:%d' % ('item' if kind == 'enumerate' else 'bullet', 1 if term else 0))
            r = rng.random()
            if r < 0.3 and self.depth < limit: self.list_()
            elif r < 0.4: self.equation()
            elif r < 0.45: self.theorem(allow_list=False)
            elif r < 0.5 and self.user:
                c = rng.choice(self.user)
                self.src.append('\\stepcounter{%s}' % c); self.ev.append('S:%s' % c)
            elif r < 0.56:
                self.counter_op()         # explicit manipulation of a non-list counter inside a list
            elif r < 0.6:
                self.show_any()
        self.src.append('\\end{%s}' % kind)
        self.ev.append('EL')
        self.depth -= 1

    def heading(self, name=None, star=None):
        rng = self.rng
        name = name or rng.choice(self.secs + (['part'] if rng.random() < 0.05 else []))
        if star is None:
            star = rng.random() < 0.15
        opt = opt_arg(rng) if rng.random() < 0.15 else ''
        self.src.append('\\%s%s%s{%s}' % (name, '*' if star else '', opt, self.text()))
        self.ev.append('C:%s:%s:%d:%d' % (name, name, 1 if star else 0, LEVELS[name]))
        if not star and name == 'chapter':
            self.chapter_positive = True
        if not star and name != 'part' and not (self.appendix and name == self.unit):
            self.show_positive(name)

    def long_body(self, n):
        rng = self.rng
        top = rng.choice([self.unit, self.unit, 'section'])
        for i in range(n):
            self.marks.append((len(self.src), len(self.ev)))
            self.heading(top, star=False)
            for _ in range(rng.randint(1, 2)):
                r = rng.random()
                if r < 0.45: self.float_()
                elif r < 0.7: self.equation()
                elif r < 0.85: self.theorem(allow_list=False)
                else: self.heading('subsection' if top != 'subsection' else 'subsubsection', star=False)

    def body(self, n):
        rng = self.rng
        app_at = rng.randrange(n) if rng.random() < 0.35 and n > 3 else -1
        for i in range(n):
            self.marks.append((len(self.src), len(self.ev)))
            if i == app_at and not self.appendix:
                self.appendix = True
                self.src.append('\\appendix')
                self.ev.append('AP:%s' % self.unit)
                self.heading(self.unit, star=False)
                continue
            r = rng.random()
            if r < 0.30: self.heading()
            elif r < 0.42: self.equation()
            elif r < 0.50: self.display()
            elif r < 0.60: self.float_()
            elif r < 0.74: self.theorem()
            elif r < 0.84: self.list_()
            elif r < 0.92: self.counter_op()
            elif r < 0.95: self.show_any()
            elif r < 0.975: self.value_op()
            else: self.renew()
            if rng.random() < 0.3:
                self.src.append(self.text() + '\n\n')


def doc_blocks(g, n_pre_ev):
    """the top-level blocks of the body as [source, event words] pairs (for shrinking)"""
    marks = g.marks + [(len(g.src), len(g.ev))]
    return [[''.join(g.src[a:c]), g.ev[b:d]] for (a, b), (c, d) in zip(marks, marks[1:])]


def doc_case_parts(cls, snd, pre, pre_ev, blocks, malformed, cfg=None, extra=None):
    # `Document.invoke` also runs for \end{document}: the configured initial values are applied a second time there
    post_ev = ['IC:%s:%d' % (c, v) for c, v in (cfg or {}).items()]
    line = '%s %d %s' % (cls, snd, ' '.join(pre_ev + [w for _, evs in blocks for w in evs] + post_ev))
    meta = {'kind': 'doc', 'cls': cls, 'snd': snd, 'pre': pre, 'pre_ev': pre_ev, 'blocks': blocks,
            'body': ''.join(src for src, _ in blocks), 'malformed': malformed, 'cfg': cfg or {}}
    meta.update(extra or {})
    return line, meta


def gen_doc(rng, tier):
    cls = rng.choice(['article', 'book'])
    snd = rng.choice([2, 2, 2, 1, 3, 0])
    malformed = rng.random() < 0.15
    g = DocGen(rng, cls, snd, malformed)
    g.preamble()
    pre, pre_ev = ''.join(g.src), list(g.ev)
    g.src, g.ev = [], []
    cfg = {}
    if rng.random() < 0.1:
        # the `--counter NAME VALUE` option: initial counter values, applied by \begin{document}
        for c in rng.sample(g.printed_units()[:2] + ['equation', 'figure'], rng.randint(1, 2)):
            cfg[c] = rng.choice([1, 2, 3, 5, 10, 11, 100])
            pre_ev.append('IC:%s:%d' % (c, cfg[c]))
    if rng.random() < 0.08:
        # a long document: the counters grow past 10, 20 ... by stepping alone (numbers with several digits and zeros)
        g.long_body(rng.randint(10, 24))
    else:
        g.body(rng.randint(2, 9 if tier == 'quick' else 16))
    line, meta = doc_case_parts(cls, snd, pre, pre_ev, doc_blocks(g, len(pre_ev)), malformed, cfg)
    return line, meta


def num_cases(tier):
    lo, hi = (1, 4999) if tier == 'quick' else (-100, 5100)
    for v in range(lo, hi + 1):
        yield Case('num', 'Roman %d' % v, {'kind': 'num'})
        yield Case('num', 'roman %d' % v, {'kind': 'num'})
    for v in range(-60, 61):
        for f in ('Alph', 'alph', 'arabic', 'fnsymbol'):
            yield Case('num', '%s %d' % (f, v), {'kind': 'num'})
    for v in (0, -1, -999, -1000, -1001, 5000, 12345):
        yield Case('num', 'Roman %d' % v, {'kind': 'num'})
    yield Case('num', 'nosuch 3', {'kind': 'num'})


def generate(ctx):
    rng = ctx.rng
    yield from num_cases(ctx.tier)
    n = 1500 if ctx.tier == 'quick' else 30000
    # documents first: when something breaks, the reported witness is a document if there is one
    for _ in range(700 if ctx.tier == 'quick' else 12000):
        line, meta = gen_doc(rng, ctx.tier)
        if rng.random() < 0.06:
            # a second document in the same process: another document is parsed first, the observation is that of
            # this one (counters, \the... classes and list depth must not leak from one document into the next)
            _, w = gen_doc(rng, 'quick')
            meta['warmup'] = {'cls': w['cls'], 'snd': w['snd'], 'pre': w['pre'], 'body': w['body'], 'cfg': w['cfg']}
        yield Case('doc8', line, meta)
    # histories in a *fresh interpreter*: plasTeX caches per class and per process (Macro.locals, @arguments, class
    # attributes ...), so which construct is used first in a process matters.  Each group is a short sequence of
    # documents parsed one after the other by a new Python process; every document of it is a doc8 case.
    for g in range(40 if ctx.tier == 'quick' else 400):
        docs = [gen_doc(rng, 'quick') for _ in range(rng.randint(2, 4))]
        gid = 'g%d-%d' % (ctx.seed, g)
        _GROUPS[gid] = [slim_meta(m) for _, m in docs]
        for i, (line, meta) in enumerate(docs):
            meta.update({'fresh': True, 'group': gid, 'history': _GROUPS[gid][:i]})
            yield Case('doc8', line, meta)
    for _ in range(n):
        yield Case('ctr', gen_ctr(rng), {'kind': 'ctr'})
    for _ in range(n // 2):
        line, meta = gen_fmt(rng)
        yield Case('fmt', line, meta)


_GROUPS = {}          # group id -> slim metas of its documents, in order (filled by generate)
_FRESH_CACHE = {}     # json of [history..., document] -> observation of the last one


def slim_meta(m):
    return {'kind': 'doc', 'cls': m['cls'], 'snd': m['snd'], 'pre': m['pre'], 'body': m['body'], 'cfg': m.get('cfg') or {}}


def _doc_case(cls, snd, pre, body, events):
    return Case('doc8', '%s %d %s' % (cls, snd, events),
                {'kind': 'doc', 'cls': cls, 'snd': snd, 'pre': pre, 'body': body, 'malformed': False}, 'corpus')


def _fresh(case, history=()):
    case.meta.update({'fresh': True, 'history': [slim_meta(h.meta) for h in history]})
    return case


def corpus():
    return [
        # in a fresh interpreter: the unnumbered relative first, then the numbered environment (per-class caches)
        _fresh(_doc_case('article', 2, '', '\\begin{eqnarray*}a&=&b\\\\ c&=&d\\end{eqnarray*}\\begin{eqnarray}a&=&b\\\\ c&=&d\\nonumber\\\\ e&=&f\\end{eqnarray}'
                         '\\begin{equation}g=h\\end{equation}',
                         'C:srow:equation:1:1001 C:srow:equation:1:1001 QB QR NN QR C:equation:equation:0:201')),
        _fresh(_doc_case('book', 2, '', '\\chapter{A}\\begin{figure}\\caption{x}\\end{figure}\\begin{eqnarray}a&=&b\\\\ c&=&d\\end{eqnarray}',
                         'C:chapter:chapter:0:0 C:caption:figure:0:1001 QB QR'),
               history=[_doc_case('article', 2, '', '\\section*{S}\\begin{figure*}\\caption{y}\\end{figure*}\\begin{eqnarray*}a&=&b\\end{eqnarray*}', '')]),
        # \newcounter{foo}[section]: the optional argument must be read as a string for the reset to happen
        _doc_case('article', 2, '\\newcounter{ub}[section]', '\\section{A}\\stepcounter{ub}\\stepcounter{ub}\\section{B}\\stepcounter{ub}',
                  'N:ub:section C:section:section:0:1 S:ub S:ub C:section:section:0:1 S:ub'),
        # \setcounter does not reset the counters within
        _doc_case('article', 2, '', '\\section{A}\\subsection{B}\\setcounter{section}{5}\\subsection{C}',
                  'C:section:section:0:1 C:subsection:subsection:0:2 T:section:5 C:subsection:subsection:0:2'),
        _doc_case('article', 2, '', '\\section{A}\\subsection{B}\\addtocounter{section}{1}\\subsection{C}',
                  'C:section:section:0:1 C:subsection:subsection:0:2 A:section:1 C:subsection:subsection:0:2'),
        # \item[label] does not count
        _doc_case('article', 2, '', '\\begin{enumerate}\\item a \\item[x] b \\item c\\end{enumerate}',
                  'BL I:item:0 I:item:1 I:item:0 EL'),
        # trimLeft strips a leading "0." only: chapter 10 gives figure 10.1, chapter 100 table 100.1
        _doc_case('book', 2, '', '\\setcounter{chapter}{9}\\chapter{X}\\begin{figure}\\caption{a}\\end{figure}'
                  '\\setcounter{chapter}{99}\\chapter{Y}\\begin{table}\\caption{b}\\end{table}',
                  'T:chapter:9 C:chapter:chapter:0:0 C:caption:figure:0:1001 T:chapter:99 C:chapter:chapter:0:0 C:caption:table:0:1001'),
        # book: an equation before the first chapter has no "0." prefix
        _doc_case('book', 2, '', '\\begin{equation}a=b\\end{equation}\\chapter{A}\\begin{equation}a=b\\end{equation}',
                  'C:equation:equation:0:201 C:chapter:chapter:0:0 C:equation:equation:0:201'),
        # \appendix redefines \thesection globally, also after a \renewcommand{\thesection} inside the document environment
        _doc_case('article', 2, '', '\\section{A}\\renewcommand{\\thesection}{\\Roman{section}}\\section{B}\\appendix\\section{C}',
                  'C:section:section:0:1 RT:section:K,Roman,section C:section:section:0:1 AP:section C:section:section:0:1'),
        _doc_case('book', 2, '', '\\chapter{A}\\renewcommand{\\thechapter}{\\Roman{chapter}}\\chapter{B}\\appendix\\chapter{C}\\section{D}',
                  'C:chapter:chapter:0:0 RT:chapter:K,Roman,chapter C:chapter:chapter:0:0 AP:chapter C:chapter:chapter:0:0 C:section:section:0:1'),
        # user entry points: \arabic ... in text, \value, the --counter option
        _doc_case('article', 2, '\\newcounter{ua}', '\\setcounter{ua}{4}\\section{A}\\setcounter{section}{\\value{ua}}\\section{B}'
                  '\\emph{\\Roman{section}}\\emph{\\alph{ua}}\\emph{\\thesection}',
                  'N:ua:- T:ua:4 C:section:section:0:1 TV:section:ua C:section:section:0:1 SH:Roman:section SH:alph:ua ST:section'),
        # \\* ends an eqnarray row like \\: the next row is numbered
        _doc_case('article', 2, '', '\\begin{eqnarray}a&=&b\\\\* c&=&d\\\\[2pt] e&=&f\\end{eqnarray}\\begin{equation}x\\end{equation}',
                  'QB QR QR C:equation:equation:0:201'),
        # counter names that are not plain words
        _doc_case('article', 2, '\\newtheorem{main-thm}{Theorem}[section]\\newcounter{u-d}',
                  '\\section{A}\\begin{main-thm}x\\end{main-thm}\\begin{main-thm}y\\end{main-thm}\\stepcounter{u-d}\\emph{\\arabic{u-d}}',
                  'NT:main-thm:-:section:0 N:u-d:- C:section:section:0:1 H:main-thm H:main-thm S:u-d SH:arabic:u-d'),
        # an empty optional argument is still an argument: \item[] has a label and does not count
        _doc_case('article', 2, '', '\\begin{enumerate}\\item a\\item[] b\\item c\\begin{enumerate}\\item x\\item[ ] y\\item[$\\ast$] z\\item w\\end{enumerate}\\item d\\end{enumerate}',
                  'BL I:item:0 I:item:1 I:item:0 BL I:item:0 I:item:1 I:item:1 I:item:0 EL I:item:0 EL'),
        # \part is numbered in Roman
        _doc_case('book', 2, '', '\\part{P}\\chapter{A}\\part{Q}\\chapter{B}',
                  'C:part:part:0:-1 C:chapter:chapter:0:0 C:part:part:0:-1 C:chapter:chapter:0:0'),
        Case('ctr', 'N:ca:- N:cb:ca N:cc:cb S:cb S:cc S:cc T:ca:4 S:cc A:cb:2 S:ca', {'kind': 'ctr'}, 'corpus'),
        Case('ctr', 'N:ca:cb N:cb:ca S:ca', {'kind': 'ctr'}, 'corpus'),
        Case('num', 'Roman 3999', {'kind': 'num'}, 'corpus'),
        Case('num', 'Alph 27', {'kind': 'num'}, 'corpus'),
    ]


def nontrivial(o):
    if not o.spec.startswith('ok:'):
        return False
    st = o.case.stream
    if st == 'num':
        return True
    if st == 'ctr':
        ws = o.case.line.split()
        return any(w.startswith('N:') and not w.endswith(':-') for w in ws) and any(w.startswith('S:') for w in ws)
    if st == 'doc8':
        return len([x for x in o.spec[3:].split('#')[0].split(';') if x and not x.endswith('=-')]) >= 3
    return False


# ---------------------------------------------------------------- implementation side

_env = {}


def canon_exc(e):
    n = type(e).__name__
    return 'err:' + n if n in ('KeyError', 'IndexError', 'RecursionError', 'AttributeError', 'TypeError', 'ValueError') else 'err:other:' + n


def fresh_doc():
    from plasTeX.TeX import TeX
    from plasTeX import TeXDocument
    from plasTeX.Base.LaTeX.Lists import List
    List.depth = 0            # older trees kept the depth on the class (now per document in userdata); harmless reset
    doc = TeXDocument()
    return doc, TeX(doc)


def impl_num(line):
    import plasTeX
    fmt, v = line.split()
    if 'numdoc' not in _env:
        _env['numdoc'] = fresh_doc()
    doc, tex = _env['numdoc']
    c = plasTeX.Counter(doc.context, 'x', None, int(v))
    try:
        r = getattr(c, fmt)
    except Exception as e:
        return canon_exc(e)
    if not isinstance(r, str):
        return 'err:AttributeError'      # not a representation (the regex callback would raise on a non-string)
    return 'ok:' + r


def impl_ctr(line):
    doc, tex = fresh_doc()
    ctx = doc.context
    for k in list(ctx.counters.keys()):
        del ctx.counters[k]
    try:
        for w in line.split():
            p = w.split(':')
            if p[0] == 'N': ctx.newcounter(p[1], None if p[2] == '-' else p[2])
            elif p[0] == 'S': ctx.counters[p[1]].stepcounter()
            elif p[0] == 'T': ctx.counters[p[1]].setcounter(int(p[2]))
            elif p[0] == 'A': ctx.counters[p[1]].addtocounter(int(p[2]))
            else: raise SystemError('bad ctr word ' + w)
    except SystemError:
        raise
    except Exception as e:
        return canon_exc(e)
    return 'ok:' + ','.join('%s=%d' % (k, c.value) for k, c in ctx.counters.items())


def impl_fmt(meta):
    import plasTeX
    doc, tex = fresh_doc()
    ctx = doc.context
    for n, v in meta['vals'].items():
        ctx.newcounter(n, initial=v)
    for m, (f, tl) in meta['macros'].items():
        ctx.addGlobal(m, type(m, (plasTeX.TheCounter,), {'format': f, 'trimLeft': tl}))
    try:
        toks = doc.createElement(meta['target']).invoke(tex)
        return 'ok:' + ''.join(str(t) for t in toks)
    except Exception as e:
        return canon_exc(e)


SECTION_TAGS = set(LEVELS)


def observe(doc):
    out = []

    def walk(n, in_eqn, in_enum):
        for c in n.childNodes:
            nm = getattr(c, 'nodeName', None)
            tag = None
            if nm in SECTION_TAGS or nm in ('equation', 'caption', 'thmenv'):
                tag = nm
            elif nm == 'item' and in_enum:
                tag = 'item'
            elif nm == 'ArrayRow' and in_eqn:
                tag = in_eqn              # 'row' in eqnarray, 'srow' in eqnarray*
            elif nm == 'emph':
                out.append('show=%s' % c.textContent)
            if tag:
                r = getattr(c, 'ref', None)
                out.append('%s=%s' % (tag, '-' if r is None else r.textContent))
            ie = 'row' if nm == 'eqnarray' else 'srow' if nm == 'eqnarray*' else in_eqn
            if nm in ('enumerate', 'itemize', 'description'):
                ien = (nm == 'enumerate')
            else:
                ien = in_enum
            if hasattr(c, 'childNodes'):
                walk(c, None if nm == 'equation' else ie, ien)

    walk(doc, None, False)
    return out


def build_tex(meta):
    return '\\documentclass{%s}%s\\begin{document}%s\\end{document}' % (meta['cls'], meta['pre'], meta['body'])


FRESH_RUNNER = ('import sys, json\n'
                'import framework, props.c08 as P\n'
                'docs = json.load(sys.stdin)\n'
                'print(json.dumps([P.impl_doc(d) for d in docs]))\n')


def run_fresh(docs):
    """parse the documents one after the other in a new Python process; returns their observations"""
    import json, os, subprocess, sys
    env = dict(os.environ)
    here = os.path.dirname(os.path.dirname(os.path.abspath(__file__)))
    env['PYTHONPATH'] = here + os.pathsep + env.get('PYTHONPATH', '')
    p = subprocess.run([sys.executable, '-c', FRESH_RUNNER], input=json.dumps(docs), capture_output=True, text=True,
                       env=env, timeout=120)
    if p.returncode != 0:
        raise SystemError('fresh interpreter failed: ' + p.stderr[-500:])
    return json.loads(p.stdout.strip().split('\n')[-1])


def impl_fresh(meta):
    import json
    chain = list(meta.get('history') or []) + [slim_meta(meta)]
    key = json.dumps(chain, sort_keys=True)
    if key not in _FRESH_CACHE:
        full = _GROUPS.get(meta.get('group'))
        if full and full[:len(chain)] == chain:
            chain = full                       # one process for the whole group
        outs = run_fresh(chain)
        for i in range(len(chain)):
            _FRESH_CACHE[json.dumps(chain[:i + 1], sort_keys=True)] = outs[i]
    return _FRESH_CACHE[key]


def impl_doc(meta):
    if meta.get('fresh'):
        return impl_fresh(meta)
    if meta.get('warmup'):
        impl_doc(dict(meta['warmup']))
    doc, tex = fresh_doc()
    doc.config['document']['sec-num-depth'] = meta['snd']
    for k, v in (meta.get('cfg') or {}).items():
        doc.config['counters']['counters'][k] = v
    tex.input(build_tex(meta))
    try:
        tex.parse()
    except Exception as e:
        return canon_exc(e)
    finally:
        from plasTeX.Base.LaTeX.Lists import List
        List.depth = 0
    vals = ','.join(sorted('%s=%d' % (k, c.value) for k, c in doc.context.counters.items()))
    return 'ok:' + ';'.join(observe(doc)) + '#' + vals


def impl(case, aux):
    k = case.meta['kind']
    if k == 'num': return impl_num(case.line)
    if k == 'ctr': return impl_ctr(case.line)
    if k == 'fmt': return impl_fmt(case.meta)
    if k == 'doc': return impl_doc(case.meta)
    raise ValueError(k)


def judge(o):
    o.corr_ok = (o.impl == o.model)
    if o.spec == '-':
        o.prop_ok = True
    elif o.case.stream == 'doc8':
        # the LaTeX oracle prescribes the printed numbers (not the internal value of counters that never print)
        # and the final value of every counter the document itself declared
        o.prop_ok = False
        if o.impl.startswith('ok:'):
            refs, vals = o.impl.split('#')
            srefs, svals = o.spec.split('#')
            have = set(vals.split(','))
            o.prop_ok = (refs == srefs and all(v in have for v in svals.split(',') if v))
        # a document inside the LaTeX oracle's domain must satisfy the decidable hypotheses of the list theorems
        # (listSafe events, well-nested lists, ListInv of the class table); otherwise the generator left their domain
        if o.aux and o.aux[0] != 'L:true:true:true':
            o.corr_ok = False
            o.note = 'hypotheses of enumerate_counts_from_one do not hold on this input: ' + o.aux[0]
    else:
        o.prop_ok = (o.impl == o.spec)


# ---------------------------------------------------------------- shrinking and search

def shrink(ctx, o, evaluate):
    """ctr: drop operations; doc8: drop top-level blocks of the body (source and events stay aligned)"""
    if o.case.stream == 'doc8' and o.case.meta.get('blocks'):
        return shrink_doc(o, evaluate)
    if o.case.stream != 'ctr':
        return o
    best = o
    improved = True
    while improved:
        improved = False
        ws = best.case.line.split()
        cands = [Case('ctr', ' '.join(ws[:i] + ws[i + 1:]), {'kind': 'ctr'}, 'shrink') for i in range(len(ws)) if len(ws) > 1]
        for r in evaluate(cands):
            if not r.prop_ok:
                best, improved = r, True
                break
    return best


def shrink_doc(o, evaluate):
    best = o
    fresh = bool(o.case.meta.get('fresh'))
    if fresh:
        # drop documents of the history while the failure stays
        for _ in range(6):
            m = best.case.meta
            hist = m.get('history') or []
            cands = []
            for i in range(len(hist)):
                meta = dict(m, history=hist[:i] + hist[i + 1:])
                meta.pop('group', None)
                cands.append(Case('doc8', best.case.line, meta, 'shrink'))
            nxt = next((r for r in evaluate(cands) if not r.prop_ok), None) if cands else None
            if nxt is None:
                break
            best = nxt
    for _ in range(8 if fresh else 60):
        m = best.case.meta
        blocks = m['blocks']
        if len(blocks) <= 1:
            break
        cands = []
        for i in range(len(blocks)):
            line, meta = doc_case_parts(m['cls'], m['snd'], m['pre'], m['pre_ev'], blocks[:i] + blocks[i + 1:], m['malformed'],
                                        m.get('cfg'), {'fresh': True, 'history': m.get('history') or []} if fresh else None)
            cands.append(Case('doc8', line, meta, 'shrink'))
        nxt = next((r for r in evaluate(cands) if not r.prop_ok), None)
        if nxt is None:
            break
        best = nxt
    return best


def search(ctx, evaluate, corr_bad):
    """proof / tie broken but no spec mismatch in the main batch: the disagreeing cases first, then a larger seeded batch,
    all judged against the Spec oracle"""
    rng = random.Random(ctx.seed * 7919 + 17)
    cases = [Case(o.case.stream, o.case.line, o.case.meta, 'search') for o in corr_bad[:200]]
    cases += list(num_cases('thorough'))
    for _ in range(6000):
        cases.append(Case('ctr', gen_ctr(rng), {'kind': 'ctr'}, 'search'))
    for _ in range(1500):
        line, meta = gen_doc(rng, 'thorough')
        cases.append(Case('doc8', line, meta, 'search'))
    bad = [o for o in evaluate(cases) if not o.prop_ok]
    if bad:
        bad.sort(key=lambda o: len(o.case.line))
        o = shrink(ctx, bad[0], evaluate)
        return Violation('implementation differs from the property oracle (found by search)',
                         {'kind': 'failing-input', 'outcome': o.to_json()})
    return None
