"""C02 - Macro definitions expand exactly as TeX's substitution rules say.

streams (component level: the real functions/classes are called in-process on real token objects)
  subst    : `plasTeX.expandDef(body, params)`            vs Model.substBody   vs Spec.texSubst
  match    : `Context.newdef` class + `Definition.invoke` vs Model.invokeDef   vs Spec.texCall (texMatch+texSubst, NF3)
  newcmd   : `Context.newcommand` class + `NewCommand.invoke` vs Model.invokeNewcommand vs Spec.texLatexCall
  defparse : `DefCommand.invoke` (name / parameter text / body as stored) vs Model.readDefParts vs Spec.texReadDef
document level
  prog     : generated programs of the macro language (NF-prog) as source text:
             `TeX().input(p).parse().textContent` without blanks vs Model.run vs Spec.texRun
"""
import logging, random as _random
from framework import Case, Violation

ID = 'C02'
LEAN_MODULE = 'PlasVerif.Properties.C02'
LEVEL_TEXT = ('Lean 4 theorems over a line-by-line model of expandDef, Definition.invoke, NewCommand.invoke, DefCommand.invoke, the Context definition calls and the expansion loop '
              '(TeX.__iter__ with push-back, \\csname, \\expandafter), against an independent TeX evaluator written from TeXbook ch. 20 (Spec/TeXMacro.lean: own matching, own tables, own grouping semantics). '
              'Proved for all inputs: substitution is TeX\'s (subst_is_tex); for EVERY parameter text (literal prefix, 0-9 parameters, undelimited or delimited by any token sequence) and every input on which '
              'TeX\'s matching is defined inside NF-prog 3, Definition.invoke collects TeX\'s arguments and leaves TeX\'s rest, including brace stripping of one-group arguments (match_undelimited_is_tex, '
              'match_delimited_is_tex), hence one macro call = one TeX call (call_step_refines); the same for \\newcommand macros with absent/present optional argument (newcommand_call_refines, optional_default, '
              'optional_present_is_tex); \\let keeps the meaning at \\let time under any later redefinitions (let_snapshot); \\csname builds the named control sequence and \\expandafter expands the second token '
              'exactly once, as TeX (csname_builds_name, expandafter_reorders); PROGRAM LEVEL: for every program of the fragment {\\def, \\gdef, calls, groups, \\let, \\relax} and every fuel, whenever the TeX '
              'evaluator prints v the model prints v (run_eq_texRun_fragment: simulation over frame stack vs saved tables, with fuel monotonicity of the mutual loop); '
              'extended to \\newcommand/\\renewcommand and \\csname (run_eq_texRun_noexpandafter_partial, both variants of D49) and to the WHOLE macro language with \\expandafter, started from the model\'s own initial frame '
              '(run_eq_texRun_language_partial, repaired variant; expansion_refines_partial = one step of TeX\'s expand incl. nested \\csname/\\expandafter; fragment_run_is_texProgram_partial). '
              'The fragment evaluator texRun fragOk is executed by the driver on every generated program and must agree with the full evaluator, the repaired model and the real interpreter. '
              'Known finding D49 (\\expandafter executes an unexpandable assignment) has a dual-variant model: theorem for the repaired variant, kernel-checked counterexample for the code as is. '
              'Outside the proved fragment (## in macros without parameter text, \\ifx in bodies, the code as is with \\expandafter) programs are tied by the document-level correspondence stream (real interpreter vs model vs TeX evaluator on generated NF-prog programs).')
LEVEL_NOTE = ('Trusted: Lean kernel (axioms propext, Classical.choice, Quot.sound only), the correspondence harness and its program generator, the C01 tokenizer model used to tokenize programs for the Lean side, CPython. '
              'Not covered: \\edef/\\xdef as true expansion, \\long/\\global prefixes, #{ patterns (the code handles them differently from TeX; outside the stated quantifier), character \\let; \\ifx only inside NF-prog 4 (two characters, or two macros without parameters and with plain-text bodies): its comparison (ifx_compare_is_tex_partial), its branch selection (branch_selection_is_tex_partial) and the whole step (ifx_step_refines_partial) are proved and part of the program-level theorem run_eq_texRun_language_partial; only macro bodies that contain the token \\ifx are tied by the prog stream alone; '
              'run_eq_texRun_statement (filter namesOk instead of fragOk) is stated, not proved: missing are ## in parameterless macros and \\ifx tokens in replacement texts.')
TECHNIQUE = 'Lean 4 proofs (induction over replacement text / parameter text / token stream; simulation with fuel monotonicity) + independent executable TeX semantics + differential correspondence at component and document level'
TRUSTED = ['Spec/TeXMacro.lean is the independent evaluation (written from TeXbook ch. 20; no TeX engine is installed)',
           'program-level equality is proved for the whole macro language under the filter fragOk (repaired variant of D49); programs outside fragOk are tied by the prog stream']
ASSUMPTIONS = ['NF-prog of DESIGN.md section 5 (no recursion, no delimiter token inside a delimited argument, no $ in arguments, \\newcommand only on fresh names, parameter character #)',
               'macro names of generated programs are not predefined by plasTeX (checked at start)']
RULE = ('seeded generation from the grammar of the quantifier: parameter texts with 0-9 parameters (delimited by 1-2 tokens / undelimited, literal prefix), calls with single-token, braced, '
        'one-group and empty arguments, \\newcommand with and without optional argument, nested calls in bodies and arguments, \\let, \\csname, \\expandafter, groups to depth 5, ~15% malformed; '
        'non-trivial = the Spec oracle is defined on the case (TeX evaluation succeeds inside NF-prog) and at least one macro call with a parameter is performed; distinct = distinct request line')
EXHAUSTIVE = {}
CASE_TIMEOUT = 4

logging.disable(logging.CRITICAL)
GENERATED = []

FUEL = 1500

# ---------------------------------------------------------------- token words

def codes(s):
    return ','.join(str(ord(c)) for c in s)


def cw(ch, cat=None):
    """word of a character token (category by default class)"""
    if cat is None:
        if ch == '{': cat = 1
        elif ch == '}': cat = 2
        elif ch == '$': cat = 3
        elif ch == '#': cat = 6
        elif ch == ' ': cat = 10
        elif ch.isalpha(): cat = 11
        else: cat = 12
    return 'c%d:%d' % (cat, ord(ch))


def csw(name):
    return 's' + codes(name)


def words_of(src):
    """tiny tokenizer for the generators' own snippets: \\name, single characters (blank after a control word dropped)"""
    out, i = [], 0
    while i < len(src):
        c = src[i]
        if c == '\\':
            j = i + 1
            while j < len(src) and src[j].isalpha():
                j += 1
            if j == i + 1:
                j += 1
                out.append(csw(src[i + 1:j]))
            else:
                out.append(csw(src[i + 1:j]))
                while j < len(src) and src[j] == ' ':
                    j += 1
            i = j
        else:
            out.append(cw(c)); i += 1
    return out


_env = {}


def _setup():
    if not _env:
        from plasTeX.TeX import TeX
        from plasTeX import TeXDocument
        import plasTeX
        from plasTeX import Tokenizer as T
        doc = TeXDocument()
        tex = TeX(doc)
        _env.update(doc=doc, TeX=TeX, T=T, plasTeX=plasTeX, TeXDocument=TeXDocument, pdoc=None, base=None, n=0)
        for n in NAMES + ALIASES + PLAINS + ['zqm', 'zqend', 'zqsep', 'zqp', 'zqn', 'zqt']:
            if n in doc.context.keys():
                raise RuntimeError('generator macro name %s is predefined by plasTeX' % n)
    return _env


def real_tok(w):
    T = _setup()['T']
    if w[0] == 'c':
        cat, c = w[1:].split(':')
        cat, c = int(cat), chr(int(c))
        if cat == 10:
            return T.Space(c)
        cls = T.Tokenizer.tokenClasses[cat]
        if cls is None:
            raise ValueError(w)
        return cls(c)
    if w[0] == 's':
        return T.EscapeSequence(''.join(chr(int(x)) for x in w[1:].split(',')) if len(w) > 1 else '')
    raise ValueError(w)


def real_toks(ws):
    return [real_tok(w) for w in ws]


def word_of(t):
    T = _setup()['T']
    if isinstance(t, T.EscapeSequence):
        return 's' + codes(str(t))
    if isinstance(t, T.Token):
        return 'c%d:%s' % (t.catcode, ord(str(t)) if len(str(t)) == 1 else codes(str(t)))
    return 'e' + codes(t.nodeName)


def wstr(ts):
    return ' '.join(word_of(t) for t in ts)


def canon_exc(e):
    n = type(e).__name__
    return 'err:' + n


def split_bar(ws):
    out, cur = [], []
    for w in ws:
        if w == '|':
            out.append(cur); cur = []
        else:
            cur.append(w)
    out.append(cur)
    return out


# ---------------------------------------------------------------- component generators

PLAIN = list('abxyz') + list('.,;:!/()=*+-') + ['1', '2', '7']
DELIMS = list('.,;:!/') + ['\\zqend', '\\zqsep', 'a', 'b']


def gen_plain_words(rng, n, forbid=()):
    out = []
    for _ in range(n):
        r = rng.random()
        if r < 0.12:
            out.append(cw(' '))
        elif r < 0.22:
            out.append(csw(rng.choice(['zqa', 'zqb', 'relax', 'zqend'])))
        else:
            c = rng.choice(PLAIN)
            if cw(c) in forbid:
                c = 'x'
            out.append(cw(c))
    return [w for w in out if w not in forbid]


def gen_balanced_words(rng, depth, forbid=()):
    out = []
    for _ in range(rng.randint(0, 3)):
        if depth > 0 and rng.random() < 0.3:
            out += [cw('{')] + gen_balanced_words(rng, depth - 1, forbid) + [cw('}')]
        else:
            out += gen_plain_words(rng, rng.randint(1, 2), forbid)
    return out


def gen_body_words(rng, nparams, malformed=False):
    out = []
    for _ in range(rng.randint(0, 8)):
        r = rng.random()
        if r < 0.4 and nparams > 0:
            out += [cw('#'), cw(str(rng.randint(1, nparams)))]
        elif r < 0.47:
            out += [cw('#'), cw('#')]
        elif r < 0.52:
            out += [cw('{')] + gen_body_words(rng, nparams)[:4] + [cw('}')]
        elif malformed and r < 0.62:
            out += rng.choice([[cw('#')], [cw('#'), cw('0')], [cw('#'), cw(str(min(9, nparams + 1)))], [cw('#'), cw('x')],
                               [csw('ifx'), cw('#'), cw('1')], [cw('#'), csw('zqa')], [cw('#'), cw('1', 11)]])
        else:
            out += gen_plain_words(rng, 1)
    if malformed and rng.random() < 0.3:
        out.append(cw('#'))
    return out


def gen_subst(rng):
    malformed = rng.random() < 0.2
    n = rng.choice([0, 1, 1, 2, 2, 3, 4, 9])
    body = gen_body_words(rng, n, malformed)
    params = []
    for _ in range(n):
        if malformed and rng.random() < 0.15:
            params.append(['N'])
        else:
            params.append(gen_balanced_words(rng, 2))
    if malformed and rng.random() < 0.3 and params:
        params.pop()
    return Case('subst', ' | '.join(' '.join(x) for x in [body] + params), None)


def gen_ptext(rng, maxp=9):
    """(prefix words, [delimiter words per parameter])"""
    pre = []
    if rng.random() < 0.25:
        pre = [cw(rng.choice('(.[')) for _ in range(rng.randint(1, 2))]
    n = rng.choice([0, 1, 1, 1, 2, 2, 3, 3, 4, 9]) if maxp >= 9 else rng.randint(0, maxp)
    ds = []
    for _ in range(n):
        if rng.random() < 0.5:
            ds.append([])
        else:
            d = [words_of(rng.choice(DELIMS))[0]]
            if rng.random() < 0.3:
                d.append(words_of(rng.choice(DELIMS))[0])
            ds.append(d)
    return pre, ds


def render_ptext(pre, ds):
    out = list(pre)
    for k, d in enumerate(ds):
        out += [cw('#'), cw(str(k + 1))] + d
    return out


def gen_call_words(rng, pre, ds, malformed=False):
    out = list(pre)
    for d in ds:
        if not d:
            if rng.random() < 0.3:
                out.append(cw(' '))
            r = rng.random()
            if r < 0.45:
                out.append(cw(rng.choice('abxyz.,1')))
            elif r < 0.55:
                out.append(csw(rng.choice(['zqa', 'relax'])))
            else:
                out += [cw('{')] + gen_balanced_words(rng, 2) + [cw('}')]
        else:
            forbid = (d[0],)
            r = rng.random()
            if r < 0.2:
                out += [cw('{')] + gen_balanced_words(rng, 2, forbid) + [cw('}')]        # exactly one group (D8)
            elif r < 0.3:
                pass                                                                      # empty argument
            elif r < 0.4:
                out += [cw('{')] + gen_balanced_words(rng, 1, forbid) + [cw('}')] + gen_plain_words(rng, 1, forbid)
            else:
                out += gen_balanced_words(rng, 2, forbid)
            if malformed and rng.random() < 0.3:
                out += [cw('{'), d[0], cw('}')]                                            # delimiter hidden in braces
            out += d
    out += gen_plain_words(rng, rng.randint(0, 3))
    if malformed:
        r = rng.random()
        if r < 0.4:
            out = out[:rng.randint(0, len(out))]
        elif r < 0.6:
            out = gen_plain_words(rng, rng.randint(0, 6)) + [cw('}')]
        elif r < 0.7:
            out.insert(rng.randint(0, len(out)), cw('$'))
    return out


def gen_match(rng):
    malformed = rng.random() < 0.15
    pre, ds = gen_ptext(rng)
    args = render_ptext(pre, ds)
    if malformed and rng.random() < 0.4:
        k = rng.randint(0, len(args))
        args = args[:k] + rng.choice([[cw('#')], [cw('#'), cw('#')], [cw('#'), cw('x')], [cw('#'), cw('2')]]) + args[k:]
        args = [w for w in args if w != cw('{')]
    body = gen_body_words(rng, len(ds), malformed and rng.random() < 0.3)
    s = gen_call_words(rng, pre, ds, malformed)
    return Case('match', ' | '.join(' '.join(x) for x in [args, body, s]), None)


def gen_newcmd(rng):
    malformed = rng.random() < 0.15
    nargs = rng.choice([0, 1, 1, 2, 2, 3, 5, 9])
    opt = None
    if nargs > 0 and rng.random() < 0.5 or malformed and rng.random() < 0.2:
        opt = gen_balanced_words(rng, 1)
    body = gen_body_words(rng, nargs, malformed and rng.random() < 0.3)
    s = []
    if opt is not None:
        r = rng.random()
        if r < 0.5:
            if rng.random() < 0.3:
                s.append(cw(' '))
            forbid = (cw('['), cw(']'))
            if rng.random() < 0.2:
                s += [cw('[')] + [cw('{')] + gen_balanced_words(rng, 1, forbid) + [cw('}')] + [cw(']')]
            else:
                s += [cw('[')] + gen_balanced_words(rng, 2, forbid) + [cw(']')]
    s += gen_call_words(rng, [], [[]] * max(0, nargs - (1 if opt is not None else 0)), malformed)
    if s and s[0] == cw('[') and False:
        pass
    return Case('newcmd', '%d %s | %s | %s' % (nargs, 'N' if opt is None else ' '.join(opt), ' '.join(body), ' '.join(s)), None)


def gen_defparse(rng):
    malformed = rng.random() < 0.15
    pre, ds = gen_ptext(rng)
    args = render_ptext(pre, ds)
    body = gen_body_words(rng, len(ds), malformed)
    if rng.random() < 0.15:
        # nested definition with doubled hashes in the parameter text (one level is stripped by DefCommand)
        args = [cw('#'), cw('#'), cw('1')] + ([cw('.'), cw('#'), cw('#'), cw('2')] if rng.random() < 0.3 else [])
        body = []
        for _ in range(rng.randint(1, 4)):
            body += rng.choice([[cw('#'), cw('#'), cw('1')], [cw('x')], [cw('#'), cw('1')], [cw('#'), cw('#'), cw('#'), cw('1')],
                                [cw('#'), cw('#'), cw('#'), cw('#'), cw('1')], [cw('{'), cw('#'), cw('#'), cw('1'), cw('}')]])
    s = [csw(rng.choice(['zqa', 'zqb']))] + args + [cw('{')] + body + [cw('}')] + gen_plain_words(rng, 2)
    if malformed:
        r = rng.random()
        if r < 0.4:
            s = s[:rng.randint(0, len(s))]
        elif r < 0.6:
            s = s[1:]
    return Case('defparse', ' '.join(s), None)


# ---------------------------------------------------------------- program generator (document level)

NAMES = ['zqa', 'zqb', 'zqc', 'zqd', 'zqe', 'zqf', 'zqg', 'zqh', 'zqi', 'zqj']
ALIASES = ['zqu', 'zqv', 'zqw']
PLAINS = ['zqx', 'zqy', 'zqz']          # parameterless macros with plain-text bodies: the operands of \ifx (NF-prog 4)
TEXT = 'abcxyzABC'
TEXTO = '()+*|'
# non-ASCII text: letters of other alphabets and a symbol.  For TeX (and for plasTeX's category table) none of them is a
# letter of category 11, so directly after a control word they END the name: \\zqa\u00e9 is \\zqa applied to \u00e9
NONASCII = '\u00e9\u00fc\u00df\u00f1\u20ac'


class Sig:
    """fixed calling convention of a name for the whole program"""
    def __init__(self, kind, pre, ds, nargs=0, opt=None, rank=0):
        self.kind, self.pre, self.ds, self.nargs, self.opt, self.rank = kind, pre, ds, nargs, opt, rank


class ProgGen:
    def __init__(self, rng, features):
        self.rng = rng
        self.f = features
        self.sigs = {}            # name -> Sig  (fixed once chosen)
        self.scopes = [set()]     # names defined, per open group
        self.budget = rng.randint(6, 40)
        self.counter = 0
        self.has_p = False
        self.inner = set()
        self.plain = [{}]         # plain-text macros visible per open group: name -> body
        self.base = ''.join(rng.choice('abxyz') for _ in range(rng.randint(2, 4)))     # the bodies are variations of one word
        self.has_t = False

    # -- helpers
    def defined(self):
        s = set()
        for x in self.scopes:
            s |= x
        return sorted(s)          # a list in a fixed order: every random choice must depend on the seed only, never on str hashing

    def word(self, forbid=''):
        rng = self.rng
        n = rng.randint(1, 3)
        pool = [c for c in TEXT + (TEXTO if rng.random() < 0.3 else '') + (NONASCII if rng.random() < 0.2 else '') if c not in forbid]
        return ''.join(rng.choice(pool) for _ in range(n))

    def new_sig(self, name, rank):
        rng = self.rng
        existing = [self.sigs[k] for k in NAMES if k in self.sigs and k != 'zqj' and (self.sigs[k].kind == 'def' or 'newcommand' in self.f)]
        if existing and rng.random() < 0.3:
            # the same calling convention as an earlier macro: the two can later be aliased to each other with \let
            e = rng.choice(existing)
            return Sig(e.kind, e.pre, list(e.ds), e.nargs, e.opt, rank)
        if rng.random() < 0.35 and 'newcommand' in self.f:
            nargs = rng.choice([0, 1, 1, 2, 3])
            opt = None
            if nargs and rng.random() < 0.5:
                r = rng.random()
                opt = self.word('[]') if r < 0.7 else ('{%s}' % self.word('[]') if r < 0.85 else '')      # one-group default: D51
            return Sig('newcmd', '', [''] * (nargs - (1 if opt is not None else 0)), nargs, opt, rank)
        pre = rng.choice(['(', '.', '!']) if rng.random() < 0.12 else ''
        n = rng.choice([0, 0, 1, 1, 1, 2, 2, 3, 9 if rng.random() < 0.3 else 2])
        ds = []
        for _ in range(n):
            if rng.random() < 0.55:
                ds.append('')
            else:
                d = rng.choice(['.', ',', ';', ':', '!', '/', '\\zqend ', '\\zqsep ', '.,', ';!', 'Q', ' '])
                ds.append(d)
        # a blank delimiter only after an undelimited… keep simple: blank delimiter never first char after the name
        if ds and ds[0] == ' ' and not pre:
            ds[0] = '.'
        return Sig('def', pre, ds, n, None, rank)

    def body(self, name, sig, depth=0):
        """replacement text: text, #k, calls of lower-rank macros, groups, rarely an inner definition"""
        rng = self.rng
        n = sig.nargs
        lower = [m for m in self.defined() if self.sigs[m].rank < sig.rank]
        out = []
        for _ in range(rng.randint(0, 5)):
            r = rng.random()
            if r < 0.35 and n:
                out.append('#%d' % rng.randint(1, n))
            elif r < 0.55 and lower and depth < 2:
                m = rng.choice(lower)
                out.append(self.call(m, inbody=(n, sig), depth=depth + 1))
            elif r < 0.62:
                out.append('{' + self.word() + ('#%d' % rng.randint(1, n) if n else '') + '}')
            else:
                out.append(self.word())
        return ''.join(out)

    def arg_content(self, forbid, inbody, depth):
        """balanced text for an argument: words, #k of the enclosing macro, nested calls, groups"""
        rng = self.rng
        out = []
        for _ in range(rng.randint(0, 3)):
            r = rng.random()
            if r < 0.2 and inbody and inbody[0]:
                out.append('#%d' % rng.randint(1, inbody[0]))
            elif r < 0.4 and depth < 3:
                cands = [m for m in self.defined() if (not inbody or self.sigs[m].rank < inbody[1].rank) and self.callable_with(m, forbid)]
                if cands:
                    out.append(self.call(rng.choice(cands), inbody=inbody, depth=depth + 1, forbid=forbid))
                    continue
                out.append(self.word(forbid))
            elif r < 0.5:
                out.append('{' + self.word(forbid) + '}')
            elif r < 0.58:
                out.append(' ')
            else:
                out.append(self.word(forbid))
        return ''.join(out)

    def callable_with(self, m, forbid):
        s = self.sigs[m]
        txt = s.pre + ''.join(s.ds)
        return not any(c in txt for c in forbid if c != '\\') and not ('\\' in forbid and '\\' in txt) and not (s.opt is not None and ('[' in forbid or ']' in forbid))

    def call(self, m, inbody=None, depth=0, forbid='', plain_head=False):
        rng = self.rng
        s = self.sigs[m]
        via = rng.random()
        if 'csname' in self.f and via < 0.12 and not plain_head:
            if self.has_p and via < 0.06:
                # part of the name comes from a parameterless macro that must be expanded inside \csname
                head = '\\csname z\\zqp %s\\endcsname ' % m[2:]
            else:
                head = '\\csname %s\\endcsname ' % m
        else:
            head = '\\%s ' % m
        out = [head + s.pre]
        if s.kind == 'newcmd' and s.opt is not None:
            r = rng.random()
            if r < 0.5:
                fb = forbid + '[]'
                if rng.random() < 0.2:
                    out.append('[{' + self.arg_content(fb, inbody, depth + 1) + '}]')
                else:
                    out.append('[' + self.arg_content(fb, inbody, depth + 1) + ']')
        first = True
        for d in s.ds:
            if d == '':
                r = rng.random()
                if rng.random() < 0.2:
                    out.append(' ')
                if r < 0.35:
                    pool = [c for c in TEXT + (NONASCII if rng.random() < 0.3 else '') if c not in forbid]
                    out.append(rng.choice(pool))
                else:
                    out.append('{' + self.arg_content(forbid, inbody, depth + 1) + '}')
            else:
                d0 = d[0]
                fb = forbid + d0
                r = rng.random()
                if r < 0.2:
                    out.append('{' + self.arg_content(fb, inbody, depth + 1) + '}')       # one group: D8 territory
                elif r < 0.28:
                    pass
                else:
                    c = self.arg_content(fb, inbody, depth + 1)
                    if d0 == ' ':
                        c = c.replace(' ', '')
                        if c.endswith('\\'):
                            c = ''
                    out.append(c)
                out.append(d)
            first = False
        return ''.join(out)

    # -- top-level items
    def item(self, depth):
        rng = self.rng
        self.budget -= 1
        if 'ifx' in self.f and rng.random() < 0.16:
            vis = self.plain_visible()
            if not vis or rng.random() < 0.4:
                return self.plain_def()
            return self.ifx_item(depth)
        r = rng.random()
        dfd = self.defined()
        if r < 0.30 or not dfd:
            return self.definition()
        if r < 0.62:
            m = rng.choice(sorted(dfd))
            c = self.call(m)
            if m in self.inner and rng.random() < 0.8:
                c += '\\zqn ' + rng.choice(['y', '{yz}', '{}'])      # use the macro the call has just defined
            return c
        if r < 0.72 and depth < 5:
            return self.group(depth)
        if r < 0.78 and 'let' in self.f:
            return self.let()
        if r < 0.84 and 'expandafter' in self.f:
            return self.expandafter()
        if r < 0.87 and 'norelax' not in self.f:
            return '\\relax '
        return self.word() + (' ' if rng.random() < 0.3 else '')

    # -- \ifx between plain-text macros / characters (NF-prog 4), conditionals well nested (NF-prog 6)
    def plain_visible(self):
        vis = {}
        for d in self.plain:
            vis.update(d)
        return vis

    def plain_def(self):
        """\\def\\zqx{body}: the bodies of one program are variations of one word (equal, proper prefix, extension, a change
        inside, empty, one character), so that \\ifx has to tell apart texts that agree on a prefix"""
        rng = self.rng
        b = self.base
        body = rng.choice([b, b, b + rng.choice('abxyz'), b + b, b[:-1], b[:1], '', b[:1] + rng.choice('pq') + b[2:],
                           rng.choice('abxyz'), b[:-1] + rng.choice('abpq')])
        name = rng.choice(PLAINS)
        if rng.random() < 0.2:
            for d in self.plain:
                d[name] = body
            return '\\gdef\\%s {%s}' % (name, body)
        self.plain[-1][name] = body
        return '\\def\\%s {%s}' % (name, body)

    def branch(self, depth, forbid=''):
        """balanced text of one branch: words, complete calls, groups, nested conditionals; no definitions"""
        rng = self.rng
        out = []
        for _ in range(rng.randint(0, 3)):
            r = rng.random()
            dfd = self.defined()
            if r < 0.3 and dfd:
                out.append(self.call(rng.choice(dfd)))
            elif r < 0.42:
                out.append('{' + self.word() + '}')
            elif r < 0.55 and depth < 2 and self.plain_visible():
                out.append(self.ifx_item(depth + 1, top=False))
            else:
                out.append(self.word() + (' ' if rng.random() < 0.2 else ''))
        return ''.join(out)

    def ifx_item(self, depth, top=True):
        rng = self.rng
        vis = sorted(self.plain_visible())
        r = rng.random()
        if r < 0.72 and vis:
            a, b = rng.choice(vis), rng.choice(vis)
            if self.has_t and rng.random() < 0.25:
                return '\\zqt \\%s \\%s ' % (a, b)          # through a macro: expandDef wraps the parameters after \ifx in groups
            test = '\\ifx\\%s \\%s ' % (a, b)
        elif r < 0.8 and vis and not self.has_t and len(self.scopes) == 1 and top:
            self.has_t = True
            return '\\def\\zqt #1#2{\\ifx #1#2[s]\\else [d]\\fi }\\zqt \\%s \\%s ' % (rng.choice(vis), rng.choice(vis))
        else:
            c1 = rng.choice('abx')
            test = '\\ifx %s%s' % (c1, c1 if rng.random() < 0.5 else rng.choice('abx'))
        then_ = self.branch(depth)
        if rng.random() < 0.75:
            return test + then_ + '\\else ' + self.branch(depth) + '\\fi '
        return test + then_ + '\\fi '

    def definition(self):
        rng = self.rng
        # pick a name: new one (next rank) or redefine an existing one with its fixed signature
        fresh = [n for n in NAMES if n not in self.sigs]
        if fresh and (rng.random() < 0.7 or not self.sigs):
            name = fresh[0]
            self.sigs[name] = self.new_sig(name, NAMES.index(name))
        else:
            name = rng.choice(sorted(k for k in self.sigs if k in NAMES))
        s = self.sigs[name]
        body = self.body(name, s)
        if rng.random() < 0.08:
            # an inner definition with doubled parameter characters (one level of # is removed when the outer macro is called)
            body += '\\def\\zqn ##1{(%s##1)}' % ('#%d' % rng.randint(1, s.nargs) if s.nargs else 'w')
            self.inner.add(name)
        else:
            self.inner.discard(name)
        if s.kind == 'newcmd':
            cmd = 'renewcommand' if name in self.defined() else 'newcommand'
            star = '*' if rng.random() < 0.15 else ''
            nm = '{\\%s}' % name if rng.random() < 0.6 else '\\%s ' % name
            a = '[%d]' % s.nargs if s.nargs else ''
            o = '[%s]' % s.opt if s.opt is not None else ''
            self.scopes[-1].add(name)
            return '\\%s%s%s%s%s{%s}' % (cmd, star, nm, a, o, body)
        ptext = s.pre + ''.join('#%d%s' % (k + 1, d) for k, d in enumerate(s.ds))
        g = rng.random() < 0.25
        if g:
            for sc in self.scopes:
                sc.add(name)
        else:
            self.scopes[-1].add(name)
        head = '\\gdef' if g else '\\def'
        if 'csname' in self.f and 'expandafter' in self.f and rng.random() < 0.1:
            return '\\expandafter%s\\csname %s\\endcsname %s{%s}' % (head, name, ptext, body)
        return '%s\\%s %s{%s}' % (head, name, ptext, body)

    def group(self, depth):
        rng = self.rng
        self.scopes.append(set())
        self.plain.append({})
        inner = ''.join(self.item(depth + 1) for _ in range(rng.randint(1, 4)) if self.budget > 0)
        self.scopes.pop()
        self.plain.pop()
        if rng.random() < 0.25:
            return '\\begingroup ' + inner + '\\endgroup '
        return '{' + inner + '}'

    @staticmethod
    def conv(s):
        """the calling convention of a signature: two names with the same convention can be aliased to each other"""
        return (s.pre, tuple(s.ds), s.nargs, s.opt is not None)

    def let(self):
        """\\let\\target=\\source.  The target is a fresh alias name, an alias that is re-aliased, or an EXISTING macro with the
        same calling convention (the alias must then replace a meaning that may already have been used); with probability
        1/2 the target is called right before and right after the \\let, with no group boundary in between."""
        rng = self.rng
        dfd = sorted(self.defined())
        src = rng.choice(dfd)
        ssig = self.sigs[src]
        cands = []
        for a in ALIASES:
            if a not in self.sigs:
                cands.append(a)
            elif self.conv(self.sigs[a]) == self.conv(ssig) and ssig.rank <= self.sigs[a].rank and a != src:
                cands += [a, a]
        for t in NAMES:
            # an existing macro of higher rank (its new meaning only mentions macros of lower rank than the source: no recursion)
            if t in self.sigs and t != src and t != 'zqj' and self.conv(self.sigs[t]) == self.conv(ssig) and ssig.rank < self.sigs[t].rank:
                cands += [t, t, t]
        if not cands:
            return self.word()
        a = rng.choice(cands)
        used_before = a in dfd
        if a not in self.sigs:
            self.sigs[a] = Sig(ssig.kind, ssig.pre, ssig.ds, ssig.nargs, ssig.opt, ssig.rank)
        before = self.call(a) if used_before and rng.random() < 0.5 else ''
        self.scopes[-1].add(a)
        if src in self.inner:
            self.inner.add(a)
        else:
            self.inner.discard(a)
        eq = rng.choice(['', '=', ' = ', '= '])
        out = before + '\\let\\%s%s\\%s ' % (a, eq, src)
        if before or rng.random() < 0.3:
            out += self.call(a)
        return out

    def expandafter(self):
        """\\expandafter\\X\\Y : \\Y is a fresh parameterless macro whose text supplies \\X's arguments"""
        rng = self.rng
        cands = [m for m in sorted(self.defined()) if self.sigs[m].kind == 'def' and self.sigs[m].nargs >= 1 and not self.sigs[m].pre]
        if not cands:
            return self.word()
        m = rng.choice(cands)
        s = self.sigs[m]
        # the helper \zqj (highest rank, never used inside other texts) expands to the argument text
        for sc in self.scopes:
            sc.discard('zqj')
        args = self.call(m, plain_head=True)[len('\\%s ' % m):]
        self.sigs['zqj'] = Sig('def', '', [], 0, None, 99)
        out = '\\def\\zqj {%s}\\expandafter\\%s \\zqj ' % (args, m)
        for sc in self.scopes:
            sc.discard('zqj')
        return out

    def program(self):
        out = []
        if 'csname' in self.f and self.rng.random() < 0.5:
            out.append('\\def\\zqp {q}')
            self.has_p = True
        while self.budget > 0:
            out.append(self.item(0))
        # a control word is written with a blank after it; in front of a non-ASCII character the blank is not needed (the
        # character is not a letter and ends the name) and is mostly left out, so that \\name directly meets such text
        rng = self.rng
        return [_GLUE.sub(lambda m: m.group(1) if rng.random() < 0.7 else m.group(0), it) for it in out]


import re as _re0
_GLUE = _re0.compile(r'(\\[a-zA-Z]+) (?=[' + NONASCII + '])')


def gen_prog(rng, malformed=False):
    feats = {'newcommand', 'let', 'csname', 'expandafter', 'ifx'}
    if rng.random() < 0.35:
        feats = set(x for x in sorted(feats) if rng.random() < 0.5)
    if rng.random() < 0.5:
        feats = set(feats) - {'ifx'}       # half of the programs stay inside the fragment of the program-level theorems
    if malformed:
        # a truncated call can swallow a following \relax and hand it to a \def: redefining \relax at run time breaks
        # plasTeX's own number/argument readers (outside the model and outside NF-prog), so malformed programs carry none
        feats = set(feats) | {'norelax'}
    g = ProgGen(rng, feats)
    items = g.program()
    if malformed:
        r = rng.random()
        k = rng.randrange(len(items)) if items else 0
        if r < 0.3 and items:
            import re as _re
            cut = items[k][:rng.randint(0, len(items[k]))]               # truncated item (missing delimiter / argument)
            # do not cut inside a control word: \d, \r, \ren... are accents/unknown macros of plasTeX's own library, outside the model
            items[k] = _re.sub(r'\\[a-zA-Z]*$', '', cut) if len(cut) < len(items[k]) and items[k][len(cut):len(cut) + 1].isalpha() else cut
        elif r < 0.5:
            items.append('\\' + rng.choice(NAMES))                        # call at end of input: too few arguments
        elif r < 0.7 and items:
            items = items[k:]                                             # uses before definitions
        else:
            ins = rng.choice(['\\expandafter', '\\csname ab', '\\def', '\\let\\zqu', '\\newcommand\\zqa[1]['])
            # a bare \def goes to the end of the program (in front of an item it would redefine a primitive such as \relax or \def)
            items.insert(len(items) if ins in ('\\def', '\\expandafter') else k, ins)    # (\expandafter in front of an unexpandable primitive: known finding D18, only through its witness)
    if _D49.search(''.join(items)):
        # a truncation must not create the class of the known finding D49 (\expandafter\x followed by \def, \let, ...)
        return gen_prog(rng, False)
    return prog_case(items)


def prog_case(items, origin='gen'):
    src = ''.join(items)
    return Case('prog', '%d %s' % (FUEL, ' '.join(str(ord(c)) for c in src)), {'items': items}, origin)


def generate(ctx):
    rng = ctx.rng
    q = ctx.tier == 'quick'
    n_comp = 5000 if q else 80000
    n_prog = 5000 if q else 45000
    for _ in range(n_comp):
        yield gen_subst(rng)
    for _ in range(n_comp):
        yield gen_match(rng)
    for _ in range(n_comp // 2):
        yield gen_newcmd(rng)
    for _ in range(n_comp // 4):
        yield gen_defparse(rng)
    for _ in range(n_prog):
        yield gen_prog(rng, malformed=rng.random() < 0.12)


def P(*items):
    return prog_case(list(items), 'corpus')


def corpus():
    W = words_of
    return [
        # D8: a delimited argument that is exactly one group loses its braces
        P('\\def\\zqb #1{[#1]}', '\\def\\zqa #1.{\\zqb #1}', '\\zqa {xy}.'),
        Case('match', ' | '.join(' '.join(x) for x in [W('#1.'), W('\\zqb #1'), W('{xy}.z')]), None, 'corpus'),
        # D15: \renewcommand inside a group is local
        P('\\newcommand\\zqa {x}', '{\\renewcommand\\zqa {y}\\zqa }', '\\zqa '),
        # D16: \gdef wins over a local definition of an enclosing group
        P('{\\def\\zqa {x}\\gdef\\zqa {y}\\zqa }', '\\zqa '),
        P('{\\def\\zqa {x}{\\gdef\\zqa {y}\\zqa }\\zqa }', '\\zqa '),
        # D17: optional argument that is one group
        P('\\def\\zqb #1{[#1]}', '\\newcommand\\zqa [1][d]{\\zqb #1}', '\\zqa [{xy}]', '\\zqa '),
        # D51: a default that is one group is stored without its braces
        P('\\def\\zqb #1{[#1]}', '\\newcommand\\zqa [1][{xy}]{\\zqb #1}', '\\zqa ', '\\zqa [p]'),
        # D52: ## in macros without parameter text, nested three deep
        P('\\def\\zqa {\\def\\zqb ##1{\\def\\zqc ####1{[##1|####1]}}}', '\\zqa ', '\\zqb x', '\\zqc y'),
        P('\\def\\zqa {\\def\\zqb {\\def\\zqc ####1{<####1>}}}', '\\zqa ', '\\zqb ', '\\zqc y'),
        # \let onto a name that exists and has been used: the new meaning must be seen at once (no group boundary in between)
        P('\\def\\zqa {1}', '\\def\\zqc {2}', '\\zqa ', '\\let\\zqa \\zqc ', '\\zqa '),
        P('\\def\\zqa #1{(#1)}', '\\def\\zqc #1{[#1]}', '\\zqa {x}\\let\\zqa =\\zqc \\zqa {x}', '{\\zqa y\\let\\zqa \\zqc \\zqa y}'),
        # \ifx between plain-text macros: equal, proper prefix, empty, through a macro (the parameters after \ifx are wrapped in groups)
        P('\\def\\zqx {xy}', '\\def\\zqy {xyz}', '\\ifx\\zqx \\zqy T\\else F\\fi ', '\\ifx\\zqy \\zqx T\\else F\\fi ', '\\ifx\\zqx \\zqx T\\else F\\fi '),
        P('\\def\\zqx {}', '\\def\\zqy {pq}', '\\ifx\\zqx \\zqy T\\else F\\fi ', '\\ifx ab T\\else F\\fi ', '\\ifx aa T\\fi '),
        P('\\def\\zqx {ab}', '\\def\\zqy {abab}', '\\def\\zqt #1#2{\\ifx #1#2[s]\\else [d]\\fi }', '{\\zqt \\zqx \\zqy }', '\\zqt \\zqx \\zqx '),
        P('\\def\\zqx {xy}', '\\def\\zqy {xy}', '\\ifx\\zqx \\zqy \\ifx\\zqx \\zqx A\\else B\\fi \\else F\\fi ', '.'),
        # a non-ASCII character directly after a control word ends the name (it is not a letter): \\zqa applied to it / followed by it
        P('\\def\\zqa #1{(#1)}', '\\zqa\u00e9', '\\def\\zqb {W}', '\\zqb\u00fc', '\\zqa\\zqb\u00df', '\\zqa\u20ac'),
        P('\\newcommand\\zqa [2][D]{(#1,#2)}', '\\zqa\u00f1x', '\\def\\zqb {[\\zqa\u00e9]}', '\\zqb '),
        # D50: \expandafter in front of a macro whose expansion is empty
        P('\\def\\zqa #1{}', '\\def\\zqe #1{[#1]}', '\\expandafter\\zqe \\zqa AB'),
        P('\\def\\zqa #1#2#3#4#5#6#7#8#9{#9#8#7#6#5#4#3#2#1}', '\\zqa 123456789'),
        P('\\def\\zqa #1{\\def\\zqb ##1{#1##1}}', '\\zqa x', '\\zqb y'),
        P('\\def\\zqa {x}', '\\let\\zqu \\zqa ', '\\def\\zqa {y}', '\\zqa \\zqu '),
        P('\\def\\zqa #1#2{[#1|#2]}', '\\def\\zqb {pq}', '\\expandafter\\zqa \\zqb z'),
        P('\\def\\zqa {x}', '\\expandafter\\def\\csname zqb\\endcsname {\\zqa \\zqa }', '\\zqb '),
        P('\\newcommand{\\zqa }[2][D]{(#1,#2)}', '\\zqa x', '\\zqa [o]{y}', '\\zqa  [o] y'),
        Case('subst', ' | '.join(' '.join(x) for x in [W('a#1##b#2'), W('xy'), W('{z}')]), None, 'corpus'),
        Case('newcmd', '2 %s | %s | %s' % (' '.join(W('D')), ' '.join(W('(#1,#2)')), ' '.join(W('[o]{y}z'))), None, 'corpus'),
        Case('newcmd', '2 %s | %s | %s' % (' '.join(W('D')), ' '.join(W('(#1,#2)')), ' '.join(W(' xz'))), None, 'corpus'),
    ]


FRAG_STATS = {'prog_spec_defined': 0, 'prog_in_proved_fragment': 0}


def nontrivial(o):
    if o.case.stream == 'prog' and o.spec.startswith('ok:'):
        FRAG_STATS['prog_spec_defined'] += 1
        if len(o.aux) > 1 and o.aux[1].startswith('ok:'):
            FRAG_STATS['prog_in_proved_fragment'] += 1
    if not o.spec.startswith('ok:'):
        return False
    if o.case.stream == 'prog':
        return '#' in ''.join(o.case.meta.get('items', [])) if o.case.meta else True
    return 'c6:35' in o.case.line


# ---------------------------------------------------------------- implementation side

def fresh_tex(tokens):
    E = _setup()
    tex = E['TeX'](E['doc'])
    tex.input(tokens)
    return tex


def run_program(src, fresh=True):
    """`TeX().input(src).parse().textContent` without blanks.  With fresh=False the interpreter is run on a shared
    document whose context is reset afterwards (same code path, ~10x faster); every 8th case and the corpus use a fresh one."""
    E = _setup()
    if fresh:
        doc = E['TeXDocument']()
        tex = E['TeX'](doc)
        tex.input(src)
        try:
            tex.parse()
        except Exception as e:
            return canon_exc(e)
        txt = doc.textContent
    else:
        if E['pdoc'] is None:
            E['pdoc'] = E['TeXDocument']()
            E['TeX'](E['pdoc'])
            E['base'] = dict(E['pdoc'].context.contexts[0])
        doc = E['pdoc']
        c = doc.context
        tex = E['TeX'](doc)
        tex.input(src)
        try:
            out = tex.parse(doc.createDocumentFragment())
            txt = out.textContent
        except Exception as e:
            return canon_exc(e)
        finally:
            # the clean-up must not be interrupted by the per-case alarm (a half-restored shared document would leak
            # definitions into every later program): the pending alarm is cancelled first
            import signal
            signal.alarm(0)
            del c.contexts[1:]
            c.mapMethods()
            g = c.contexts[0]
            dict.clear(g)
            dict.update(g, E['base'])
            g.lets.clear()
    return 'ok:' + ' '.join(str(ord(c)) for c in txt if not c.isspace())


def impl(case, aux):
    E = _setup()
    st = case.stream
    if st == 'prog':
        E['n'] += 1
        from framework import time_limit, CaseTimeout
        src = ''.join(chr(int(x)) for x in case.line.split()[1:])
        spec_defined = len(aux) > 2 and aux[2].startswith('ok:')
        if aux and aux[0] == 'err:fuel' and case.origin == 'gen' and not spec_defined:
            # the model predicts a blow-up and the Spec is undefined (malformed / non-NF programs only): give the real
            # interpreter 1 s, not CASE_TIMEOUT; the outcome is compared by error class with the model only
            try:
                with time_limit(1):
                    return run_program(src, fresh=False)
            except CaseTimeout:
                FRAG_STATS['timeouts_predicted_blowup'] = FRAG_STATS.get('timeouts_predicted_blowup', 0) + 1
                E['pdoc'] = None          # an interrupted run may leave class-level state behind: the shared document is rebuilt
                return 'err:timeout'
        try:
            return run_program(src, fresh=(case.origin != 'gen' or E['n'] % 8 == 0))
        except CaseTimeout:
            # a time-out on a program for which the Spec or the model predicts a normal result is never taken at face value:
            # it is re-run on a fresh document with a 15x limit (on a loaded machine, or right after a blow-up case has been
            # garbage collected, 4 s can pass).  At most 5 re-runs per check, so that a code change that makes many programs hang
            # cannot stall the check; further time-outs are reported as UNCONFIRMED and judged as "no observation".
            FRAG_STATS['timeouts_first_attempt'] = FRAG_STATS.get('timeouts_first_attempt', 0) + 1
            E['pdoc'] = None
            if not (spec_defined or (aux and aux[0].startswith('ok'))):
                return 'err:timeout'
            if E.get('retries', 0) >= 5:
                FRAG_STATS['timeouts_unconfirmed'] = FRAG_STATS.get('timeouts_unconfirmed', 0) + 1
                return 'err:timeout-unconfirmed'
            E['retries'] = E.get('retries', 0) + 1
            import gc
            gc.collect()
            try:
                with time_limit(60):
                    return run_program(src, fresh=True)
            except CaseTimeout:
                return 'err:timeout'
    ws = case.line.split()
    ctx = E['doc'].context
    try:
        if st == 'subst':
            parts = split_bar(ws)
            body = real_toks(parts[0])
            params = [None] + [None if p == ['N'] else real_toks(p) for p in parts[1:]]
            return 'ok:' + wstr(E['plasTeX'].expandDef(body, params))
        if st == 'match':
            a, b, s = split_bar(ws)
            ctx.newdef('zqm', real_toks(a), real_toks(b))
            tex = fresh_tex(real_toks(s))
            out = E['doc'].createElement('zqm').invoke(tex)
            return 'ok:%s / %s' % (wstr(out or []), wstr(list(tex.itertokens())))
        if st == 'newcmd':
            nargs = int(ws[0])
            o, b, s = split_bar(ws[1:])
            ctx.newcommand('zqm', nargs, real_toks(b), opt=None if o == ['N'] else real_toks(o))
            tex = fresh_tex(real_toks(s))
            out = E['doc'].createElement('zqm').invoke(tex)
            return 'ok:%s / %s' % (wstr(out or []), wstr(list(tex.itertokens())))
        if st == 'defparse':
            tex = fresh_tex(real_toks(ws))
            obj = E['doc'].createElement('def')
            obj.invoke(tex)
            name = obj.attributes['name'].nodeName
            cls = ctx[name]
            d = cls.definition
            return 'ok:%s / %s / %s / %s' % (codes(name), wstr(cls.args), 'N' if d is None else wstr(d), wstr(list(tex.itertokens())))
    except Exception as e:
        return canon_exc(e)
    raise ValueError(st)


import re as _re2
_PRIMS = r'(?:relax|def|gdef|edef|xdef|let|csname|endcsname|expandafter|newcommand|renewcommand|begingroup|endgroup)'
_PRIM_REDEF = _re2.compile(r'\\(?:def|gdef|let|newcommand|renewcommand)\*?\s*\{?\s*\\' + _PRIMS + r'(?![a-zA-Z])|\\let\s*\\[a-zA-Z]+\s*=?\s*\\' + _PRIMS + r'(?![a-zA-Z])')


_UNEXP = r'(?:relax|def|gdef|edef|xdef|let|endcsname|newcommand|renewcommand|begingroup|endgroup)'
_D49 = _re2.compile(r'\\expandafter\s*\\[a-zA-Z]+\s*\\' + _UNEXP + r'(?![a-zA-Z])')


def _norm(s):
    return ' '.join(s.split())


def judge(o):
    impl_, model, spec = _norm(o.impl), _norm(o.model), _norm(o.spec)
    if o.case.stream == 'prog' and impl_ == 'err:timeout-unconfirmed':
        # a time-out that could not be re-run with the long limit (more than 5 in this run): no observation, no verdict
        o.corr_ok = o.prop_ok = True
        o.note = 'unconfirmed time-out: not judged'
        return
    if o.case.stream == 'prog':
        # errors: class only (the model does not name Python's exception types at document level)
        ie = 'err' if impl_.startswith('err') else impl_
        me = 'err' if model.startswith('err') else model
        o.corr_ok = (ie == me)
        if not o.corr_ok and o.aux:
            # dual-variant model (known finding D49): the implementation may follow the repaired variant instead
            re_ = _norm(o.aux[0])
            o.corr_ok = (ie == ('err' if re_.startswith('err') else re_))
            if o.corr_ok:
                o.note = 'implementation follows the repaired variant of D49'
        o.prop_ok = spec.startswith('-') or impl_ == spec
        if len(o.aux) > 1 and _norm(o.aux[1]).startswith('ok:'):
            # the program lies in the fragment of run_eq_texRun_language_partial (texRun fragOk defined): the theorem, executed
            # by the driver, says repaired model == fragment evaluator == full evaluator; the real code must print the same
            # unless it shows the known finding D49 (then it equals the as-is model, checked above)
            frag, rep = _norm(o.aux[1]), _norm(o.aux[0])
            if not (frag == spec == rep):
                o.corr_ok = False
                o.note = 'driver contradicts run_eq_texRun_language_partial / fragment_run_is_texProgram_partial: frag=%s spec=%s repaired=%s' % (frag[:60], spec[:60], rep[:60])
            o.case.meta = dict(o.case.meta or {}, in_proved_fragment=True)
        if model == 'err:fuel':
            o.corr_ok = True
        if spec.startswith('-') and _PRIM_REDEF.search(''.join(chr(int(x)) for x in o.case.line.split()[1:])):
            o.corr_ok = True      # a malformed program that redefines or aliases a primitive (\def\relax, \let\x\def): outside the model
        if len(o.aux) > 3 and _norm(o.aux[3]).startswith('ok:') and _norm(o.aux[3]) != spec:
            # the evaluator of the program-level theorems (no conditionals) and the oracle with \ifx must agree where both are defined
            o.corr_ok = False
            o.note = 'texProgram and texProgramC disagree: %s / %s' % (_norm(o.aux[3])[:60], spec[:60])
        if model in ('err:AttributeError', 'err:ValueError', 'err:unsupported') and spec.startswith('-'):
            o.corr_ok = True      # character \let / character in the name position: outside the model (and outside NF-prog)
    else:
        if impl_.startswith('err') and model.startswith('err'):
            o.corr_ok = True if model == 'err:timeout' else (impl_ == model)
        else:
            o.corr_ok = (impl_ == model)
        o.prop_ok = spec.startswith('-') or impl_ == spec


def extra_checks(ctx):
    """no further oracle: reports how many generated programs lie in the fragment for which program-level equality is PROVED
    (run_eq_texRun_language_partial) among those on which the Spec evaluator is defined"""
    ctx.say('programs with the Spec defined: %(prog_spec_defined)d, of which inside the proved fragment: %(prog_in_proved_fragment)d' % FRAG_STATS)
    ctx.say('time-outs: %d with a predicted blow-up (1 s limit), %d others (re-run with a 60 s limit)' % (FRAG_STATS.get('timeouts_predicted_blowup', 0), FRAG_STATS.get('timeouts_first_attempt', 0)) + ('; %d time-outs left unjudged (re-run budget used up)' % FRAG_STATS['timeouts_unconfirmed'] if FRAG_STATS.get('timeouts_unconfirmed') else ''))
    return [], dict(FRAG_STATS, evaluations=0, distinct_nontrivial=0, samples=[], stream='prog (fragment coverage)')


# ---------------------------------------------------------------- shrink / search

def shrink(ctx, o, evaluate):
    if o.case.stream != 'prog' or not o.case.meta:
        return o
    best = o
    improved = True
    while improved:
        improved = False
        items = best.case.meta['items']
        cands = []
        for i in range(len(items)):
            cands.append(items[:i] + items[i + 1:])
        for i, it in enumerate(items):
            if it.startswith('{') and it.endswith('}') and len(it) > 2:
                cands.append(items[:i] + [it[1:-1]] + items[i + 1:])
        # never shrink into the class of the known finding D49 (\expandafter in front of an unexpandable primitive)
        cs = [prog_case(c, 'shrink') for c in cands if c and not _D49.search(''.join(c))]
        for r in evaluate(cs):
            if not r.prop_ok:
                best, improved = r, True
                break
    return best


def search(ctx, evaluate, corr_bad):
    """proof/tie broken but no spec mismatch in the main batch: shrinks of the disagreeing cases, then a larger
    seeded batch, all judged against the Spec oracle (Spec.texRun / texCall / texSubst), never the model"""
    rng = _random.Random(ctx.seed + 104729)
    cases = []
    for o in corr_bad[:20]:
        if o.case.stream == 'prog' and o.case.meta:
            items = o.case.meta['items']
            for i in range(len(items)):
                cases.append(prog_case(items[:i] + items[i + 1:], 'search'))
                cases.append(prog_case(items[:i + 1], 'search'))
    for _ in range(6000):
        cases.append(gen_prog(rng))
    for _ in range(8000):
        cases.append(gen_match(rng)); cases.append(gen_subst(rng)); cases.append(gen_newcmd(rng))
    bad = [o for o in evaluate(cases) if not o.prop_ok]
    if bad:
        bad.sort(key=lambda o: len(o.case.line))
        o = shrink(ctx, bad[0], evaluate)
        return Violation('implementation differs from the property oracle (found by search)',
                         {'kind': 'failing-input', 'outcome': o.to_json()})
    return None
