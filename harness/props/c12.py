"""C12 - Rendered HTML never turns document text into markup.

component streams (real functions called in-process, compared with the Lean model and judged with html.parser)
  esc  : PageTemplate.textDefault on strings (plain and isMarkup nodes)
  pfc  : PageTemplate.processFileContent (image-placeholder pass + escape-high-chars loop), flag on/off
  h5   : HTML5.processFileContent (base pass + the two clean-up regexes), flag on/off
  xh   : XHTML.processFileContent (base pass + the three clean-up regexes), flag on/off
  tree : Renderable.__str__ on hand-built node trees (text nodes, .str short-cuts, elements with wrapping templates);
         leaves repeat within a tree, as text and as declared markup (isMarkup), in either order
  hist : sequences of textDefault calls on ONE renderer object (plain and isMarkup strings, repeated strings):
         the hook must have no memory.  Every case of every stream gets a new renderer object, so a case is replayable.
  dec  : ties the Spec reader `decode` to html.parser on the fragment where both are defined alike
  flt  : the expression / filter layer of the Jinja2 templates: `{{ x | e }}`, `{{ x | striptags }}`, chains of both, on a
         rendered node value (through the real hook) or a raw string, evaluated by the real Jinja2 environment and compared
         with Model/TemplateExpr.lean (markupsafe.escape, Markup.striptags, Markup/str typing of chained filters)
  tal  : the TAL expressions of the XHTML templates (plain path / string:, text / structure / the unimplemented `stripped`,
         element content / attribute value) on a node value or a raw string, evaluated by the real simpleTAL through
         PageTemplate.htmltemplate and compared with emitTal of Model/TemplateExpr.lean
translator: besides the escape tables, Generated/Templates.lean lists EVERY `{{ ... }}` of the HTML5 renderer's template files
  (file, expression, source kind node/raw/trusted, filter chain, content/attribute position, in scope?); the theorem
  all_html5_interpolations_safe is re-checked against it on every run; likewise every tal:content / tal:replace /
  tal:attributes expression of the XHTML renderer's files (talInterpolations, all_xhtml_expressions_safe).
document level (extra_checks, oracle doc12): generated documents with adversarial text in every text-bearing position
  x {HTML5, XHTML} x theme x split-level x escape-high-chars x output encoding x the options of Config.py /
  HTML5/Config.py that templates consult (breadcrumbs-level, localtoc-level, display-toc, toc-depth, toc-non-files,
  sec-num-depth, mathjax, theme css/js), parsed with html.parser and compared with the same document carrying inert
  letters.  Documents may contain declared raw HTML (package html) and text leaves that are exactly the same string.
  The grammar also covers text positions that packages and less common macros bring with templates of their own
  (listings: lstlisting / lstinline in languages the highlighter knows, does not know, or none, captions; alltt; color;
  boxes; theorem titles; bibliography items; font switches), and an environment dimension: the optional Pygments
  dependency present or absent (`env: no-pygments`).  Highlighter token spans are transparent for the comparison.
"""
import os, re, sys, json, html, logging, random, tempfile, shutil, types
from html.parser import HTMLParser
import extract
from framework import Case, Violation
import ast, inspect, textwrap

ID = 'C12'
LEAN_MODULE = 'PlasVerif.Properties.C12'
LEVEL_TEXT = ('Lean 4 theorems over a line-by-line model of PageTemplate.textDefault (the replace chain, regenerated from the source and '
              'kernel-checked against a live probe of every code point < 0x250), PageTemplate.processFileContent (escape-high-chars), '
              'the HTML5/XHTML clean-up regexes and the Renderable.__str__ recursion: for every string the escaped text contains no < or >, '
              'every & starts a reference, and an HTML reader decodes it back to exactly the input (also when followed by arbitrary template '
              'output); numeric escaping yields 7-bit output and commutes with decoding for every file content; on every well-tagged file content '
              'the clean-up regexes lose, change or reorder no non-blank character of the character data (only &nbsp; is added in empty cells) and never '
              'touch escaped text; the hook is memoryless (hook_history_independent) and the child loop carries nothing from one child to the next; '
              'every node tree rendered through tag-only templates displays exactly its text leaves, also next to complete declared markup '
              '(render_with_markup_leaves); every {{ }} interpolation of the HTML5 template files that shows a text position is of a syntactic class '
              '(node in element content, raw|e, x|striptags|e) that provably displays text as text for every string (all_html5_interpolations_safe over the '
              'regenerated table, safe_interpolation_displays_text, escape_filter_safe over a model of markupsafe.escape / Markup.striptags), and likewise every '
              'TAL expression of the XHTML template files (all_xhtml_expressions_safe, safe_tal_expression_displays_text over a model of simpleTAL escaping); and the same for templates that are arbitrary sequences of complete literal output and content '
              'interpolations, repeated or dropped (render_piece_templates). '
              'PARTIAL: Jinja2/simpleTAL expansion of the ~110 template files is not modelled; that each template emits node text only through '
              'the escaping hook (and escapes text it copies into attributes) is carried by the document-level oracle doc12 (sampled), not by a theorem.')
LEVEL_NOTE = ('Trusted: Lean kernel (axioms propext, Classical.choice, Quot.sound only), the translator (AST of textDefault + probes of textDefault, '
              'processFileContent and Python re classes), the correspondence harness and generators, CPython html.parser as the HTML reader at '
              'document level. Modelled not verified: template expansion, image placeholders when images exist, user-configured html5 filters.')
TECHNIQUE = 'Lean 4 proof (induction on strings/trees, finite table checks by kernel decide) + regenerated escape tables + differential correspondence + document-level html.parser oracle'
TRUSTED = ['Jinja2 / simpleTAL template expansion (carried by doc12 only)', 'html.parser as the reader of rendered output',
           'Python re semantics of the four regexes (re-implemented as scanners, tied by streams pfc/h5/xh)']
ASSUMPTIONS = ['template interpolations are classified by the NAME of the expression (textContent/source/plain_listing = raw string; url/id/config/... = '
               'template data; anything else = DOM node rendered through the hook); interpolations of URL arguments, math sources, labels/form fields and '
               'generated numbers are listed in the table as out of scope, not claimed',
               'an installation without Pygments is simulated by setting plasTeX.Packages.listings.pygments = None (what its failed import leaves)',
               'utf-16 output is not combined with package listings (its UTF-8 pygments.css is re-read in the output encoding)',
               'no generated images are registered with the imagers (no LaTeX in the sandbox): the image-placeholder pass is the identity',
               'html5 filters / processFileContents callbacks are not configured',
               'the output encoding can represent the document text (utf-8, or latin-1 with Latin-1 payloads)',
               'nodes flagged isMarkup (packages html, embed) are markup by declaration and outside the property']
RULE = ('component strings are drawn from an adversarial alphabet (markup metacharacters, entity-/tag-like fragments, placeholders, white space, '
        'non-ASCII incl. astral and lone surrogates) plus ~15% uniformly random code points; non-trivial = the input contains a character the '
        'mechanism must act on (& < > or a code point > 127 or a regex trigger) and the expected result is not an error; '
        'histories/trees draw their strings from a small per-case pool so that equal strings recur with and without isMarkup; '
        'distinct = distinct driver request line; document level: distinct (structure, configuration incl. template options, payload) renders')
EXHAUSTIVE = {}
CASE_TIMEOUT = 30

logging.disable(logging.CRITICAL)

# ---------------------------------------------------------------- translator
# Translator for C12: regenerates lean/PlasVerif/Generated/Escape.lean from the live code.
# 
#   chain      - the ordered single-character `str.replace` calls of PageTemplate.textDefault (AST, exact);
#                when the AST pattern is not found the chain is synthesised from the probed table (`&` first)
#   probed     - live textDefault on every code point < 0x250: the ones whose image differs from themselves
#   high*      - the numeric-reference rule of PageTemplate.processFileContent (probed on every code point < 0x250
#                and on sampled higher ones; the pad width of '&#%.3d;' is read from the source when present)
#   reSpace, reWordRanges, ciClasses - what Python's `re` means by \\s, \\w and IGNORECASE for the letters of the
#                clean-up regexes (probed over all of Unicode)

PROBE_LIMIT = 0x250


def probe_text_default():
    r = _renderer()
    table = []
    for c in range(PROBE_LIMIT):
        out = r.textDefault(chr(c))
        if not isinstance(out, str):
            raise ValueError('textDefault(%d) returned %r' % (c, type(out)))
        if out != chr(c):
            if len(out) > 16:
                raise ValueError('textDefault(%d) too long' % c)
            table.append((c, [ord(x) for x in out]))
    return table


def ast_chain():
    """[(code point, replacement code points)] in source order, or None when the function is not the plain
    'if not isMarkup: node = node.replace(c, r) ...; return' shape"""
    from plasTeX.Renderers.PageTemplate import Renderer
    try:
        src = textwrap.dedent(inspect.getsource(Renderer.textDefault))
        fn = ast.parse(src).body[0]
    except Exception:
        return None
    body = [s for s in fn.body if not (isinstance(s, ast.Expr) and isinstance(getattr(s, 'value', None), ast.Constant))]
    if len(body) != 2 or not isinstance(body[0], ast.If) or not isinstance(body[1], ast.Return) or body[0].orelse:
        return None
    if ast.dump(body[0].test) != ast.dump(ast.parse("not(getattr(node, 'isMarkup', None))", mode='eval').body):
        return None
    chain = []
    for st in body[0].body:
        if not (isinstance(st, ast.Assign) and len(st.targets) == 1 and isinstance(st.targets[0], ast.Name)
                and isinstance(st.value, ast.Call) and isinstance(st.value.func, ast.Attribute)
                and st.value.func.attr == 'replace' and isinstance(st.value.func.value, ast.Name)
                and st.value.func.value.id == st.targets[0].id and len(st.value.args) == 2 and not st.value.keywords
                and all(isinstance(a, ast.Constant) and isinstance(a.value, str) for a in st.value.args)):
            return None
        pat, rep = st.value.args[0].value, st.value.args[1].value
        if len(pat) != 1 or len(rep) > 16:
            return None
        chain.append((ord(pat), [ord(x) for x in rep]))
    return chain


def probe_high():
    """threshold T and pad width: every code point <= T is kept, every one above becomes &#<decimal>;"""
    from plasTeX.Renderers.PageTemplate import Renderer
    r = _renderer()
    r.imager = r.vectorImager = types.SimpleNamespace(images={}, staticimages={})
    doc = types.SimpleNamespace(config={'files': {'escape-high-chars': True}})
    thr = None
    sample = list(range(PROBE_LIMIT)) + [0x3b1, 0x7ff, 0x800, 0x2028, 0xd7ff, 0xe000, 0xffff, 0x10000, 0x1f600, 0x10ffff]
    for c in sample:
        out = Renderer.processFileContent(r, doc, chr(c))
        if out == chr(c):
            if thr is not None:
                raise ValueError('code point %d kept above the threshold %d' % (c, thr))
            continue
        if thr is None:
            thr = c - 1
        m = re.fullmatch(r'&#(\d+);', out)
        if not m or int(m.group(1)) != c:
            raise ValueError('code point %d became %r' % (c, out))
    if thr is None:
        raise ValueError('no code point is escaped')
    pad = 1
    try:
        src = inspect.getsource(Renderer.processFileContent)
        m = re.search(r"""['"]&#%(?:\.(\d)|0(\d))?d;['"]""", src)
        if m:
            pad = int(m.group(1) or m.group(2) or 1)
    except Exception:
        pass
    if pad > 3:   # unobservable below the threshold only when <= number of digits of the first escaped code point
        raise ValueError('pad width %d' % pad)
    return thr, pad


def probe_re():
    allc = ''.join(chr(c) for c in range(0x110000))
    space = [ord(m) for m in re.findall(r'\s', allc)]
    ranges = []
    for m in re.findall(r'\w', allc):
        c = ord(m)
        if ranges and ranges[-1][1] == c - 1:
            ranges[-1][1] = c
        else:
            ranges.append([c, c])
    cand = re.compile('[a-z]', re.I).findall(allc)
    ci = []
    for l in 'abcdeghiklmnoprt':
        ci.append((ord(l), [ord(x) for x in cand if re.fullmatch(l, x, re.I)]))
    return space, ranges, ci


def nat_pairs(tbl):
    return '[' + ', '.join('(%d, %s)' % (c, extract.lean_nat_list(o)) for c, o in tbl) + ']'


def gen_escape():
    probed = probe_text_default()
    chain = ast_chain()
    mode = 'exact'
    if chain is None:
        mode = 'probed'
        chain = sorted(probed, key=lambda p: (p[0] != 38, p[0]))
    thr, pad = probe_high()
    space, ranges, ci = probe_re()
    src = (extract.HEADER % ('plasTeX/Renderers/PageTemplate/__init__.py (textDefault, processFileContent) and Python re', mode) +
           'namespace PlasVerif.Generated.Escape\n'
           '/-- the ordered one-character `str.replace` calls of `PageTemplate.textDefault` (chain mode: %s) -/\n' % mode +
           'def chain : List (Nat × List Nat) := %s\n' % nat_pairs(chain) +
           '/-- live `textDefault` was evaluated on every code point below this bound -/\n'
           'def probeLimit : Nat := %d\n' % PROBE_LIMIT +
           '/-- the probed code points whose image is not the code point itself, with their image -/\n'
           'def probed : List (Nat × List Nat) := %s\n' % nat_pairs(probed) +
           '/-- `processFileContent`: code points above this become `&#<decimal>;` (probed), `%%.<pad>d` -/\n'
           'def highThreshold : Nat := %d\n' % thr +
           'def highPad : Nat := %d\n' % pad +
           '/-- code points matched by `\\s` of Python `re` (str patterns) -/\n'
           'def reSpace : List Nat := %s\n' % extract.lean_nat_list(space) +
           '/-- inclusive ranges of the code points matched by `\\w` -/\n'
           'def reWordRanges : List (Nat × Nat) := [%s]\n' % ', '.join('(%d, %d)' % (a, b) for a, b in ranges) +
           '/-- per lower-case letter: the code points it matches under `re.I` -/\n'
           'def ciClasses : List (Nat × List Nat) := %s\n' % nat_pairs(ci) +
           'end PlasVerif.Generated.Escape\n')
    return 'PlasVerif/Generated/Escape.lean', src, mode


# ---- the expression / filter layer of the Jinja2 templates: every `{{ ... }}` of the HTML5 renderer's files

RAW_LAST = {'textContent', 'source', 'plain_listing'}            # Python strings holding document text as typed
TRUSTED_LAST = {'url', 'id', 'px', 'em', 'inline', 'style', 'float', 'nodeName', 'thmName', 'len', 'width', 'height', 'depth', 'colspan',
                'rowspan', 'html_listing', 'mathjax_source', 'num', 'position'}
TRUSTED_NAMES = {'class', 'css', 'js', 'icon', 'id', 'key', 'val', 'alignment'}      # template-local names bound to configuration / template data
TRUSTED_ROOTS = {'config', 'loop', 'doc', 'context', 'nav', 'rendererdata'}
# unsafe-looking interpolations that are not one of the property's text positions: listed in the table, not claimed
OUT_OF_SCOPE = [
    (r'(^|\.)source$', 'TeX source of a formula or picture (alt text of a generated image)'),
    (r'^(obj|self)$|(^|\.)attributes\.url( or obj)?$|\.url$', 'URL argument written into href/src'),
    (r'(^|\.)attributes\.(label|name|category|arguments\.label|parameters\.\w+)( or .*)?$', 'label / form-field name used as id, name or value'),
    (r'(^|\.)ref\.textContent$', 'generated number of a sectioning unit'),
]
_PATH = re.compile(r"[A-Za-z_]\w*(?:\.[A-Za-z_]\w*|\[['\"][\w-]+['\"]\])*$")


def _classify_base(base):
    worst = 'trusted'
    for alt in re.split(r'\s+or\s+', base):
        alt = alt.strip()
        if not _PATH.match(alt):
            kind = 'trusted'          # macro calls, method calls, literals: template-side data
        else:
            comps = re.findall(r"[A-Za-z_]\w*|\[['\"]([\w-]+)['\"]\]", alt)
            names = re.findall(r"\w[\w-]*", alt)
            last, root = names[-1], names[0]
            if last in RAW_LAST:
                kind = 'raw'
            elif last in TRUSTED_LAST or root in TRUSTED_ROOTS or (len(names) == 1 and root in TRUSTED_NAMES):
                kind = 'trusted'
            else:
                kind = 'rendered'     # a DOM node or node attribute: written through Renderable.__str__
        if kind == 'raw' or (kind == 'rendered' and worst == 'trusted'):
            worst = kind
    return worst


def scan_templates():
    """[(file, position, expression, source kind, [filters], in scope?, reason)] for every interpolation"""
    import glob
    import plasTeX
    root = os.path.join(os.path.dirname(plasTeX.__file__), 'Renderers', 'HTML5')
    files = sorted(glob.glob(os.path.join(root, '*.jinja2s')) + glob.glob(os.path.join(root, '*.jinja2')) +
                   glob.glob(os.path.join(root, 'Themes', '*', '*.jinja2')))
    rows = []
    for f in files:
        t = open(f, encoding='utf-8').read()
        blank = lambda m: ' ' * len(m.group(0))
        t = re.sub(r'\{%.*?%\}', blank, t, flags=re.S)
        t = re.sub(r'\{#.*?#\}', blank, t, flags=re.S)
        for m in re.finditer(r'\{\{(.*?)\}\}', t, flags=re.S):
            before = re.sub(r'\{\{.*?\}\}', '', t[:m.start()], flags=re.S)
            pos = 'attr' if before.rfind('<') > before.rfind('>') else 'text'
            expr = ' '.join(m.group(1).split())
            parts = [x.strip() for x in expr.split('|')]
            filts, known = [], True
            for fl in parts[1:]:
                if fl in ('e', 'escape'): filts.append('esc')
                elif fl == 'striptags': filts.append('striptags')
                else: known = False
            src = _classify_base(parts[0]) if known else 'raw'      # an unknown filter: claim nothing for it
            reason = ''
            if src != 'trusted':
                for rx, why in OUT_OF_SCOPE:
                    if re.search(rx, parts[0]) and (pos == 'attr' or 'number' in why):
                        reason = why
                        break
            rows.append((os.path.relpath(f, root), pos, expr, src, filts, reason == '', reason))
    return rows


HELP_FILES = ('EclipseHelp.zpts', 'JavaHelp.zpts', 'CHM.zpts')


def _tal_classify(expr):
    """(source kind, via string:, mode) of one TAL expression"""
    e = expr.strip()
    mode = 'text'
    if e.startswith('structure '):
        mode, e = 'structure', e[10:].strip()
    elif e.startswith('text '):
        e = e[5:].strip()
    if e.startswith('stripped'):
        return 'rendered', False, 'dropped'
    if re.match(r'(python|not|exists|nocall):', e):
        return 'trusted', False, mode
    if e.startswith('string:'):
        parts = re.findall(r'\$\{([^}]*)\}', e[7:])
        kinds = [_classify_base(x.strip().replace('/', '.')) for x in parts]
        src = 'raw' if 'raw' in kinds else ('rendered' if 'rendered' in kinds else 'trusted')
        return src, True, mode
    kinds = [_classify_base(x.strip().replace('/', '.')) for x in e.split('|')]
    src = 'raw' if 'raw' in kinds else ('rendered' if 'rendered' in kinds else 'trusted')
    return src, False, mode


def _tal_safe(src, via, mode, pos):
    return (src == 'trusted' or mode == 'dropped' or (src == 'rendered' and pos == 'content' and not via)
            or (src == 'raw' and mode == 'text' and pos == 'content') or (src == 'raw' and pos == 'attr'))


def scan_tal_templates():
    """[(file, position, expression, source kind, via string:, mode, in scope?, reason)] for every TAL expression of the XHTML renderer"""
    import glob, plasTeX
    root = os.path.join(os.path.dirname(plasTeX.__file__), 'Renderers', 'XHTML')
    files = sorted(glob.glob(os.path.join(root, '*.zpts')) + glob.glob(os.path.join(root, '*.html')) +
                   glob.glob(os.path.join(root, 'Themes', '*', '*.html')))
    rows = []
    for f in files:
        t = open(f, encoding='utf-8', errors='replace').read()
        # the body of an element with metal:use-macro is replaced by the macro: never rendered
        t = re.sub(r'(<(\w+)\b[^>]*metal:use-macro[^>]*>).*?(</\2>)', lambda m: m.group(1) + m.group(3), t, flags=re.S)
        rel = os.path.relpath(f, root)
        for m in re.finditer(r'tal:(content|replace|attributes)\s*=\s*("([^"]*)"|\'([^\']*)\')', t):
            val = m.group(3) if m.group(3) is not None else m.group(4)
            if m.group(1) == 'attributes':
                exprs = []
                for part in re.split(r'(?<!;);(?!;)', val):
                    part = ' '.join(part.split())
                    if part:
                        exprs.append(('attr', part.partition(' ')[2].strip()))
            else:
                exprs = [('content', ' '.join(val.split()))]
            for pos, e in exprs:
                src, via, mode = _tal_classify(e)
                reason = ''
                if not _tal_safe(src, via, mode, pos):
                    dotted = re.sub(r'^(structure|text) ', '', e).replace('/', '.')
                    if os.path.basename(rel) in HELP_FILES:
                        reason = 'table-of-contents file of a help system (XML / HHC), not an HTML page'
                    elif e.startswith('string:') and all(re.search(r'/(captionName|title|ref|subref)$', x.strip())
                                                         for x in re.findall(r'\$\{([^}]*)\}', e)) and re.search(r'/(ref|subref)\}', e):
                        reason = 'caption / reference label (name of the float kind and its number)'
                    else:
                        for alt in re.split(r'\s*\|\s*', re.sub(r'^string:', '', dotted)):
                            alt = re.sub(r'[${}#]', ' ', alt).split()
                            for a in alt or ['']:
                                for rx, why in OUT_OF_SCOPE:
                                    if re.search(rx, a) and (pos == 'attr' or 'number' in why):
                                        reason = reason or why
                rows.append((rel, pos, e, src, via, mode, reason == '', reason))
    return rows


def gen_templates():
    import plasTeX
    rows = scan_templates()
    if len(rows) < 50:
        raise ValueError('only %d interpolations found' % len(rows))
    seen, body = set(), []
    for f, pos, expr, src, filts, scope, reason in rows:
        key = (f, pos, expr)
        if key in seen:
            continue
        seen.add(key)
        body.append('  { file := %s, expr := %s, src := .%s, filts := [%s], pos := .%s, inScope := %s }' % (
            extract.lean_str(f), extract.lean_str(expr), src, ', '.join('.' + x for x in filts), pos, 'true' if scope else 'false'))
    src_ = (extract.HEADER % ('plasTeX/Renderers/HTML5/*.jinja2s, *.jinja2, Themes/*/*.jinja2 (every {{ ... }} interpolation)', 'exact') +
            'import PlasVerif.Model.TemplateExpr\nnamespace PlasVerif.Generated.Templates\nopen PlasVerif.Model.TemplateExpr\n'
            '/-- every distinct interpolation of the HTML5 template files: source kind, filter chain, position -/\n'
            'def interpolations : List Interp := [\n' + ',\n'.join(body) + ']\n')
    trows = scan_tal_templates()
    if len(trows) < 50:
        raise ValueError('only %d TAL expressions found' % len(trows))
    seen, tbody = set(), []
    for f, pos, expr, src, via, mode, scope, reason in trows:
        key = (f, pos, expr)
        if key in seen:
            continue
        seen.add(key)
        tbody.append('  { file := %s, expr := %s, src := .%s, viaString := %s, mode := .%s, pos := .%s, inScope := %s }' % (
            extract.lean_str(f), extract.lean_str(expr), src, 'true' if via else 'false', mode, pos, 'true' if scope else 'false'))
    src_ += ('/-- every distinct `tal:content` / `tal:replace` / `tal:attributes` expression of the XHTML template files -/\n'
             'def talInterpolations : List TalInterp := [\n' + ',\n'.join(tbody) + ']\nend PlasVerif.Generated.Templates\n')
    return 'PlasVerif/Generated/Templates.lean', src_, 'exact'


GENERATED = [gen_escape, gen_templates]

# ---------------------------------------------------------------- html.parser observation

class _Events(HTMLParser):
    def __init__(self):
        HTMLParser.__init__(self, convert_charrefs=True)
        self.ev = []

    def _push(self, e):
        self.ev.append(e)

    def handle_starttag(self, tag, attrs):
        self._push(('start', tag, tuple(sorted((k, v if v is not None else None) for k, v in attrs))))

    def handle_startendtag(self, tag, attrs):
        self._push(('startend', tag, tuple(sorted((k, v if v is not None else None) for k, v in attrs))))

    def handle_endtag(self, tag):
        self._push(('end', tag))

    def handle_data(self, data):
        if self.ev and self.ev[-1][0] == 'text':
            self.ev[-1] = ('text', self.ev[-1][1] + data)
        else:
            self._push(('text', data))

    def handle_comment(self, data):
        self._push(('comment', data))

    def handle_decl(self, decl):
        self._push(('decl', decl))

    def handle_pi(self, data):
        self._push(('pi', data))

    def unknown_decl(self, data):
        self._push(('unknown-decl', data))


def html_events(s):
    p = _Events()
    p.feed(s)
    p.close()
    return p.ev


def cps(s):
    return ' '.join(str(ord(c)) for c in s)


def from_cps(line):
    return ''.join(chr(int(w)) for w in line.split())


# ---------------------------------------------------------------- component generators

FRAGS = ['<', '>', '&', '"', "'", ';', '#', 'amp;', 'lt;', 'gt;', 'quot;', '&amp;', '&lt;', '&gt;', '&#60;', '&#x3c;', '&#', '&amp',
         '<script>', '</script>', '<b>', '</p>', '<p>', '<!--', '-->', ']]>', 'a', 'b', 'x', ' ', '\n', '\t', '\xa0', '\xe9', '\xfc', '\u2014',
         '\u03a9', '\u65e5', '\U0001f600', '\x7f', '\x80', '\xff', '\u0100', '0', '7', '12', '=', '/', '-', 'width', '-width;', '&amp;px;',
         'onerror=', 'javascript:', '\u2028', '\x00', '\u0131', '\u212a']

HFRAGS = ['<p>', '</p>', '<P>', '</P>', '<p> ', '<p>\n', '<p >', '<td>', '</td>', '<TD>', '</tD>', '<th>', '</th>', '<td class="a">', '<td\n>', '<tdx>',
          '<th-x>', '<td', '</td', '<tr>', '<br>', '<br/>', '<br />', '<BR  /  >', '<hr>', '<img src="a.png">', '<img src="a.png" / >', '<link rel="x" href="y"/>',
          '<meta charset="utf-8">', '<col>', '<colgroup>', '<column>', '<l\u0131nk a>', '<lin\u212a>', '<hr', '<brx>', '<b>', '</b>', '<div>', '</div>', ' ', '\n', '\t',
          '\xa0', '\u2003', 'a', 'text', '&lt;', '&gt;', '&amp;', '&nbsp;', '&#160;', '\xe9', '\u65e5', '/', '>', '<', '&', ';', '"', "'", '=', ' / ', '/ /']

PFRAGS = ['&amp;', '&amp;img-width;', '&amp;images/img-0001.png-height;', '&amp;x-depth;', '&amp;px;', '&amp;em;', '&amp;lt-width;', '&amp;amp-height;',
          '&amp;#60;b-depth;', '-width;', '-height;', '&amp;a b-width;', '&amp;q-widthx;', '&amp;PX;', '&amp;ex;']


def rand_string(rng, frags, maxn):
    if rng.random() < 0.15:      # malformed / arbitrary
        k = rng.randint(0, maxn)
        out = []
        for _ in range(k):
            r = rng.random()
            if r < 0.5: out.append(chr(rng.randrange(0, 0x250)))
            elif r < 0.7: out.append(chr(rng.randrange(0x250, 0x3000)))
            elif r < 0.8: out.append(chr(rng.randrange(0xd800, 0xe000)))
            elif r < 0.9: out.append(chr(rng.randrange(0x10000, 0x110000)))
            else: out.append(rng.choice('<>&;#'))
        return ''.join(out)
    return ''.join(rng.choice(frags) for _ in range(rng.randint(0, maxn)))


TAGS = ['p', 'p', 'P', 'td', 'th', 'TD', 'Th', 'tr', 'div', 'b', 'span', 'li', 'tdx', 'pre']
VOIDS = ['br', 'hr', 'img', 'link', 'meta', 'col', 'BR', 'Img', 'colgroup', 'brx', 'input']
CONTENT = ['', '', ' ', '\n', ' \n\t', '\xa0', '\u2003', 'a', 'x', '\xe9', '&nbsp;', '&amp;', '&lt;b&gt;', 'x y', ' a ', '&#160;', '.', '\u65e5']
ATTRS = ['', '', ' class="a"', ' style="text-align:left" \n rowspan=""', ' id=x', '\n', ' a="b" ', ' title="x / y"', ' data-x="&lt;"']


def gen_htmlish(rng, depth=2):
    """well-formed-looking template output: elements with (nearly) empty or short content, void tags in every spelling"""
    out = []
    for _ in range(rng.randint(1, 4)):
        r = rng.random()
        if r < 0.25:
            out.append('<%s%s%s>' % (rng.choice(VOIDS), rng.choice(ATTRS), rng.choice(['', '/', ' /', ' / ', '  '])))
        elif r < 0.35:
            out.append(rng.choice(CONTENT))
        else:
            t = rng.choice(TAGS)
            inner = gen_htmlish(rng, depth - 1) if depth > 0 and rng.random() < 0.2 else rng.choice(CONTENT)
            close = t if rng.random() < 0.7 else rng.choice([t.upper(), t.lower(), t.swapcase()])
            out.append('<%s%s>%s</%s>' % (t, rng.choice(ATTRS), inner, close))
    return ''.join(out)


# complete pieces of declared markup (what the packages html/embed hand to the renderer as isMarkup strings)
WELL_MARKUP = ['<hr>', '<br>', '<b>x</b>', '<i>', '</i>', '<span class="k">y</span>', '&amp;', '&copy;', '<hr/>', '<u>a</u>', 'x', '']


def gen_tree(rng, depth, top=False, pool=None):
    """prefix words of a render tree: T m n c.. | U m n c.. | E tpl k children.
    Leaves are drawn half of the time from a small per-tree pool, so that the same string occurs several times in
    one rendering, as text and as declared markup, in either order."""
    if pool is None:
        pool = [rng.choice(WELL_MARKUP) for _ in range(rng.randint(1, 2))] + [rand_string(rng, FRAGS, 3)]
    r = rng.random()
    if (depth <= 0 or r < 0.35) and not top:
        s = rng.choice(pool) if rng.random() < 0.5 else rand_string(rng, FRAGS, 4)
        if s in WELL_MARKUP:
            m = 1 if rng.random() < 0.4 else 0
        else:
            m = 1 if rng.random() < 0.04 else 0
        return ['T' if rng.random() < 0.7 else 'U', str(m), str(len(s))] + [str(ord(c)) for c in s]
    k = rng.randint(0, 4)
    out = ['E', str(rng.randrange(7)), str(k)]
    for _ in range(k):
        out += gen_tree(rng, depth - 1, pool=pool)
    return out


FLT_FRAGS = ['<', '>', '&', '"', "'", '<b>', '</b>', '<i class="x">', '<!--', '-->', '<!-- c -->', '<!-->', ' ', '  ', '\n', '\t', '\xa0', 'a', 'b c', 'x',
             '&amp;', '&lt;', '&gt;', '&quot;', '&#60;', '&#34;', '&#39;', '&nbsp;', ';', '#', '=', '\xe9', '\u65e5', 'onx="y"', '/', '!', '-', '--']
FLT_CHAINS = ['-', 'e', 's', 's,e', 's,e', 'e,s', 'e,e', 's,s']


def gen_flt(rng):
    """an interpolation `{{ x | f1 | f2 }}` of a rendered node (r) or a raw string (w) for a piece of text"""
    s = ''.join(rng.choice(FLT_FRAGS) for _ in range(rng.randint(0, 7)))
    return Case('flt', '%s %s %s' % (rng.choice('rw'), rng.choice(FLT_CHAINS), cps(s)))


def gen_tal(rng):
    """a TAL expression of the XHTML templates on a node value (r) or a raw string (w): plain path or `string:`,
    text / structure / the unimplemented `stripped`, as element content or attribute value"""
    s = ''.join(rng.choice(FLT_FRAGS) for _ in range(rng.randint(0, 7)))
    s = s.replace('\r', '').replace('\n', ' ').replace('\t', ' ')      # attribute values: keep to one line
    return Case('tal', '%s %d %s %s %s' % (rng.choice('rw'), rng.randrange(2), rng.choice('ttsd'), rng.choice('ca'), cps(s)))


def gen_hist(rng):
    """a sequence of hook calls on one renderer: `m n c..` repeated; strings repeat with both flags"""
    pool = [rng.choice(WELL_MARKUP + FRAGS) for _ in range(rng.randint(1, 3))] + [rand_string(rng, FRAGS, 3)]
    out = []
    for _ in range(rng.randint(2, 8)):
        s = rng.choice(pool)
        out += [str(1 if rng.random() < 0.35 else 0), str(len(s))] + [str(ord(c)) for c in s]
    return out


DEC_FRAGS = ['&amp;', '&lt;', '&gt;', '&quot;', '&apos;', '&nbsp;', '&#60;', '&#38;', '&#233;', '&#8212;', '&#0065;', '& ', '&;', '&&', 'a', 'b', ' ', ';', '#',
             '&#;', '& #1;', '\xe9', '"', "'", '=', 'amp;', '12;', '&1', '& a']


def generate(ctx):
    rng = ctx.rng
    n = 1200 if ctx.tier == 'quick' else 30000
    for _ in range(n):
        s = rand_string(rng, FRAGS, 8)
        yield Case('esc', '%d %s' % (1 if rng.random() < 0.08 else 0, cps(s)))
    for _ in range(n // 2):
        s = rand_string(rng, FRAGS + PFRAGS + PFRAGS, 8)
        yield Case('pfc', '%d %s' % (rng.randrange(2), cps(s)))
    for _ in range(n):
        s = rand_string(rng, HFRAGS, 10) if rng.random() < 0.4 else gen_htmlish(rng)
        yield Case(rng.choice(['h5', 'xh']), '%d %s' % (rng.randrange(2), cps(s)))
    for _ in range(n // 3):
        yield Case('tree', ' '.join(gen_tree(rng, rng.randint(1, 4), top=True)))
    for _ in range(n // 3):
        yield Case('hist', ' '.join(gen_hist(rng)))
    for _ in range(n // 2):
        yield gen_flt(rng)
    for _ in range(n // 2):
        yield gen_tal(rng)
    for _ in range(n // 3):
        s = ''.join(rng.choice(DEC_FRAGS) for _ in range(rng.randint(0, 8)))
        yield Case('dec', cps(s))


def corpus():
    c = [
        Case('esc', '0 ' + cps('<script>alert("1")</script> &amp; &#60;'), None, 'corpus'),
        Case('esc', '0 ' + cps('&lt;&&<<>>'), None, 'corpus'),
        Case('esc', '1 ' + cps('<b>&amp;</b>'), None, 'corpus'),
        Case('pfc', '1 ' + cps('\xe9<p>\u65e5\U0001f600</p>&#233;'), None, 'corpus'),
        Case('pfc', '0 ' + cps('x &amp;lt-width; y'), None, 'corpus'),              # D14: placeholder-looking text
        Case('pfc', '1 ' + cps('x &amp;a-height;&amp;px; y'), None, 'corpus'),      # D14: unit suffix was dropped
        Case('pfc', '0 ' + cps('&amp;#60;b-depth;'), None, 'corpus'),
        Case('h5', '0 ' + cps('<p> \n</P><td class="x">\t</TD><th></th><td>a</td>'), None, 'corpus'),
        Case('h5', '1 ' + cps('<td>\xa0</td><p>\xa0</p>'), None, 'corpus'),
        Case('h5', '0 ' + cps('<tdx></td><th-x></th><tdy> </tD><p>a</p><p>\u2003</p>'), None, 'corpus'),   # \b after td|th; one-character paragraph
        Case('xh', '0 ' + cps('<br><hr/><img src="a" / ><colgroup><col><BR  /  >'), None, 'corpus'),
        Case('xh', '0 ' + cps('<l\u0131nk a><lin\u212a><meta / /><br'), None, 'corpus'),
        Case('tree', 'E 0 3 T 0 2 60 97 E 1 1 U 0 1 38 T 0 3 38 108 116', None, 'corpus'),
        Case('tree', 'E 0 3 U 1 4 60 104 114 62 E 3 1 T 0 4 60 104 114 62 T 1 4 60 104 114 62', None, 'corpus'),   # raw <hr>, text <hr>, raw <hr>
        Case('hist', '1 4 60 104 114 62 0 4 60 104 114 62 0 1 38 1 1 38 0 1 38', None, 'corpus'),
        Case('hist', '0 4 60 98 114 62 1 4 60 98 114 62 0 4 60 98 114 62', None, 'corpus'),
        Case('dec', cps('&amp;lt; &#60;&#0062; & &; &#; &quot;'), None, 'corpus'),
    ]
    d = os.path.join(os.path.dirname(os.path.dirname(os.path.dirname(os.path.abspath(__file__)))), 'corpus', ID)
    if os.path.isdir(d):
        for f in sorted(os.listdir(d)):
            if f.endswith('.json'):
                w = json.load(open(os.path.join(d, f)))
                if 'case' in w:
                    c.append(Case.from_json(w['case'], 'corpus'))
    return c


def nontrivial(o):
    if o.impl.startswith('err'):
        return False
    body = o.case.line.split()
    if o.case.stream == 'tree':
        return any(w in ('38', '60', '62') for w in body) and 'E' in body[1:]
    if o.case.stream == 'hist':
        return any(w in ('38', '60', '62') for w in body)
    if o.case.stream == 'flt':
        return any(w in ('38', '60', '62', '34') for w in body[2:])
    if o.case.stream == 'tal':
        return any(w in ('38', '60', '62', '34') for w in body[4:])
    ws = body[1:] if o.case.stream != 'dec' else body
    if o.case.stream in ('h5', 'xh'):
        return o.impl != ' '.join(ws) or '60' in ws
    return any(w in ('38', '60', '62') or int(w) > 127 for w in ws)


# ---------------------------------------------------------------- implementation side

_env = {}


def _renderer(kind='PageTemplate'):
    """a NEW renderer object for every case: a case must fail or pass on its own (replayable); whatever a
    renderer remembers between calls is exercised inside one case by the `hist` and `tree` streams"""
    if kind == 'PageTemplate':
        from plasTeX.Renderers.PageTemplate import Renderer
    elif kind == 'HTML5':
        from plasTeX.Renderers.HTML5 import Renderer
    else:
        from plasTeX.Renderers.XHTML import Renderer
    r = Renderer()
    r.imager = r.vectorImager = types.SimpleNamespace(images={}, staticimages={})
    return r


def _fake_doc(esc):
    return types.SimpleNamespace(config={'files': {'escape-high-chars': bool(esc)}, 'html5': {'filters': []}},
                                 rendererdata={'html5': {}})


def canon_exc(e):
    return 'err:' + type(e).__name__


# templates of the `tree` stream as piece sequences: literal output and None = the rendered content of the node
# (5 and 6 have words of their own and show the content twice / never, as real templates do with titles)
TPL = {0: ['<span>', None, '</span>'], 1: ['<div class="c">', None, '</div>'], 2: [None], 3: ['<p>', None, '</p><hr/>'],
       4: ['<li><b>', None, '</b></li>'], 5: ['<b>T</b>: ', None, '<i>', None, '</i>'], 6: ['<u>no content</u>']}


def _tpl_apply(pieces, content):
    return ''.join(content() if p is None else p for p in pieces)


def _tree_env():
    if 'tree' not in _env:
        from plasTeX import Command, TeXDocument
        classes = {k: type('tpl%d' % k, (Command,), {}) for k in TPL}
        uni = type('unichar', (Command,), {})
        doc = TeXDocument()
        _env['tree'] = (doc, classes, uni)
    doc, classes, uni = _env['tree']
    from plasTeX.Renderers.PageTemplate import Renderer
    r = Renderer()              # a new renderer per tree (see _renderer)
    r.level = -10
    for k, pieces in TPL.items():
        r['tpl%d' % k] = (lambda pieces: (lambda node: _tpl_apply(pieces, lambda: str(node))))(pieces)
    return doc, r, classes, uni


def _build(words, i, env=None):
    doc, r, classes, uni = env or _tree_env()
    w = words[i]
    if w in ('T', 'U'):
        m, n = int(words[i + 1]), int(words[i + 2])
        s = ''.join(chr(int(x)) for x in words[i + 3:i + 3 + n])
        t = doc.createTextNode(s)
        if m:
            t.isMarkup = True
        if w == 'T':
            return t, i + 3 + n
        u = uni()
        u.ownerDocument = doc
        u.str = t
        return u, i + 3 + n
    tpl, k = int(words[i + 1]), int(words[i + 2])
    e = classes[tpl if tpl in classes else 4]()
    e.ownerDocument = doc
    j = i + 3
    for _ in range(k):
        c, j = _build(words, j, (doc, r, classes, uni))
        e.append(c)
    return e, j


def parse_calls(words):
    calls, i = [], 0
    while i < len(words):
        m, n = int(words[i]), int(words[i + 1])
        calls.append((m, ''.join(chr(int(x)) for x in words[i + 2:i + 2 + n])))
        i += 2 + n
    return calls


def parse_tree(words, i=0):
    """('T'|'U', flag, string) | ('E', tpl, [children])"""
    w = words[i]
    if w in ('T', 'U'):
        m, n = int(words[i + 1]), int(words[i + 2])
        return (w, m, ''.join(chr(int(x)) for x in words[i + 3:i + 3 + n])), i + 3 + n
    tpl, k = int(words[i + 1]), int(words[i + 2])
    j, cs = i + 3, []
    for _ in range(k):
        c, j = parse_tree(words, j)
        cs.append(c)
    return ('E', tpl, cs), j


def tree_reference(tree):
    """the rendering the property prescribes, written with place holders: declared markup as it is, the wrapping
    templates of the stream, and one private-use marker per text leaf; returns (string, [leaf texts])"""
    texts = []

    def go(t, top):
        if t[0] in ('T', 'U'):
            if t[1]:
                return t[2]
            texts.append(t[2])
            return '\ue000%d\ue001' % (len(texts) - 1)
        inner = ''.join(go(c, False) for c in t[2])
        if top:
            return inner
        return _tpl_apply(TPL[t[1] if t[1] in TPL else 4], lambda: inner)
    return go(tree, True), texts


_JENV = {}


class _TalValue:
    """a non-str object whose str() is its rendering (what a DOM node is for simpleTAL)"""
    def __init__(self, rendered):
        self.rendered = rendered

    def __str__(self):
        return self.rendered


def _tal_eval(src, via, mode, pos, t):
    from plasTeX.Renderers.PageTemplate import htmltemplate
    o = types.SimpleNamespace()
    o.x = _TalValue(_renderer().textDefault(t)) if src == 'r' else t
    o.ownerDocument = types.SimpleNamespace(config={}, context=None)
    o.parentNode = o.renderer = None
    path = 'string:${self/x}' if via else 'self/x'
    if mode == 'd':
        expr = ('stripped:' if pos == 'a' else 'stripped ') + ('${self/x}' if via else 'self/x')
    else:
        expr = ('structure ' if mode == 's' and pos == 'c' else '') + path
    key = (expr, pos)
    if key not in _JENV:
        _JENV[key] = htmltemplate('<p tal:content="%s">d</p>' % expr if pos == 'c' else '<a tal:attributes="title %s">d</a>' % expr)
    import io, contextlib
    with contextlib.redirect_stdout(io.StringIO()):      # simpleTAL prints a debugging line for non-str structure values
        out = _JENV[key](o)
    if pos == 'c':
        assert out.startswith('<p>') and out.endswith('</p>'), out
        return out[3:-4]
    if out == '<a>d</a>':
        return ''
    assert out.startswith('<a title="') and out.endswith('">d</a>'), out
    return out[len('<a title="'):-len('">d</a>')]


def impl(case, aux):
    st = case.stream
    if st == 'tal':
        src, via, mode, pos, *ws = case.line.split()
        try:
            return cps(_tal_eval(src, via == '1', mode, pos, ''.join(chr(int(w)) for w in ws)))
        except Exception as e:
            return canon_exc(e)
    if st == 'flt':
        import jinja2
        src, fl, *ws = case.line.split()
        t = ''.join(chr(int(w)) for w in ws)
        try:
            value = _renderer().textDefault(t) if src == 'r' else t
            expr = 'x' + ''.join(' | ' + {'e': 'e', 's': 'striptags'}[f] for f in fl.split(',') if fl != '-')
            if expr not in _JENV:     # the environment plasTeX builds for its templates (PageTemplate.jinja2template)
                _JENV[expr] = jinja2.Environment(trim_blocks=True, lstrip_blocks=True).from_string('{{ %s }}' % expr)
            return cps(_JENV[expr].render(x=value))
        except Exception as e:
            return canon_exc(e)
    if st == 'hist':
        from plasTeX.DOM import Text
        r = _renderer()
        outs = []
        try:
            for m, t in parse_calls(case.line.split()):
                node = Text(t)
                if m:
                    node.isMarkup = True
                out = r.textDefault(node)
                if not isinstance(out, str):
                    return 'err:type:' + type(out).__name__
                outs.append(cps(out))
        except Exception as e:
            return canon_exc(e)
        return ' | '.join(outs)
    if st == 'dec':
        s = from_cps(case.line)
        ev = html_events(s)
        if any(e[0] != 'text' for e in ev):
            return 'err:markup'
        return cps(''.join(e[1] for e in ev))
    if st == 'tree':
        from plasTeX.DOM import Node
        from plasTeX.Renderers import Renderable, mixin, unmix
        env = _tree_env()
        doc, r, classes, uni = env
        node, _ = _build(case.line.split(), 0, env)
        mixin(Node, Renderable)
        Node.renderer = r
        try:
            return cps(str(node))
        except Exception as e:
            return canon_exc(e)
        finally:
            del Node.renderer
            unmix(Node, Renderable)
    flag, _, rest = case.line.partition(' ')
    s = from_cps(rest)
    try:
        if st == 'esc':
            from plasTeX.DOM import Text
            r = _renderer()
            node = Text(s)
            if flag == '1':
                node.isMarkup = True
            out = r.textDefault(node)
        elif st == 'pfc':
            from plasTeX.Renderers.PageTemplate import Renderer
            out = Renderer.processFileContent(_renderer(), _fake_doc(flag == '1'), s)
        elif st == 'h5':
            out = _renderer('HTML5').processFileContent(_fake_doc(flag == '1'), s)
        elif st == 'xh':
            out = _renderer('XHTML').processFileContent(_fake_doc(flag == '1'), s)
        else:
            raise ValueError(st)
    except Exception as e:
        return canon_exc(e)
    if not isinstance(out, str):
        return 'err:type:' + type(out).__name__
    return cps(out)


def _visible(ev):
    """characters a reader displays, white space and no-break spaces aside"""
    t = ''.join(e[1] for e in ev if e[0] == 'text')
    return ''.join(c for c in t if not c.isspace())


def _tags(ev, drop=()):
    return [(e[0], e[1]) for e in ev if e[0] in ('start', 'end', 'startend') and e[1] not in drop]


def in_text_alphabet(c):
    """code points an HTML reader keeps when written as a numeric reference (C1 controls, surrogates and
    noncharacters are remapped or dropped by every HTML parser: not characters of document text)"""
    return not (0x80 <= c <= 0x9f or 0xd800 <= c <= 0xdfff or 0xfdd0 <= c <= 0xfdef or (c & 0xfffe) == 0xfffe or c == 0)


_NONASCII_IN_TAG = re.compile(r'<[^>]*[^\x00-\x7f]')


def judge(o):
    st = o.case.stream
    o.corr_ok = (o.impl == o.model)
    if st in ('pfc', 'h5', 'xh') and o.case.line.startswith('1') and not o.impl.startswith('err'):
        body = o.case.line.split()[1:]
        txt_ = from_cps(' '.join(body))
        if (not all(in_text_alphabet(int(w)) for w in body) or _NONASCII_IN_TAG.search(txt_)
                or re.search(r'<(script|style)\b', txt_, re.I)      # raw-text elements: template territory, never document text
                or '<!' in txt_ or '<?' in txt_):                     # comments, declarations, processing instructions: their data is
                                                                      # not displayed text (a numeric reference inside a comment is
                                                                      # not decoded by any reader), so the text oracle does not apply
            o.prop_ok = True
            o.note = 'outside the text alphabet (compared with the model only)'
            return
    if o.impl.startswith('err'):
        o.prop_ok = False
        o.note = 'the real function raised / returned a non-string'
        return
    if st == 'tal':
        src, via, mode, pos, *ws = o.case.line.split()
        out = from_cps(o.impl)
        t = ''.join(chr(int(w)) for w in ws)
        o.prop_ok = True
        if o.spec == 'safe' and mode != 'd':
            o.prop_ok = ('<' not in out and '>' not in out and (pos == 'c' or '"' not in out) and html.unescape(out) == t)
        return
    if st == 'flt':
        src, fl, *ws = o.case.line.split()
        out = from_cps(o.impl)
        t = ''.join(chr(int(w)) for w in ws)
        o.prop_ok = True
        if o.spec == 'safe':      # a class the theorems call safe: the real filters must display the text as text
            ev = html_events(out)
            o.prop_ok = '<' not in out and '>' not in out and all(e[0] == 'text' for e in ev)
            if fl.endswith('e'):
                o.prop_ok = o.prop_ok and '"' not in out
            if 's' not in fl:
                o.prop_ok = o.prop_ok and ''.join(e[1] for e in ev) == t
        return
    if st == 'hist':
        calls = parse_calls(o.case.line.split())
        outs = [from_cps(x) for x in o.impl.split('|')]
        if len(outs) != len(calls):
            o.prop_ok = False
            return
        ok = True
        for (m, t), out in zip(calls, outs):
            if m:
                continue      # declared markup: outside the property (compared with the model)
            ev = html_events(out)
            ok = ok and '<' not in out and '>' not in out and all(e[0] == 'text' for e in ev) and ''.join(e[1] for e in ev) == t
        o.prop_ok = ok
        return
    try:
        out = from_cps(o.impl)
    except ValueError:
        o.prop_ok = False
        return
    if st == 'dec':
        o.prop_ok = True      # a tie of the Spec reader, not a property of plasTeX
        return
    if st == 'esc':
        flag, _, rest = o.case.line.partition(' ')
        if flag == '1':
            o.prop_ok = True  # declared markup: outside the property
            return
        s = from_cps(rest)
        ev = html_events(out)
        o.prop_ok = ('<' not in out and '>' not in out and all(e[0] == 'text' for e in ev)
                     and ''.join(e[1] for e in ev) == s and o.spec == rest.strip())
        return
    if st == 'tree':
        # compare the parse of the output with the parse of the prescribed rendering (template output and declared
        # markup as they are, every text leaf - wherever the templates show it - as text holding exactly its characters)
        tree, _ = parse_tree(o.case.line.split())
        flagged = []

        def collect(t):
            if t[0] == 'E':
                for c in t[2]:
                    collect(c)
            elif t[1]:
                flagged.append(t[2])
        collect(tree)
        if not all(f in WELL_MARKUP for f in flagged):
            o.prop_ok = True
            o.note = 'declared markup that is not a complete piece of HTML: compared with the model only'
            return
        ref, texts = tree_reference(tree)
        want = []
        for e in html_events(ref):
            if e[0] == 'text':
                want.append(('text', re.sub('\ue000(\\d+)\ue001', lambda m: texts[int(m.group(1))], e[1])))
            else:
                want.append(e)
        merged = []
        for e in want:
            if e[0] == 'text' and merged and merged[-1][0] == 'text':
                merged[-1] = ('text', merged[-1][1] + e[1])
            elif e != ('text', ''):
                merged.append(e)
        o.prop_ok = (merged == [e for e in html_events(out) if e != ('text', '')])
        return
    flag, _, rest = o.case.line.partition(' ')
    s = from_cps(rest)
    a, b = html_events(s), html_events(out)
    if st == 'pfc':
        # only the byte representation may change: identical parse, and 7-bit when the flag is on
        o.prop_ok = (a == b) and (flag == '0' or all(ord(c) < 128 for c in out))
        return
    # h5 / xh: clean-up may drop empty paragraphs and fill empty cells, nothing else a reader sees
    rest_ = re.sub(r'<[^<>]*>', '', s)
    if '<' in rest_ or '>' in rest_:
        o.prop_ok = True
        o.note = 'stray < or > outside tags: not producible from escaped text (compared with the model only)'
        return
    ok = _visible(a) == _visible(b) and (flag == '0' or all(ord(c) < 128 for c in out))
    ta, tb = _tags(a, ('p',)), _tags(b, ('p',))
    norm = lambda ts: [(('start' if k == 'startend' else k), t) for k, t in ts]   # `<x>` vs `<x />`: the same element
    o.prop_ok = ok and norm(ta) == norm(tb)


def shrink(ctx, o, evaluate):
    """delete code points (calls of a history) one at a time while the property still fails"""
    if o.case.stream == 'hist':
        best = o
        for _ in range(20):
            calls = parse_calls(best.case.line.split())
            cands = [Case('hist', ' '.join('%d %d %s' % (m, len(t), cps(t)) for m, t in calls[:i] + calls[i + 1:]).replace('  ', ' ').strip(), None, 'shrink')
                     for i in range(len(calls)) if len(calls) > 1]
            nxt = next((r for r in evaluate(cands) if not r.prop_ok), None) if cands else None
            if nxt is None:
                break
            best = nxt
        return best
    if o.case.stream not in ('esc', 'pfc', 'h5', 'xh', 'dec'):
        return o
    best = o
    for _ in range(200):
        head, _, rest = best.case.line.partition(' ') if o.case.stream != 'dec' else ('', '', best.case.line)
        ws = rest.split()
        cands = [Case(o.case.stream, ((head + ' ') if o.case.stream != 'dec' else '') + ' '.join(ws[:i] + ws[i + 1:]), None, 'shrink')
                 for i in range(len(ws))]
        nxt = None
        for r in evaluate(cands):
            if not r.prop_ok:
                nxt = r
                break
        if nxt is None:
            break
        best = nxt
    return best


def search(ctx, evaluate, corr_bad):
    """proof or tie broken: hunt for an input on which the real code breaks the property
    (html.parser oracle): shrunk disagreements, a larger seeded batch, then more documents."""
    rng = random.Random(ctx.seed * 31 + 4242)
    cases = []
    for o in corr_bad[:20]:
        cases.append(o.case)
    # every single code point and every pair of fragments through the escaping hook
    for c in list(range(0x250)) + [0x2028, 0xd800, 0xffff, 0x10000, 0x10ffff]:
        cases.append(Case('esc', '0 %d' % c, None, 'search'))
        cases.append(Case('pfc', '1 %d' % c, None, 'search'))
        cases.append(Case('pfc', '1 38 97 109 112 59 %d 59' % c, None, 'search'))
    short = ['<', '>', '&', '"', "'", ';', '#', 'amp;', 'lt;', '&amp;', '&#60;', 'a', '\xe9', '<b>']
    for a in short:
        for b in short:
            cases.append(Case('esc', '0 ' + cps(a + b), None, 'search'))
            cases.append(Case('tree', 'E 0 2 T 0 %d %s U 0 %d %s' % (len(a), cps(a), len(b), cps(b)), None, 'search'))
    for _ in range(6000):
        cases.append(Case('esc', '0 ' + cps(rand_string(rng, FRAGS, 10)), None, 'search'))
        cases.append(Case('pfc', '%d %s' % (rng.randrange(2), cps(rand_string(rng, FRAGS + PFRAGS + PFRAGS, 10))), None, 'search'))
        cases.append(Case(rng.choice(['h5', 'xh']), '%d %s' % (rng.randrange(2), cps(rand_string(rng, HFRAGS, 12))), None, 'search'))
        cases.append(Case(rng.choice(['h5', 'xh']), '%d %s' % (rng.randrange(2), cps(gen_htmlish(rng))), None, 'search'))
    for _ in range(1500):
        cases.append(Case('tree', ' '.join(gen_tree(rng, rng.randint(1, 4), top=True)), None, 'search'))
        cases.append(Case('hist', ' '.join(gen_hist(rng)), None, 'search'))
    bad = [o for o in evaluate(cases) if not o.prop_ok]
    if bad:
        o = shrink(ctx, bad[0], evaluate)
        return Violation('implementation breaks the property oracle (found by search)', {'kind': 'failing-input', 'outcome': o.to_json()})
    ctx2 = types.SimpleNamespace(rng=rng, tier='search', seed=ctx.seed, say=ctx.say, count=ctx.count)
    viol, _ = extra_checks(ctx2)
    return viol[0] if viol else None


# ---------------------------------------------------------------- document level: doc12

# (normal-mode TeX, verbatim TeX or None, displayed text)
ATOMS = [
    ('<', '<', '<'), ('>', '>', '>'), ('\\&', '&', '&'), ('"', '"', '"'), (None, "'", "'"), ('\\#', '#', '#'), (';', ';', ';'), ('=', '=', '='),
    ('/', '/', '/'), ('\\textless{}', None, '<'), ('\\textgreater{}', None, '>'), ('\\{', '{', '{'), ('\\}', '}', '}'), ('\\%', '%', '%'),
    ('\\$', '$', '$'), ('\\_', '_', '_'), ('\\textbackslash{}', '\\', '\\'), ('\xe9', '\xe9', '\xe9'), ('\xfc', '\xfc', '\xfc'),
    ('\u03a9', '\u03a9', '\u03a9'), ('\u65e5\u672c', '\u65e5\u672c', '\u65e5\u672c'), ('\u2014', '\u2014', '\u2014'), ('~', None, '\xa0'),
    ('script', 'script', 'script'), ('b', 'b', 'b'), ('amp', 'amp', 'amp'), ('lt', 'lt', 'lt'), ('x', 'x', 'x'), ('60', '60', '60'),
]
WHOLE = ['<script>alert(1)</script>', '</p></div>', '<b>', '<img src=x onerror=y>', '&lt;', '&amp;amp;', '&#60;b&#62;', ']]>', '<![CDATA[', '<?php',
         '&x-width;', '&lt-width;&px;', '&amp-height;', '" onmouseover="evil', "' onclick='x", '"><script>', '&quot;', '<a href="javascript:x">',
         '&#x3c;i&#x3e;', '</title><script>', '</pre>', '</code>', '</td></tr></table>', '&nbsp;', '&copy', '<!DOCTYPE x>']


def _spell(text, verbatim):
    out = []
    for ch in text:
        if verbatim:
            out.append(ch)
        else:
            out.append({'&': '\\&', '#': '\\#', '%': '\\%', '$': '\\$', '_': '\\_', '{': '\\{', '}': '\\}', '\\': '\\textbackslash{}',
                        '~': '\\textasciitilde{}', '^': '\\textasciicircum{}', "'": "'", '[': '{[}', ']': '{]}'}.get(ch, ch))
    return ''.join(out)


def gen_payload(rng, verbatim, latin1, optarg=False, no_tilde=False):
    """(tex, displayed text); with a Latin-1 output encoding only text that encoding can represent; no square
    brackets inside optional arguments (plasTeX ends `[...]` at the first `]` whatever the braces: C05's business)"""
    while True:
        x, t = _gen_payload(rng, verbatim, latin1)
        if latin1 and not all(ord(c) < 256 for c in t):
            continue
        if optarg and ('[' in t or ']' in t):
            continue
        if no_tilde and '\xa0' in t:
            continue
        if not verbatim and ("'" in t or '\u2019' in t or '`' in t):
            continue      # TeX quote ligatures ('' "' ?` ...) rewrite these in normal mode: C01/C07's business
        return x, t


def _gen_payload(rng, verbatim, latin1):
    tex, txt = [], []
    for _ in range(rng.randint(1, 4)):
        if rng.random() < 0.45:
            w = rng.choice(WHOLE)
            tex.append(_spell(w, verbatim))
            txt.append(w.replace("'", '\u2019') if not verbatim else w)
        else:
            for _ in range(50):
                a = rng.choice(ATOMS)
                sp = a[1] if verbatim else a[0]
                if sp is None or (latin1 and any(ord(c) > 255 for c in a[2])):
                    continue
                if a[2] == '\xa0' and (not txt or txt[-1][-1:] in ('\xa0', ' ')):
                    continue
                tex.append(sp)
                txt.append(a[2])
                break
        if rng.random() < 0.3 and txt and not txt[-1].endswith(('\xa0', ' ')):
            tex.append(' ')
            txt.append(' ')
    t = ''.join(txt)
    x = ''.join(tex)
    while t.endswith(' '):
        t, x = t[:-1], x[:-1]
    # TeX ligatures of the normal mode: avoid creating them by concatenation
    if not verbatim:
        for a, b in (('--', '-{}-'), ("''", "'{}'"), ('``', '`{}`'), ('?`', '?{}`'), ('!`', '!{}`')):
            x = x.replace(a, b)
    return x, t


# declared raw markup (package html: rawhtml environment) that documents may contain next to their text
RAWPOOL = ['<hr>', '<br>', '<b>x</b>', '<span class="k">y</span>', '<em>z</em>', '&copy;', '<u>', '</u>', '<hr class="r">']
BARE_POSITIONS = ('emph', 'textbf', 'title', 'caption', 'footnote', 'quote', 'doctitle', 'term', 'item', 'cell')
BARE_WHOLE = [w for w in WHOLE if "'" not in w and '--' not in w and w == w.strip()] + ['<', '>', '&', '"', '&amp;', '&lt;']


# languages of the LaTeX listings package; Pygments has a lexer for some of them only
LST_LANGS = [None, None, None, 'Python', 'C', 'TeX', 'HTML', 'XML', 'bash', 'Algol', 'Oz', 'Simula', 'Mercury', 'Assembler', 'Caml', 'Lingo']
OPTARG_POSITIONS = ('term', 'toctitle', 'thmtitle', 'biblabel')
DICTARG_POSITIONS = ('lstcaption',)      # inside a key=value list: no comma, equals sign or brackets


def marker(k):
    return 'Q' + 'abcdefghijklmnopqrstuvwxyz'[k // 26] + 'abcdefghijklmnopqrstuvwxyz'[k % 26] + 'Q'


class DocSpec:
    """a document of the grammar with numbered text leaves; `source(payloads)` spells it with the given
    (tex, text) per leaf (None = inert)"""

    def __init__(self, rng):
        self.parts = []      # strings and ('leaf', k)
        self.raws = []       # raw-HTML strings the document contains (declared markup, same in baseline and adversarial)
        self.use_raw = rng.random() < 0.35
        self.use_index = rng.random() < 0.25     # \index entries (inert terms) and \printindex: the index page cites section titles
        self.leaves = []     # (position name, verbatim?)
        self.pkgs = []       # preamble lines the chosen positions need
        self.rng = rng
        self.build()

    def need(self, line):
        if line not in self.pkgs:
            self.pkgs.append(line)

    def leaf(self, pos, verbatim=False):
        k = len(self.leaves)
        self.leaves.append((pos, verbatim))
        self.parts.append(('leaf', k))

    def add(self, s):
        self.parts.append(s)

    def inline(self):
        rng = self.rng
        for _ in range(rng.randint(1, 3)):
            r = rng.random()
            if r < 0.4:
                self.leaf('text'); self.add(' ')
            elif r < 0.55:
                self.add('\\emph{'); self.leaf('emph'); self.add('} ')
            elif r < 0.65:
                self.add('\\textbf{'); self.leaf('textbf'); self.add('} ')
            elif r < 0.85:
                self.add('word\\footnote{'); self.leaf('footnote'); self.add('} ')
            else:
                self.add('\\verb|'); self.leaf('verb', True); self.add('| ')

    # ---- text-bearing positions that packages (and less common base macros) bring with their own templates

    def lst_opts(self, caption=False):
        rng = self.rng
        lang = rng.choice(LST_LANGS)
        opts = []
        if lang:
            opts.append('language=%s' % lang)
        if rng.random() < 0.15:
            opts.append('numbers=left')
        return opts

    def listing(self):
        rng = self.rng
        self.need('\\usepackage{listings}')
        if rng.random() < 0.25:
            self.add('\\lstset{language=%s}\n' % rng.choice([l for l in LST_LANGS if l]))
        opts = self.lst_opts()
        self.add('\n\\begin{lstlisting}')
        if opts or rng.random() < 0.2:
            self.add('[%s' % ','.join(opts))
            if rng.random() < 0.4:
                self.add('%scaption={' % (',' if opts else '')); self.leaf('lstcaption'); self.add('}')
            self.add(']')
        self.add('\n')
        for i in range(rng.randint(1, 2)):
            self.leaf('lstlisting', True); self.add('\n')
        self.add('\\end{lstlisting}\n')

    def pkg_inline(self):
        rng = self.rng
        r = rng.randrange(8)
        if r == 0:
            self.need('\\usepackage{listings}')
            opts = self.lst_opts()
            self.add('\\lstinline%s|' % ('[%s]' % ','.join(opts) if opts else '')); self.leaf('lstinline', True); self.add('| ')
        elif r == 1:
            self.add('\\texttt{'); self.leaf('texttt'); self.add('} ')
        elif r == 2:
            self.add('\\underline{'); self.leaf('underline'); self.add('} ')
        elif r == 3:
            self.need('\\usepackage{color}')
            self.add('\\textcolor{red}{'); self.leaf('textcolor'); self.add('} ')
        elif r == 4:
            self.add(rng.choice(['\\fbox{', '\\mbox{', '\\framebox{'])); self.leaf('box'); self.add('} ')
        elif r == 5:
            self.add('\\textsc{'); self.leaf('textsc'); self.add('} \\textit{'); self.leaf('textit'); self.add('} ')
        elif r == 6:
            self.add('\\marginpar{'); self.leaf('marginpar'); self.add('} ')
        else:
            self.add('{\\small '); self.leaf('small'); self.add('} {\\bfseries '); self.leaf('bfseries'); self.add('} ')

    def pkg_block(self):
        rng = self.rng
        r = rng.randrange(6)
        if r <= 1:
            self.listing()
        elif r == 2:
            self.need('\\usepackage{alltt}')
            self.add('\n\\begin{alltt}\n'); self.leaf('alltt'); self.add('\n\\end{alltt}\n')
        elif r == 3:
            env = rng.choice(['center', 'quotation', 'verse', 'flushleft', 'flushright'])
            self.add('\\begin{%s}' % env); self.leaf(env); self.add('\\end{%s}\n' % env)
        elif r == 4:
            self.need('\\newtheorem{thm}{Theorem}')
            self.add('\\begin{thm}')
            if rng.random() < 0.6:
                self.add('['); self.leaf('thmtitle'); self.add(']')
            self.add(' '); self.leaf('thmbody'); self.add('\\end{thm}\n')
        else:
            self.add('\n\n'); self.pkg_inline(); self.pkg_inline(); self.add('\n\n')

    def raw(self):
        w = self.rng.choice(RAWPOOL)
        self.raws.append(w)
        self.add('\n\\begin{rawhtml}%s\\end{rawhtml}\n' % w)

    def block(self):
        rng = self.rng
        if self.use_raw and rng.random() < 0.4:
            self.raw()
        if self.use_index and rng.random() < 0.6:
            self.add('indexed\\index{%s} ' % rng.choice(['alpha', 'beta', 'gamma', 'beta!sub']))
        if rng.random() < 0.3:
            self.pkg_block()
            return
        r = rng.randrange(10)
        if r == 0:
            self.add('\n\n'); self.inline(); self.add('\n\n')
        elif r == 1:
            env = rng.choice(['itemize', 'enumerate'])
            self.add('\\begin{%s}' % env)
            for _ in range(rng.randint(1, 3)):
                self.add('\\item '); self.leaf('item'); self.add('\n')
            self.add('\\end{%s}\n' % env)
        elif r == 2:
            self.add('\\begin{description}')
            for _ in range(rng.randint(1, 2)):
                self.add('\\item['); self.leaf('term'); self.add('] '); self.leaf('item'); self.add('\n')
            self.add('\\end{description}\n')
        elif r == 3:
            rows, cols = rng.randint(1, 2), rng.randint(1, 3)
            self.add('\\begin{tabular}{%s}' % ('l' * cols))
            for _ in range(rows):
                for c in range(cols):
                    self.leaf('cell'); self.add(' & ' if c < cols - 1 else ' \\\\\n')
            self.add('\\end{tabular}\n\n')
        elif r == 4:
            self.add('\\begin{table}\\caption{'); self.leaf('caption'); self.add('}\\begin{tabular}{l}'); self.leaf('cell')
            self.add('\\end{tabular}\\end{table}\n')
        elif r == 5:
            self.add('\\begin{figure}'); self.leaf('text'); self.add('\\caption{'); self.leaf('caption'); self.add('}\\end{figure}\n')
        elif r == 6:
            self.add('\n\\begin{verbatim}\n'); self.leaf('verbatim', True); self.add('\n\\end{verbatim}\n')
        elif r == 7:
            self.add('\\begin{quote}'); self.leaf('quote'); self.add('\\end{quote}\n')
        elif r == 8:
            self.add('\\paragraph{'); self.leaf('title'); self.add('} '); self.leaf('text'); self.add('\n\n')
        else:
            self.add('\n\n'); self.inline(); self.add('\n\n')

    def build(self):
        rng = self.rng
        self.cls = rng.choice(['article', 'article', 'book', 'report'])
        self.add('\\documentclass{%s}\n' % self.cls)
        if self.use_raw:
            self.add('\\usepackage{html}\n')
        if self.use_index:
            self.add('\\usepackage{makeidx}\\makeindex\n')
        self.add(('preamble',))
        if rng.random() < 0.8:
            self.add('\\title{'); self.leaf('doctitle'); self.add('}')
            if rng.random() < 0.5:
                self.add('\\author{'); self.leaf('author'); self.add('}')
            self.add('\n\\begin{document}\n\\maketitle\n')
        else:
            self.add('\\begin{document}\n')
        if rng.random() < 0.3:
            self.inline()
        nsec = rng.randint(1, 3)
        for i in range(nsec):
            if self.cls != 'article' and (i == 0 or rng.random() < 0.4):
                self.add('\\chapter{'); self.leaf('title'); self.add('}\n')
            r = rng.random()
            if r < 0.7:
                self.add('\\section{'); self.leaf('title'); self.add('}\n')
            elif r < 0.85:
                self.add('\\section*{'); self.leaf('title'); self.add('}\n')
            else:
                self.add('\\section['); self.leaf('toctitle'); self.add(']{'); self.leaf('title'); self.add('}\n')
            for _ in range(rng.randint(1, 3)):
                self.block()
            if rng.random() < 0.4:
                self.add('\\subsection{'); self.leaf('title'); self.add('}\n')
                self.block()
        if rng.random() < 0.2:
            self.add('\\begin{thebibliography}{9}\\bibitem{ka} '); self.leaf('bibitem')
            self.add('\n\\bibitem['); self.leaf('biblabel'); self.add(']{kb} '); self.leaf('bibitem')
            self.add('\n\\end{thebibliography}\n')
        if self.use_index:
            self.add('\\printindex\n')
        self.add('\\end{document}\n')

    def source(self, payloads):
        out = []
        for p in self.parts:
            if p == ('preamble',):
                out.append(''.join(l + '\n' for l in self.pkgs))
            elif isinstance(p, tuple):
                k = p[1]
                pl = payloads.get(k) if payloads else None
                if pl and len(pl) > 2 and pl[2]:
                    out.append(pl[0])          # bare leaf: the payload is the whole text node
                else:
                    out.append(marker(k) + (pl[0] if pl else '') + 'Z')
            else:
                out.append(p)
        return ''.join(out)


def render_doc(src, cfg):
    """render with the real renderer in a scratch directory; returns {file name: decoded text} (or raises)"""
    from plasTeX.TeX import TeX
    from plasTeX import TeXDocument
    from plasTeX.Config import defaultConfig
    from plasTeX.Renderers.HTML5.Config import addConfig
    import importlib
    config = defaultConfig()
    addConfig(config)
    config['files']['split-level'] = cfg['split']
    config['files']['escape-high-chars'] = bool(cfg['esc'])
    config['files']['output-encoding'] = cfg['enc']
    config['general']['renderer'] = cfg['renderer']
    if cfg.get('theme'):
        config['general']['theme'] = cfg['theme']
    config['images']['imager'] = 'none'
    config['images']['vector-imager'] = 'none'
    for sec, key, val in cfg.get('opts') or []:
        config[sec][key] = val
    doc = TeXDocument(config=config)
    tex = TeX(doc)
    tex.input(src)
    d = tempfile.mkdtemp(prefix='c12-')
    cwd = os.getcwd()
    restore = []
    if 'no-pygments' in (cfg.get('env') or []):
        # an installation without the optional Pygments dependency: what `except: pygments = None` at the top of
        # Packages/listings.py leaves behind
        import plasTeX.Packages.listings as _lst
        restore.append((_lst, 'pygments', _lst.pygments))
        _lst.pygments = None
    try:
        os.chdir(d)
        doc = tex.parse()
        doc.userdata['working-dir'] = d
        doc.userdata['jobname'] = 'job'
        mod = importlib.import_module('plasTeX.Renderers.' + cfg['renderer'])
        mod.Renderer().render(doc)
        out = {}
        for f in sorted(os.listdir(d)):
            if f.endswith('.html'):
                out[f] = open(os.path.join(d, f), 'rb').read()
        return out
    finally:
        for mod_, attr_, val_ in restore:
            setattr(mod_, attr_, val_)
        os.chdir(cwd)
        shutil.rmtree(d, ignore_errors=True)
        try:   # a failed render leaves the mix-in installed
            from plasTeX.DOM import Node
            if hasattr(Node, 'renderer'):
                from plasTeX.Renderers import Renderable, unmix
                del Node.renderer
                unmix(Node, Renderable)
        except Exception:
            pass


def _subst(s, table):
    for k, full in table.items():
        s = s.replace(marker(k) + 'Z', full)
    # whether TeX's apostrophe ligature (' -> U+2019) applies at a place is not this property's business
    return s.replace('\u2019', "'")


def _subst_events(ev, table):
    out = []
    for e in ev:
        if e[0] == 'text' or e[0] == 'comment':
            out.append((e[0], _subst(e[1], table)))
        elif e[0] in ('start', 'startend'):
            # attribute values (tool tips built from titles): white space / no-break space are not compared
            out.append((e[0], e[1], tuple((k, ''.join(_subst(v, table).replace('\xa0', ' ').split()) if isinstance(v, str) else v)
                                          for k, v in e[2])))
        else:
            out.append(e)
    return out


def _first_diff(a, b):
    for i, (x, y) in enumerate(zip(a, b)):
        if x != y:
            return i, x, y
    if len(a) != len(b):
        i = min(len(a), len(b))
        return i, (a[i] if i < len(a) else None), (b[i] if i < len(b) else None)
    return None


class _Renum:
    """generated ids `a%.10d` come from a process-wide counter: renumber in order of first appearance"""
    def __init__(self):
        self.map = {}

    def __call__(self, text):
        return re.sub(r'\ba\d{10}\b', lambda m: self.map.setdefault(m.group(0), 'id%d' % len(self.map)), text)


_TOKEN_CLASS = re.compile(r'^(?:[a-z][a-z0-9]{0,3}|linenos)$')


def _collapse_highlight(ev):
    """A syntax highlighter (Pygments, package listings) cuts a listing into `<span class="k">` tokens whose
    boundaries depend on the text.  Spans that carry nothing but a highlighter token class (or nothing at all) are
    transparent for the comparison; the text inside them is compared as part of the surrounding text."""
    out, stack = [], []
    for e in ev:
        if e[0] == 'start' and e[1] == 'span':
            a = dict(e[2])
            tok = (not a) or (set(a) == {'class'} and _TOKEN_CLASS.match(a['class'] or ''))
            stack.append(bool(tok))
            if tok:
                continue
        elif e[0] == 'end' and e[1] == 'span' and stack:
            if stack.pop():
                continue
        if e[0] == 'text' and out and out[-1][0] == 'text':
            out[-1] = ('text', out[-1][1] + e[1])
        else:
            out.append(e)
    return out


def doc12_check(base_src, adv_src, texts, cfg):
    """None when the property holds, else a description.  texts: {leaf k: displayed text, or {'bare': text} when the
    payload stands alone (no marker around it) in the adversarial document}"""
    texts = {int(k): (v['bare'] if isinstance(v, dict) else marker(int(k)) + v + 'Z') for k, v in texts.items()}
    cfg_off = dict(cfg, esc=0)
    try:
        base = render_doc(base_src, cfg_off)
    except Exception as e:
        return None if cfg.get('tolerate_base_error') else 'baseline document failed to render: %r' % (e,)
    try:
        adv = render_doc(adv_src, cfg_off)
        adv_on = render_doc(adv_src, dict(cfg, esc=1))
    except Exception as e:
        return 'rendering the adversarial document raised %s: %s' % (type(e).__name__, str(e)[:200])
    if sorted(base) != sorted(adv) or sorted(adv) != sorted(adv_on):
        return 'different set of output files: %s vs %s' % (sorted(base), sorted(adv))
    rb, ra, ro = _Renum(), _Renum(), _Renum()
    for f in sorted(base):
        try:
            eb = _collapse_highlight(html_events(rb(base[f].decode(cfg['enc']))))
            ea = _collapse_highlight(html_events(ra(adv[f].decode(cfg['enc']))))
        except UnicodeDecodeError as e:
            return 'output file %s is not valid %s: %s' % (f, cfg['enc'], e)
        want = _subst_events(eb, texts)
        ea = _subst_events(ea, {})
        d = _first_diff(want, ea)
        if d:
            return 'file %s, parse event %d: expected %r, observed %r' % (f, d[0], d[1], d[2])
        raw = adv_on[f]
        hi = [b for b in raw if b > 127]
        if hi and cfg['enc'] in ('utf-8', 'latin-1', 'ascii'):
            return 'file %s with escape-high-chars is not pure ASCII (byte %d)' % (f, hi[0])
        eo = _subst_events(_collapse_highlight(html_events(ro(raw.decode(cfg['enc'])))), {})
        d = _first_diff(ea, eo)
        if d:
            return 'file %s: escape-high-chars changed the parse at event %d: %r vs %r' % (f, d[0], d[1], d[2])
    return None


CONFIGS = [('HTML5', None), ('HTML5', None), ('HTML5', 'minimal'), ('XHTML', None), ('XHTML', None), ('XHTML', 'minimal'), ('XHTML', 'plain'),
           ('XHTML', 'python'), ('HTML5', 'fragment')]


def gen_cfg(rng):
    renderer, theme = rng.choice(CONFIGS)
    enc = rng.choice(['utf-8', 'utf-8', 'latin-1', 'utf-16'])
    if renderer == 'HTML5' and theme is None and enc == 'latin-1':
        enc = 'utf-8'     # the default HTML5 layout itself contains U+25B6/U+25BC: not writable in Latin-1
    return {'renderer': renderer, 'theme': theme, 'split': rng.choice([-10, 0, 1, 2, 2, 3]), 'esc': 0, 'enc': enc,
            'opts': gen_opts(rng), 'env': (['no-pygments'] if rng.random() < 0.3 else [])}


# Options of Config.py / HTML5/Config.py that the templates consult: each can make further text-bearing
# positions appear (breadcrumbs, local tables of contents, deeper or non-file toc entries, numbered titles).
# Every option takes its default half of the time.
OPTION_SPACE = [
    ('html5', 'breadcrumbs-level', [-100, 0, 0, 1, 2, 3]),
    ('html5', 'localtoc-level', [-100, 0, 1, 2, 10]),
    ('html5', 'display-toc', [False]),
    ('html5', 'use-mathjax', [False]),
    ('html5', 'mathjax-dollars', [True]),
    ('html5', 'use-theme-css', [False]),
    ('html5', 'use-theme-js', [False]),
    ('document', 'toc-depth', [0, 1, 2, 6]),
    ('document', 'toc-non-files', [True]),
    ('document', 'sec-num-depth', [0, 1, 6]),
    ('general', 'copy-theme-extras', [False]),
]


ALL_ON = [['html5', 'breadcrumbs-level', -100], ['html5', 'localtoc-level', 10], ['document', 'toc-depth', 6],
          ['document', 'toc-non-files', True], ['document', 'sec-num-depth', 6]]


def gen_opts(rng):
    if rng.random() < 0.2:
        return [list(o) for o in ALL_ON]      # every optional text-bearing position switched on
    opts = []
    for sec, key, vals in OPTION_SPACE:
        if rng.random() < 0.5:
            opts.append([sec, key, rng.choice(vals)])
    return opts


def replay_extra(ctx, extra):
    return doc12_check(extra['baseline_tex'], extra['tex'], extra['texts'], extra['config']) is not None


def _texts(payloads):
    return {k: ({'bare': v[1]} if len(v) > 2 and v[2] else v[1]) for k, v in payloads.items()}


def _doc_violation(spec, payloads, cfg, what):
    texts = {str(k): v for k, v in _texts(payloads).items()}
    extra = {'oracle': 'doc12', 'baseline_tex': spec.source(None), 'tex': spec.source(payloads), 'texts': texts, 'config': cfg,
             'positions': {str(k): spec.leaves[k][0] for k in payloads}}
    return Violation('rendered HTML differs from the same document with inert text (html.parser): ' + what,
                     {'kind': 'failing-input', 'extra': extra, 'observed': what,
                      'expected': 'identical parse events after replacing each inert marker by the displayed text of its payload; '
                                  'identical parse and pure ASCII bytes with escape-high-chars'})


def _shrink_doc(spec, payloads, cfg, what, budget=24):
    """one leaf, then fewer characters"""
    base_src = spec.source(None)
    best, best_what = payloads, what
    for k in sorted(payloads):
        if budget <= 0:
            break
        one = {k: payloads[k]}
        budget -= 1
        w = doc12_check(base_src, spec.source(one), _texts(one), dict(cfg, tolerate_base_error=True))
        if w:
            best, best_what = one, w
            break
    if len(best) == 1:
        (k, pl), = best.items()
        tex, txt, bare = pl[0], pl[1], (len(pl) > 2 and pl[2])
        verbatim = spec.leaves[k][1]
        # try the whole-string fragments of the payload on their own
        for w0 in WHOLE + [a[2] for a in ATOMS]:
            if budget <= 0:
                break
            if w0 in txt.replace('\u2019', "'") and len(w0) < len(txt):
                cand_txt = w0 if verbatim else w0.replace("'", '\u2019')
                cand = {k: (_spell(w0, verbatim), cand_txt, bare)}
                budget -= 1
                w = doc12_check(base_src, spec.source(cand), _texts(cand), dict(cfg, tolerate_base_error=True))
                if w:
                    best, best_what = cand, w
                    break
    return best, best_what


def _run_chunk(chunk):
    out = []
    for idx, base_src, adv_src, texts, cfg in chunk:
        try:
            what = doc12_check(base_src, adv_src, texts, cfg)
        except Exception as e:
            what = 'harness-error: %r' % (e,)
        out.append((idx, what))
    return out


def _run_parallel(items, chunk=30):
    """the renders run in short-lived forked workers (simpleTAL keeps every rendered document alive through
    retained tracebacks: ~1.5 MB per XHTML render), a few at a time"""
    import multiprocessing
    chunks = [items[i:i + chunk] for i in range(0, len(items), chunk)]
    results = {}
    if len(chunks) <= 1:
        for idx, what in _run_chunk(items):
            results[idx] = what
        return results
    workers = max(1, min(4, (os.cpu_count() or 2) // 2, len(chunks)))
    with multiprocessing.get_context('fork').Pool(workers, maxtasksperchild=1) as pool:
        for part in pool.imap_unordered(_run_chunk, chunks):
            for idx, what in part:
                results[idx] = what
    return results


def extra_checks(ctx):
    rng = ctx.rng
    ndocs = {'quick': 150, 'thorough': 4000, 'search': 400}.get(ctx.tier, 26)
    viol, renders, distinct, samples = [], 0, 0, []
    positions = {}
    # the D9 / D14 witnesses first (fixed in the repo: must hold)
    spec0 = DocSpec(random.Random(1))
    spec0.parts = ['\\documentclass{article}\\title{', ('leaf', 0), '}\\begin{document}\\maketitle\\section{', ('leaf', 1), '}text ', ('leaf', 2),
                   '\\section{', ('leaf', 3), '}more\\end{document}']
    spec0.raws = []
    spec0.leaves = [('doctitle', False), ('title', False), ('text', False), ('title', False)]
    pl0 = {0: ('"q" <b> \\&amp;', '"q" <b> &amp;'), 1: ('One" onmouseover="evil', 'One" onmouseover="evil'),
           2: ('\\&lt-width;\\&px; \\&\\#60;b-depth;', '&lt-width;&px; &#60;b-depth;'), 3: ("<i>x</i> \\&lt; 'a", '<i>x</i> &lt; \u2019a')}
    todo = [(spec0, pl0, {'renderer': 'HTML5', 'theme': None, 'split': 2, 'esc': 0, 'enc': 'utf-8'}),
            (spec0, pl0, {'renderer': 'XHTML', 'theme': None, 'split': 2, 'esc': 0, 'enc': 'utf-8'})]
    # a nested document with every optional text-bearing position switched on (breadcrumbs on every page,
    # local tables of contents, deep and non-file toc entries)
    spec1 = DocSpec(random.Random(2))
    spec1.parts = ['\\documentclass{article}\\title{', ('leaf', 0), '}\\begin{document}\\maketitle\\section{', ('leaf', 1), '}text ', ('leaf', 2),
                   '\\subsection{', ('leaf', 3), '}more\\subsubsection{', ('leaf', 4), '}deep ', ('leaf', 5), '\\paragraph{', ('leaf', 6),
                   '} x\\section{', ('leaf', 7), '}end\\end{document}']
    spec1.raws = []
    spec1.leaves = [('doctitle', False), ('title', False), ('text', False), ('title', False), ('title', False), ('text', False), ('title', False),
                    ('title', False)]
    pl1 = {0: ('Notes on <u> \\& <script>alert(1)</script>', 'Notes on <u> & <script>alert(1)</script>'), 1: ('The <b> tag \\&lt;', 'The <b> tag &lt;'),
           3: ('</a></li><i>', '</a></li><i>'), 4: ('\\&amp; "q" <!-{}- x', '&amp; "q" <!-- x'), 6: ('<img src=x onerror=y>', '<img src=x onerror=y>'),
           7: ('\\&\\#60;b\\&\\#62;', '&#60;b&#62;')}
    all_on = [list(o) for o in ALL_ON]
    for renderer in ('HTML5', 'XHTML'):
        for split in (3, 1):
            todo.append((spec1, pl1, {'renderer': renderer, 'theme': None, 'split': split, 'esc': 0, 'enc': 'utf-8', 'opts': all_on}))
    # package-provided verbatim material: listings in languages the highlighter knows / does not know / none,
    # with and without the optional highlighter installed (D15 witnesses, fixed in the repo: must hold)
    spec2 = DocSpec(random.Random(3))
    spec2.raws, spec2.pkgs = [], []
    spec2.parts = ['\\documentclass{article}\\usepackage{listings}\\begin{document}\\section{S}\nA \\lstinline|', ('leaf', 0),
                   '| B \\lstinline[language=Oz]|', ('leaf', 1), '| C\n\\begin{lstlisting}[language=Algol,caption={', ('leaf', 2), '}]\n', ('leaf', 3),
                   '\n\\end{lstlisting}\n\\begin{lstlisting}\n', ('leaf', 4), '\n\\end{lstlisting}\n\\lstset{language=Simula}\n\\begin{lstlisting}\n',
                   ('leaf', 5), '\n\\end{lstlisting}\n\\begin{lstlisting}[language=Python,numbers=left]\n', ('leaf', 6), '\n\\end{lstlisting}\n\\end{document}\n']
    spec2.leaves = [('lstinline', True), ('lstinline', True), ('lstcaption', False), ('lstlisting', True), ('lstlisting', True),
                    ('lstlisting', True), ('lstlisting', True)]
    pl2 = {0: ('x<y&<kbd id="k">z</kbd>', 'x<y&<kbd id="k">z</kbd>'), 1: ('a<b>&amp;', 'a<b>&amp;'), 2: ('Cap <i> \\&lt;', 'Cap <i> &lt;'),
           3: ('if a<b then x:=1 & y; <marquee onstart="p()">&lt;m&gt;</marquee> fi', 'if a<b then x:=1 & y; <marquee onstart="p()">&lt;m&gt;</marquee> fi'),
           4: ('no language: a<b & <samp>&#38;</samp>', 'no language: a<b & <samp>&#38;</samp>'),
           5: ('proc <blink>&amp;</blink> end', 'proc <blink>&amp;</blink> end'), 6: ('x = "<b>" & 1 # </pre>', 'x = "<b>" & 1 # </pre>')}
    for renderer in ('HTML5', 'XHTML'):
        for env in ([], ['no-pygments']):
            todo.append((spec2, pl2, {'renderer': renderer, 'theme': None, 'split': -10, 'esc': 0, 'enc': 'utf-8', 'opts': [], 'env': env}))
    for _ in range(ndocs):
        spec = DocSpec(rng)
        cfg = gen_cfg(rng)
        if cfg['enc'] == 'utf-16' and '\\usepackage{listings}' in spec.pkgs:
            cfg['enc'] = 'utf-8'     # listings writes styles/pygments.css in UTF-8 and the clean-up re-reads it in the output encoding
        latin1 = cfg['enc'] == 'latin-1'
        payloads = {}
        for k, (pos, verb) in enumerate(spec.leaves):
            if rng.random() < 0.75:
                # `~` is an ordinary character inside alltt (a no-break space elsewhere)
                payloads[k] = gen_payload(rng, verb, latin1, pos in OPTARG_POSITIONS or pos in DICTARG_POSITIONS, pos == 'alltt')
                while pos in DICTARG_POSITIONS and any(c in payloads[k][1] for c in ',={}'):
                    payloads[k] = gen_payload(rng, verb, latin1, True)
                if pos in BARE_POSITIONS and not verb and rng.random() < (0.5 if spec.raws else 0.15):
                    # the payload alone is the whole text node; preferably a string that the document also
                    # contains as declared raw HTML (same characters, once markup and once text)
                    w0 = rng.choice(spec.raws) if spec.raws and rng.random() < 0.7 else rng.choice(BARE_WHOLE)
                    if not (pos in OPTARG_POSITIONS and ('[' in w0 or ']' in w0)):
                        payloads[k] = (_spell(w0, False), w0, True)
        todo.append((spec, payloads, cfg))
    items = [(i, spec.source(None), spec.source(payloads), _texts(payloads), cfg)
             for i, (spec, payloads, cfg) in enumerate(todo)]
    results = _run_parallel(items)
    for i, (spec, payloads, cfg) in enumerate(todo):
        what = results[i]
        renders += 3
        distinct += 1
        for k in payloads:
            positions[spec.leaves[k][0]] = positions.get(spec.leaves[k][0], 0) + 1
        ctx.count('doc12:%s/%s' % (cfg['renderer'], cfg['theme'] or 'default'))
        if len(samples) < 2:
            samples.append({'stream': 'doc12', 'config': cfg, 'tex': items[i][2][:400], 'result': what or 'ok'})
        if what:
            if what.startswith('baseline document failed') or what.startswith('harness-error'):
                raise RuntimeError('doc12 generator produced a document that does not render: %s\n%s' % (what, items[i][1]))
            p2, w2 = _shrink_doc(spec, payloads, cfg, what)
            viol.append(_doc_violation(spec, p2, cfg, w2))
            if len(viol) >= 3:
                break
    stats = {'evaluations': renders, 'distinct_nontrivial': distinct, 'samples': samples, 'documents': len(todo),
             'text_positions_exercised': dict(sorted(positions.items())), 'oracle': 'doc12 (html.parser event streams)'}
    return viol, stats
