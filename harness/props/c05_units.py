"""Translator for C05: unit table of `plasTeX.dimen` as exact rationals (Generated/Units.lean)."""
import ast, inspect, textwrap
from fractions import Fraction
import extract


def _frac_expr(node, src):
    """exact value of an arithmetic expression of numeric literals (float literals taken from their source text)"""
    if isinstance(node, ast.Constant) and isinstance(node.value, (int, float)) and not isinstance(node.value, bool):
        seg = ast.get_source_segment(src, node)
        return Fraction(seg) if seg and 'e' not in seg.lower() else Fraction(node.value)
    if isinstance(node, ast.BinOp):
        a, b = _frac_expr(node.left, src), _frac_expr(node.right, src)
        if isinstance(node.op, ast.Mult): return a * b
        if isinstance(node.op, ast.Div): return a / b
        if isinstance(node.op, ast.Add): return a + b
        if isinstance(node.op, ast.Sub): return a - b
    if isinstance(node, ast.UnaryOp) and isinstance(node.op, ast.USub):
        return -_frac_expr(node.operand, src)
    raise ValueError('unsupported expression ' + ast.dump(node))


def unit_values_ast():
    """{unit: Fraction value of dimen('1<unit>')} read from the if/elif chain of dimen.__new__"""
    import plasTeX
    src = textwrap.dedent(inspect.getsource(plasTeX.dimen.__new__))
    fn = ast.parse(src).body[0]
    res = {}

    def visit_if(node):
        t = node.test
        if (isinstance(t, ast.Compare) and isinstance(t.left, ast.Name) and t.left.id == 'units' and len(t.ops) == 1
                and isinstance(t.ops[0], ast.Eq) and isinstance(t.comparators[0], ast.Constant)):
            name = t.comparators[0].value
            b = node.body
            if len(b) == 1 and isinstance(b[0], ast.Pass):
                res[name] = Fraction(1)
            elif len(b) == 1 and isinstance(b[0], ast.AugAssign) and isinstance(b[0].op, ast.Mult) and b[0].target.id == 'v':
                res[name] = _frac_expr(b[0].value, src)
            elif len(b) == 1 and isinstance(b[0], ast.If):           # fil: if v < 0: v -= K else: v += K
                inner = b[0]
                pos = inner.orelse[0]
                neg = inner.body[0]
                if not (isinstance(pos, ast.AugAssign) and isinstance(pos.op, ast.Add) and isinstance(neg, ast.AugAssign)
                        and isinstance(neg.op, ast.Sub) and _frac_expr(pos.value, src) == _frac_expr(neg.value, src)):
                    raise ValueError('fil branch shape')
                res[name] = 1 + _frac_expr(pos.value, src)
            else:
                raise ValueError('unit branch shape for %r' % name)
        for o in node.orelse:
            if isinstance(o, ast.If):
                visit_if(o)

    def is_unit_if(n):
        return (isinstance(n, ast.If) and isinstance(n.test, ast.Compare) and isinstance(n.test.left, ast.Name)
                and n.test.left.id == 'units' and isinstance(n.test.comparators[0], ast.Constant))
    ifs = [n for n in ast.walk(fn) if is_unit_if(n)]
    nested = {id(n.orelse[0]) for n in ifs if len(n.orelse) == 1 and is_unit_if(n.orelse[0])}
    heads = [n for n in ifs if id(n) not in nested]
    if len(heads) != 1:
        raise ValueError('expected one if/elif chain on `units`, found %d' % len(heads))
    visit_if(heads[0])
    return res


def lean_rat(q):
    q = Fraction(q)
    return '((%d : Rat) / %d)' % (q.numerator, q.denominator) if q.denominator != 1 else '(%d : Rat)' % q.numerator


def gen_units():
    import plasTeX
    from plasTeX import dimen
    units = list(dimen.units)
    fils = ['filll', 'fill', 'fil']
    mode = 'exact'
    try:
        vals = unit_values_ast()
        for u in units + fils:
            live = float(dimen('1' + u))
            if u not in vals or abs(float(vals[u]) - live) > 1e-9 * abs(live):
                raise ValueError('AST value of %s disagrees with the live class' % u)
    except Exception:
        mode = 'probed'
        vals = {u: Fraction(float(dimen('1' + u))).limit_denominator(10 ** 5) for u in units + fils}
    for u in units + fils:
        if not (u.isascii() and u.isalpha() and u.islower()):
            raise ValueError('unit name %r' % u)
    # the decoding thresholds of dimen.fill / dimen.source are mirrored in Model/Numbers.lean: validate them live
    for k, name in ((2e9, 'fil'), (4e9, 'fill'), (6e9, 'filll')):
        d = dimen(k + 1.0)
        if d.fil != 1.0 or not d.source.endswith(name) or d.source[:-len(name)] != '1.0':
            raise ValueError('fil decoding changed: %r' % d.source)
        if float(dimen('1' + name)) != k + 1.0:
            raise ValueError('fil encoding changed')
    # readStretch/readShrink unit order: dimen.units + ['filll','fill','fil'] (checked by the num stream)
    def table(names):
        return '[' + ',\n   '.join('([%s], %s)' % (', '.join(str(ord(c)) for c in u), lean_rat(vals[u])) for u in names) + ']'
    src = (extract.HEADER % ('plasTeX/__init__.py (dimen.units, dimen.__new__)', mode) +
           'namespace PlasVerif.Generated.Units\n'
           '/-! value in sp of `dimen(\'1<unit>\')` for every unit, in the order of `dimen.units`; names as code points -/\n'
           'def dimenUnits : List (List Nat × Rat) :=\n  ' + table(units) + '\n'
           '/-- the fil units in the order `readStretch` appends them; value = 1 + offset -/\n'
           'def filUnits : List (List Nat × Rat) :=\n  ' + table(fils) + '\n'
           'end PlasVerif.Generated.Units\n')
    return 'PlasVerif/Generated/Units.lean', src, mode


def gen_ligatures():
    """`TeXDocument.defaultCharsubs` (source, replacement) as code points, in list order (Generated/Ligatures.lean)"""
    from plasTeX import TeXDocument
    subs = list(TeXDocument.defaultCharsubs)
    rows = []
    for src, dest in subs:
        if not (isinstance(src, str) and isinstance(dest, str) and src):
            raise ValueError('charsub entry %r' % ((src, dest),))
        rows.append('([%s], [%s])' % (', '.join(str(ord(c)) for c in src), ', '.join(str(ord(c)) for c in dest)))
    src_text = (extract.HEADER % ('plasTeX/__init__.py (TeXDocument.defaultCharsubs)', 'exact') +
                'namespace PlasVerif.Generated.Ligatures\n'
                '/-- the text ligatures applied to an argument read in text mode: (source, replacement), in list order -/\n'
                'def charsubs : List (List Nat × List Nat) :=\n  [' + ',\n   '.join(rows) + ']\n'
                'end PlasVerif.Generated.Ligatures\n')
    return 'PlasVerif/Generated/Ligatures.lean', src_text, 'exact'
