"""C14 - every internal link in the rendered output lands on an existing target.

streams
  url   : abstract render trees (level, label, number, footnote flag, children) x split level x toc depth x toc-non-files
          x base-url x filename template (a single-name template forces level -10) x references; labels include families
          that collide as file names.  Footnotes: real footnote nodes registered in userdata['footnotes']; observed: the file
          each mark is printed in and the file whose SectionUtils.footnotes lists it.  Driver: Model.Urls (Macro.id/idgen, cacheFilenames, Renderable.url/__str__, tableofcontents proxy,
          links next/prev, label lookup) and the Spec oracle (Spec.Links) on the model's own output.
          Implementation: a real TeXDocument DOM built from real section/par/environment classes, rendered by the real
          plasTeX.Renderers.Renderer with stub string templates (only id, url, children), so the real Renderable.url,
          .filename, .__str__, Renderer.cacheFilenames, Macro.id, idgen, SectionUtils.tableofcontents/links,
          TableOfContents and Context.label/ref run.  ~15% malformed (duplicate labels, levels that do not nest,
          a root that creates no file): implementation vs model only.
  idx   : the groups of the index page (IndexUtils.groups): random index keys (ASCII letters, digits, symbols, underscore,
          accented / Greek / Cyrillic initials, multi-character transliterations, sub-entries, formats) parsed by the real
          code; the request line is the sequence of transliterated upper-cased first characters in the order of the sorted
          index; observation = (title, id, number of entries) per group; oracle = ids pairwise distinct.
  cap   : Float.digest: figures/tables whose captions (with label) are written directly or nested in boxes, font commands
          and environments up to depth 3; observation = number of captions Float.digest sees in allChildNodes and the id
          the float template prints (the caption's id when there is exactly one caption).
  reg   : link targets the parser registers (userdata['index'], userdata['footnotes']) for constructs standing in every
          context of the document generator (boxes, font commands, environments, directly after \\item, before the first
          \\item, in \\item[..], in table cells): every registered object must be a node of the document tree.
  nav   : the navigation entries the parser registers (Macro.setLinkType -> userdata['links'], read by SectionUtils.links):
          documents made of \\printindex, theindex environments (the form makeindex writes), thebibliography environments and
          sections in random order, parsed by the real code; observation per key = which construct registered the entry
          and whether the registered object is a node of the document tree.
  post  : Renderer.processFileContent of the HTML5 and XHTML renderers on pages made of paragraphs, table cells, blanks,
          text, empty anchors (index targets), empty elements with an id and links: the identifiers and hrefs of the page
          must survive the post-processing step unchanged (Spec.Links.pageIds / pageHrefs).
  doc14 : (extra_checks) generated LaTeX documents with cross-file labels/refs, footnotes, index entries, bibliography,
          lists, theorems, floats x split level x toc depth x toc-non-files x base-url x {HTML5 default, HTML5 minimal,
          XHTML default}; output parsed with html.parser; oracle in c14doc.py.
"""
import os, sys, re, json, logging, tempfile, shutil, random as _random
from framework import Case, Violation
from props import c14doc

ID = 'C14'
LEAN_MODULE = 'PlasVerif.Properties.C14'
LEVEL_TEXT = ('Lean 4 theorems over a line-by-line model of Macro.id/idgen, Renderer.cacheFilenames, Renderable.filename/url/__str__, '
              'SectionUtils.tableofcontents/fulltableofcontents/links, the TableOfContents proxy and Context.label: for every render tree, '
              'split level and base-url the URL of every node names a produced file (url_names_produced_file), its fragment is an identifier '
              'emitted into exactly that file (fragment_is_in_that_file), identifiers are pairwise distinct in the whole output when labels are '
              '(ids_unique_per_file; generated ids are fresh and strictly increasing), a resolved reference shows the number of and links to the '
              'labelled node (ref_shows_target_number), every toc, next and prev link lands (toc_links_land, nav_links_land; next/prev are inverse on neighbouring '
              'file sections: next_prev_neighbours), and with a table of contents every produced file is reachable from the start page at full strength - any toc-depth, '
              'toc-non-files on or off - through toc and next links (toc_reaches_every_file; toc_reaches_every_file_of_document states it on the input document alone: '
              'levels nest, split level < ENDSECTIONS_LEVEL; prepared_tocOK and prepared_files_distinct discharge its two hypotheses; toc_alone_reaches_every_file: the toc '
              'alone suffices when toc-depth covers the nesting). url_file_is_c13_owner connects to C13: the file a URL names is the file into which C13\'s model of '
              'Renderable.__str__ (Model/Render.lean) writes the node\'s own template output. Footnotes: the mark of a footnote is printed in the file of its own URL, its text by the layout '
              'of the section SectionUtils.footnotes finds by walking currentSection until a section has a filename; footnote_mark_lands proves both are the same produced file whenever only '
              'sections create files, footnote_mark_lands_of_document for every filename template (a template naming a single file forces level -10: effSplit), every split level below '
              'ENDSECTIONS_LEVEL and every document (prepared_navOK). up_and_breadcrumb_links_land: the up/parent entry and every breadcrumb of SectionUtils.links is the URL of an ancestor node computed with that ancestor\'s own chain, so it lands. Floats: float_carries_caption_label proves that a float with exactly one caption below it, nested at any depth in boxes, font commands or environments, prints that caption\'s id (model of Float.digest over allChildNodes). Navigation entries: nav_entries_are_document_nodes proves that whatever commands, \\begin and \\end instances of link-type macros '
              'the parser invokes, every entry of userdata[links] (links.index.url of the layouts) is a node of the document, never the throw-away \\end instance. Index page: index_group_ids_unique proves that the group headings (one navigation link #id and one heading id per group) have '
              'pairwise distinct ids for every sequence of entries in any order and any transliteration (model of IndexUtils.groups, Model/UrlsIndex.lean), index_every_entry_grouped that no entry is lost. The model is tied to the real code by differential execution of abstract trees through the real '
              'Renderer with stub templates; which templates emit id=/href= is carried by the document stream doc14 '
              '(real HTML5 default/minimal and XHTML default themes, output parsed with html.parser).')
LEVEL_NOTE = ('Trusted: Lean kernel, the correspondence harness and generators, html.parser, the Python document oracle c14doc.py (LaTeX numbering rules '
              'of article/book). Modelled not verified: Jinja2/simpleTAL template expansion (doc14 only), file names (rank of the node among file-producing '
              'nodes; C15), the decimal spelling a%.10d of generated ids.')
TECHNIQUE = 'Lean 4 proof (mutual structural induction over render trees, fresh-identifier invariant) + differential correspondence through the real Renderer + document-level link checker'
TRUSTED = ['templates (which element carries id=, which href=) are tied by the doc14 stream only',
           'python oracle harness/props/c14doc.py (link resolution, LaTeX numbering of article/book)']
ASSUMPTIONS = ['labels pairwise distinct and not of the form a<10 digits> (NF-doc)', 'file names handed out by the Filenames generator are pairwise distinct (C15)',
               'every template reads obj.id before rendering its children (order in which idgen is consumed)',
               'labels inside math contain no underscore (Context.label receives a TeXFragment there: label-handling, outside C14)']
RULE = ('url: random render trees (<= 40 nodes, depth <= 6; 1% with 80-200 nodes) with footnotes in paragraphs and environments, x filename template (default, single-name, other wildcard templates) '
        'x labels (25% of the trees draw labels that collide as file names: S:a/S.a/S-a/S!a, index, sect0001, ...), 85% well-formed (levels nest, labels distinct, document root), 15% malformed; '
        'non-trivial = well-formed, at least two files, at least one node inside a file with a fragment URL, and a toc or reference present; '
        'idx: 1-10 random index keys per case from a 33-key alphabet covering every group kind; non-trivial = at least two groups; cap: 0-2 captions per float, each nested in 0-3 of 8 wrappers; reg: 1-5 index entries / footnotes in one of 17 contexts each; doc14: generated LaTeX documents (index/footnote/cite/ref constructs inside running text, as the sole content of a paragraph, or nested up to two deep in boxes, font commands, environments, list items (directly after \\item, before the first \\item, in \\item[..]) and table cells; float captions set directly or inside \\parbox/\\centerline/center/minipage/\\fbox; equations, theorems and lists inside center/quote/minipage/list items; index keys with accented/Greek initials next to plain ones; 30% with section labels that collide as file names or equal names the template hands out; index keys of every group: letters, digits, symbols, underscore, key@display, |textbf, |see) x configuration incl. filename template; non-trivial = more than one output file and at least one cross-file link; distinct = distinct request line / document+configuration')
EXHAUSTIVE = {}
CASE_TIMEOUT = 30
GENERATED = []

logging.disable(logging.CRITICAL)

DOCLEVEL = -1000000
LEVELNAME = {-1: 'part', 0: 'chapter', 1: 'section', 2: 'subsection', 3: 'subsubsection', 4: 'paragraph', 5: 'subparagraph',
             6: 'subsubparagraph', 101: 'par', 201: 'center', 1001: 'textbf'}
BASES = ['-', '-', '-', 'http://h/b', 'http://h/b/', 'rel/', '/', 'x//']
# filename templates (blanks written as ~ on the request line): the default, templates that name a single file
# (Renderer.render then forces level -10 whatever split-level says), other wildcard templates
TEMPLATES = ['index~[$id,~sect$num(4)]'] * 5 + ['paper', 'paper.html', '~out~', '[$id,~sect$num(4)]',
                                               'index~[$title,~sect$num(4)]', 'start~[$id,~node$num(3)]']
# labels that become the same file name after bad-character substitution, or equal names the template hands out
COLLIDE = ['S:a', 'S.a', 'S-a', 'S!a', 'index', 'sect0001', 'sect0002', 'paper', 'start', 'node001']

# ---------------------------------------------------------------- generation (url stream)

class TreeGen:
    def __init__(self, rng, malformed=False, big=False):
        self.rng, self.mal = rng, malformed
        self.n = 0
        self.labels = []
        self.budget = rng.choice([3, 6, 10, 16, 25, 40]) if not big else rng.choice([80, 120, 200])
        self.big = big
        self.collide = rng.random() < 0.25      # labels whose file names collide

    def label(self):
        r = self.rng
        if r.random() < 0.45:
            return '-'
        if self.mal and self.labels and r.random() < 0.3:
            return r.choice(self.labels)
        self.n += 1
        l = 'L%d' % self.n
        if self.collide:
            cands = [c for c in COLLIDE if c not in self.labels]
            if cands and r.random() < 0.6:
                l = r.choice(cands)
        self.labels.append(l)
        return l

    def node(self, level, counters, foot=False):
        r = self.rng
        self.budget -= 1
        kids = []
        if level < 100:
            # section-like: non-section children first (pars), then deeper sections
            for _ in range(r.choice([0, 0, 1, 2])):
                if self.budget > 0:
                    kids.append(self.node(101, counters))
            nsub = r.choice([0, 0, 1, 2, 3]) if level > DOCLEVEL else r.choice([1, 2, 3])
            if self.big:
                nsub += 3
            for _ in range(nsub):
                if self.budget > 0:
                    if level == DOCLEVEL:
                        lv = r.choice([0, 1, 1]) if not self.mal else r.choice([0, 1, 2, 3])
                    else:
                        lv = level + 1 if r.random() < 0.85 else level + 2
                    if self.mal and r.random() < 0.25:
                        lv = r.choice([-1, 0, 1, 2, 101, 201])
                    if lv <= 6:
                        kids.append(self.node(lv, counters))
        elif level == 101:
            for _ in range(r.choice([0, 1, 1, 2])):
                if self.budget > 0:
                    lv = 201 if r.random() < 0.6 else 1001
                    if self.mal and r.random() < 0.2:
                        lv = r.choice([1, 2, 3])
                    kids.append(self.node(lv, counters, foot=(lv == 1001 and r.random() < 0.6)))
        elif level == 201:
            if r.random() < 0.3 and self.budget > 0:
                kids.append(self.node(1001, counters, foot=r.random() < 0.5))
        lab = self.label() if level != DOCLEVEL else '-'
        num = '-'
        if level != 101 and level != DOCLEVEL and r.random() < 0.8:
            counters[0] += 1
            num = '%d' % counters[0] if r.random() < 0.6 else '%d.%d' % (r.randint(1, 9), counters[0])
        words = ['F' if foot else 'N', str(level), lab, num, str(len(kids))]
        for k in kids:
            words += k
        return words


def gen_url_case(rng, origin='gen', big=False):
    mal = rng.random() < 0.15 and not big
    g = TreeGen(rng, mal, big)
    root = DOCLEVEL
    if mal and rng.random() < 0.3:
        root = rng.choice([0, 1, 2])          # no document node: the root may create no file ('' file name)
    words = g.node(root, [0])
    split = rng.choice([-10, -1, 0, 0, 1, 1, 2, 2, 3, 4, 6])
    depth = rng.choice([0, 1, 2, 3, 3, 5, 9])
    nonf = rng.choice([0, 0, 1])
    base = rng.choice(BASES)
    refs = [rng.choice(g.labels) for _ in range(rng.randint(0, 3)) if g.labels]
    if rng.random() < 0.3:
        refs.append('nolabel')
    tmpl = rng.choice(TEMPLATES)
    line = ' '.join([str(split), str(depth), str(nonf), base, tmpl, str(len(refs))] + refs + words)
    return Case('url', line, {'malformed': mal}, origin)


# ---------------------------------------------------------------- idx stream (groups of the index page)

IDXKEYS = ['alpha', 'Alpha', 'apple', 'beta', 'zeta', 'Zulu', 'omega', 'echo', 'Eccles', 'ufer', 'nadir', 'oslo',
           '2nd', '42', '\\_x', '\\_\\_init', '\\#hash', '\\$var',
           '\u00c9clair', '\u00e9mile', '\u00c4rger', '\u00e4hnlich', '\u00fcber', '\u00d1and\u00fa', '\u00d8rsted', '\u00df-set', '\u00c6on',
           '\u03a9mega', '\u0416uk', 'alpha!sub', 'zeta@\\textbf{zeta}', 'beta|textbf', 'omega|see{alpha}']


def index_doc(keys):
    return ('\\documentclass{article}\\usepackage{makeidx}\\makeindex\\begin{document}' +
            ' '.join('x\\index{%s}' % k for k in keys) + '\\printindex\\end{document}')


def parse_index(keys):
    from plasTeX.TeX import TeX, TeXDocument
    doc = TeXDocument()
    tex = TeX(doc)
    tex.input(index_doc(keys))
    tex.parse()
    return doc.getElementsByTagName('printindex')[0]


def gen_idx_case(rng, origin='gen'):
    """the request line is what the grouping loop reads: for every top-level entry of the *sorted* index the
    transliterated, upper-cased first character of its sort key (sorting is C18's, unidecode a library)"""
    from plasTeX.Base.LaTeX.Index import unidecode
    keys = [rng.choice(IDXKEYS) for _ in range(rng.randint(1, 10))]
    return idx_case_of(keys, origin)


def idx_case_of(keys, origin='shrink'):
    from plasTeX.Base.LaTeX.Index import unidecode
    toks = []
    for it in parse_index(keys):
        try:
            t = unidecode(it.sortkey[0]).upper()
            toks.append('.'.join(str(ord(c)) for c in t) if t else 'e')
        except IndexError:
            toks.append('!')
    return Case('idx', ' '.join(toks), {'keys': keys}, origin)


def run_idx(case):
    pi = parse_index(case.meta['keys'])
    return ';'.join('%s/%s/%d' % (g.title, g.id, sum(len(col) for col in g)) for g in pi.groups)


# ---------------------------------------------------------------- post stream (Renderer.processFileContent)

POSTHTML = {'P': '<p>', '/P': '</p>', 'TD': '<td>', '/TD': '</td>', 'BR': '<br>', 'W': ' \n', 'T': 'some text'}


def gen_post_case(rng, origin='gen'):
    """pages made of paragraphs, cells, blanks, text, empty anchors (index targets), empty elements with an id and
    links; paragraphs whose only content is anchors / blanks are the interesting ones"""
    toks, n = [], 0
    for _ in range(rng.randint(1, 6)):
        r = rng.random()
        inner = []
        for _ in range(rng.choice([0, 1, 1, 2, 3])):
            q = rng.random()
            n += 1
            if q < 0.3: inner.append('A=a%d' % n)
            elif q < 0.45: inner.append('E=e%d' % n)
            elif q < 0.6: inner.append('W')
            elif q < 0.8: inner.append('T')
            elif q < 0.9: inner.append('L=f.html#a%d' % rng.randint(1, n))
            else: inner.append('BR')
        if r < 0.6: toks += ['P'] + inner + ['/P']
        elif r < 0.8: toks += ['TD'] + inner + ['/TD']
        else: toks += inner
        if rng.random() < 0.4: toks.append('W')
    return Case('post', ' '.join(toks), {}, origin)


_post = {}


def run_post(line):
    from html.parser import HTMLParser
    if not _post:
        from plasTeX.TeX import TeXDocument
        from plasTeX.Config import defaultConfig
        from plasTeX.Renderers.HTML5.Config import addConfig
        from plasTeX.Renderers.HTML5 import Renderer as H5
        from plasTeX.Renderers.XHTML import Renderer as XH
        config = defaultConfig()
        addConfig(config)
        doc = TeXDocument(config=config)
        doc.rendererdata['html5'] = {}
        _post.update(doc=doc, H5=H5(), XH=XH())
    parts = []
    for w in line.split():
        if w.startswith('A='): parts.append('<a name="%s" id="%s"></a>' % (w[2:], w[2:]))
        elif w.startswith('E='): parts.append('<span id="%s"></span>' % w[2:])
        elif w.startswith('L='): parts.append('<a href="%s">1</a>' % w[2:])
        else: parts.append(POSTHTML[w])
    page = ''.join(parts)
    out = []
    for name in ('H5', 'XH'):
        s = _post[name].processFileContent(_post['doc'], page)
        ids, hrefs = [], []

        class Pg(HTMLParser):
            def handle_starttag(self, tag, attrs):
                a = dict(attrs)
                if a.get('id') is not None: ids.append(a['id'])
                if a.get('href') is not None: hrefs.append(a['href'])
            handle_startendtag = handle_starttag
        pg = Pg(); pg.feed(s); pg.close()
        out.append('%s:%s|%s' % (name, ','.join(ids), ','.join(hrefs)))
    return ';'.join(out)


# ---------------------------------------------------------------- nav stream (userdata['links'] registered by the parser)

NAVTEX = {'I': '\\printindex', 'X': '\\begin{theindex} \\item alpha, 1 \\end{theindex}',
          'B': '\\begin{thebibliography}{9}\\bibitem{k} Author\\end{thebibliography}', 'S': '\\section{Title} text\\index{alpha}'}
NAVNAME = {'printindex': 'I', 'theindex': 'X', 'thebibliography': 'B', 'section': 'S'}


def gen_nav_case(rng, origin='gen'):
    return Case('nav', ' '.join(rng.choice('SSIXXB') for _ in range(rng.randint(1, 6))), {'cls': rng.choice(['article', 'book'])}, origin)


def run_nav(case):
    """parse a document made of the constructs; for every key of userdata['links']: which construct (position in
    the source) registered it and whether the registered object is a node of the document tree"""
    from plasTeX.TeX import TeX, TeXDocument
    doc = TeXDocument()
    tex = TeX(doc)
    tex.input('\\documentclass{%s}\\usepackage{makeidx}\\makeindex\\begin{document}\n%s\n\\end{document}' %
              (case.meta.get('cls', 'article'), '\n\n'.join(NAVTEX[w] for w in case.line.split())))
    tex.parse()
    order = []

    def walk(n):
        if getattr(n, 'nodeName', None) in NAVNAME:
            order.append(n)
        for k in getattr(n, 'childNodes', []) or []:
            walk(k)
    walk(doc)
    links = doc.userdata.get('links', {})
    out = []
    for key in ('bibliography', 'index'):
        v = links.get(key)
        if v is None:
            out.append('%s=-' % key)
            continue
        pos = [i for i, n in enumerate(order) if n is v]
        out.append('%s=%s' % (key, '%d:tree' % pos[0] if pos else 'x:detached'))
    return ','.join(out)


# ---------------------------------------------------------------- reg stream (link targets registered by the parser)

def reg_contexts():
    return c14doc.W_INLINE + c14doc.W_INDEX_ONLY


def gen_reg_case(rng, origin='gen'):
    ctxs = reg_contexts()
    toks = []
    for _ in range(rng.randint(1, 5)):
        if rng.random() < 0.65:
            toks.append('i%d' % rng.randrange(len(ctxs)))
        else:
            toks.append('f%d' % rng.randrange(len(c14doc.W_INLINE)))
    return Case('reg', ' '.join(toks), {'cls': rng.choice(['article', 'book'])}, origin)


def reg_source(case):
    ctxs = reg_contexts()
    body = []
    for k, t in enumerate(case.line.split()):
        w = ctxs[int(t[1:])]
        body.append(w % ('\\index{key%d}' % k if t[0] == 'i' else 'Word\\footnote{note %d}' % k))
    return ('\\documentclass{%s}\\usepackage{makeidx}\\makeindex\\begin{document}\\section{A}\n%s\n\\printindex\\end{document}' %
            (case.meta.get('cls', 'article'), '\n\n'.join(body)))


def run_reg(case):
    """parse; every object registered as a link target must be reachable from the document node (through child
    nodes and argument fragments): only those are rendered"""
    from plasTeX.TeX import TeX, TeXDocument
    from plasTeX.DOM import Node
    doc = TeXDocument()
    tex = TeX(doc)
    tex.input(reg_source(case))
    tex.parse()
    seen = set()
    todo = [doc]
    while todo:
        n = todo.pop()
        if id(n) in seen:
            continue
        seen.add(id(n))
        todo.extend(getattr(n, 'childNodes', None) or [])
        attrs = getattr(n, 'attributes', None)
        if isinstance(attrs, dict):
            for v in attrs.values():
                if isinstance(v, Node):
                    todo.append(v)
                elif isinstance(v, (list, tuple)):
                    todo.extend(x for x in v if isinstance(x, Node))
    ix = [id(e.node) in seen for e in doc.userdata.get('index', [])]
    fn = [id(f) in seen for f in doc.userdata.get('footnotes', [])]
    return 'index=%d/%d,foot=%d/%d' % (sum(ix), len(ix), sum(fn), len(fn))


# ---------------------------------------------------------------- cap stream (Float.digest: the caption carries the label)

CAPWRAP = {'p': '\\parbox{4cm}{%s}', 'l': '\\centerline{%s}', 'b': '\\fbox{%s}', 't': '\\textbf{%s}', 'x': '\\mbox{%s}',
           'c': '\\begin{center}%s\\end{center}', 'm': '\\begin{minipage}{4cm}%s\\end{minipage}', 'q': '\\begin{quote}%s\\end{quote}'}


def gen_cap_case(rng, origin='gen'):
    toks = []
    for _ in range(rng.choice([1, 1, 1, 1, 2, 0])):
        depth = rng.choice([0, 1, 1, 2, 3])
        toks.append('.'.join(rng.choice('plbtxcmq') for _ in range(depth)) or 'n')
    return Case('cap', ' '.join(toks), {'float': rng.choice(['figure', 'table'])}, origin)


def cap_source(case):
    body = []
    for k, t in enumerate(case.line.split()):
        s = '\\caption{Caption %d}\\label{c%d}' % (k, k)
        for w in reversed([x for x in t.split('.') if x and x != 'n']):
            s = CAPWRAP[w] % s
        body.append(s)
    fl = case.meta.get('float', 'figure')
    return '\\documentclass{article}\\begin{document}\\section{A}\\begin{%s}Picture %s\\end{%s}\\end{document}' % (fl, ' '.join(body), fl)


def run_cap(case):
    """parse; what Float.digest saw (number of captions in allChildNodes) and the id its template will print"""
    from plasTeX.TeX import TeX, TeXDocument
    from plasTeX.Base.LaTeX.Floats import Caption
    doc = TeXDocument()
    tex = TeX(doc)
    tex.input(cap_source(case))
    tex.parse()
    fl = doc.getElementsByTagName(case.meta.get('float', 'figure'))[0]
    n = len([x for x in fl.allChildNodes if isinstance(x, Caption)])
    title = getattr(fl, 'title', None)
    return 'caps=%d,title=%s' % (n, title.id if title is not None and isinstance(title, Caption) else '-')


def generate(ctx):
    rng = ctx.rng
    n = 2000 if ctx.tier == 'quick' else 24000
    for _ in range(n):
        yield gen_url_case(rng)
    for _ in range(n // 100):
        yield gen_url_case(rng, big=True)       # long documents: many generated identifiers in one render
    for _ in range(n // 10):
        yield gen_idx_case(rng)
    for _ in range(n // 4):
        yield gen_post_case(rng)
    for _ in range(n // 20):
        yield gen_nav_case(rng)
    for _ in range(n // 10):
        yield gen_reg_case(rng)
    for _ in range(n // 10):
        yield gen_cap_case(rng)


def corpus():
    C = lambda line: Case('url', line, {'malformed': False}, 'corpus')
    return [
        # index groups: an accented initial sorts after z without a collator but belongs to the group of A
        idx_case_of(['Apfel', 'zeta', '\u00c4rger'], 'corpus'),
        idx_case_of(['\u00df-set', '2nd', '\\_x', 'alpha', '\u00c6on'], 'corpus'),
        # two sections, an equation inside a paragraph, a subsection inside a file; toc + refs
        C('1 3 0 - index~[$id,~sect$num(4)] 2 s1 zz N -1000000 - - 2 N 1 s1 1 2 N 101 - - 1 N 201 e1 1 0 N 2 - 1.1 0 N 1 - 2 0'),
        # base-url with trailing slash, toc-non-files, depth-limited toc (depth 1 < nesting 3)
        C('3 1 1 http://h/b/ index~[$id,~sect$num(4)] 1 L3 N -1000000 - - 1 N 1 L1 1 1 N 2 L2 1.1 1 N 3 L3 1.1.1 1 N 101 - - 1 N 201 L4 7 0'),
        # single file (split -10): every url is index#id
        C('-10 3 0 - index~[$id,~sect$num(4)] 1 L2 N -1000000 - - 2 N 1 L1 1 1 N 101 - - 0 N 1 L2 2 0'),
        # footnotes in a section and in a subsection; a template that names a single file with an ordinary split level
        C('2 3 0 - paper.html 1 s1 N -1000000 - - 1 N 1 s1 1 2 N 101 - - 1 F 1001 - - 0 N 2 - 1.1 1 N 101 - - 1 F 1001 - - 0'),
        C('1 3 0 - index~[$id,~sect$num(4)] 0 N -1000000 - - 1 N 1 s1 1 2 N 101 - - 1 F 1001 - - 0 N 2 - 1.1 1 N 101 - - 1 F 1001 - - 0'),
        # labels that become the same file name (S:a / S.a -> S-a), a section labelled index
        C('1 3 0 - index~[$id,~sect$num(4)] 2 S:a S.a N -1000000 - - 3 N 1 S:a 1 1 N 101 - - 1 N 201 e1 1 0 N 1 S.a 2 1 N 101 - - 1 N 201 e2 2 0 N 1 index 3 0'),
        # root creates no file: '' file name  (implementation vs model only)
        Case('url', '0 3 0 - index~[$id,~sect$num(4)] 0 N 1 L1 1 1 N 2 L2 1.1 0', {'malformed': True}, 'corpus'),
        # duplicate label: last assignment wins in context.labels
        Case('url', '1 3 0 - index~[$id,~sect$num(4)] 1 L1 N -1000000 - - 2 N 1 L1 1 0 N 1 L1 2 0', {'malformed': True}, 'corpus'),
    ]


# ---------------------------------------------------------------- implementation side (url stream)

def parse_words(words, i=0):
    assert words[i] in ('N', 'F')
    foot = words[i] == 'F'
    lv, lab, num, nk = int(words[i + 1]), words[i + 2], words[i + 3], int(words[i + 4])
    i += 5
    kids = []
    for _ in range(nk):
        k, i = parse_words(words, i)
        kids.append(k)
    return {'level': lv, 'label': None if lab == '-' else lab, 'num': '' if num == '-' else num, 'kids': kids, 'foot': foot}, i


def canon_exc(e):
    return 'err:' + type(e).__name__


def run_url(line):
    import plasTeX
    from plasTeX.TeX import TeXDocument
    from plasTeX.Renderers import Renderer, Renderable, mixin, unmix
    from plasTeX.Config import defaultConfig
    from plasTeX.DOM import Node
    from plasTeX.Filenames import Filenames

    w = line.split()
    split, depth, nonf, base, tmpl, nrefs = int(w[0]), int(w[1]), w[2] == '1', w[3], w[4].replace('~', ' '), int(w[5])
    refs = w[6:6 + nrefs]
    tree, end = parse_words(w, 6 + nrefs)
    assert end == len(w)
    config = defaultConfig()
    config['files']['split-level'] = split
    config['files']['filename'] = tmpl
    config['document']['toc-depth'] = depth
    config['document']['toc-non-files'] = nonf
    config['document']['base-url'] = '' if base == '-' else base
    config['images']['imager'] = 'none'
    config['images']['vector-imager'] = 'none'
    doc = TeXDocument(config=config)
    doc.context.loadBaseMacros()
    order = []        # nodes in pre-order
    foots = []        # footnote nodes in pre-order

    def build(t, parent):
        lv = t['level']
        name = 'document' if lv == DOCLEVEL else ('footnote' if t.get('foot') else LEVELNAME[lv])
        n = doc.createElement(name)
        if t.get('foot'):
            # what footnote.invoke does when the parser meets \footnote
            doc.userdata.setdefault('footnotes', []).append(n)
            n.mark = n
            foots.append(n)
        assert n.level == (Node.DOCUMENT_LEVEL if lv == DOCLEVEL else lv), (name, n.level)
        parent.appendChild(n)
        order.append(n)
        if t['label'] is not None:
            doc.context.label(t['label'], n)          # real Context.label: labels[label] = n; n.id = label
        if t['num']:
            n.ref = t['num']
        for k in t['kids']:
            build(k, n)
        return n

    root = build(tree, doc)
    # references (real Context.ref on real ref nodes)
    refnodes = []
    for l in refs:
        r = doc.createElement('ref')
        doc.context.ref(r, 'label', l)
        refnodes.append((l, r))

    first_gen = int(next(plasTeX.idgen)[1:]) + 1      # idgen is a module-level generator: renumber from here
    rank = {}

    def idname(i):
        i = str(i)
        m = re.fullmatch(r'a(\d{10,})', i)
        if m:
            return '@%d' % (int(m.group(1)) - first_gen)
        return i

    obs = {'U': {}, 'T': None, 'N': [], 'R': [], 'owner': {}}
    footidx = {id(n): k for k, n in enumerate(foots)}

    class Stub(Renderer):
        fileExtension = '.html'

        def default(self, node):
            i = node.id
            u = node.url
            obs['U'][id(node)] = str(u)
            return '<%s>%s%s' % (idname(i), '{%d}' % footidx[id(node)] if id(node) in footidx else '', str(node))

        def textDefault(self, s):
            return str(s)

        def cleanup(self, document, files, postProcess=None):
            pass

    r = Stub()
    for name in set(LEVELNAME.values()) | {'document', 'footnote'}:
        r[name] = r.default

    d = tempfile.mkdtemp(prefix='c14u-')
    old = os.getcwd()
    try:
        os.chdir(d)
        doc.userdata['working-dir'] = d
        doc.userdata['jobname'] = 'job'
        if tree['level'] == DOCLEVEL:
            # navigation objects must be read while the Renderable mixin is active: hook the end of the render
            def grab(document, files, postProcess=None):
                collect(root)
            r.cleanup = grab

            def collect(rootnode):
                fmap = filemap()
                def flat(entries):
                    out = []
                    for s in entries:
                        out.append(fmt(str(s.url), fmap, idname))
                        out.extend(flat(s.tableofcontents))
                    return out
                obs['T'] = flat(rootnode.tableofcontents)
                for s in rootnode.allSections:
                    if s.filename:
                        lk = s.links
                        obs['N'].append('%s~%s~%s~%s' % (fmt(str(lk['next'].url), fmap, idname) if lk['next'] is not None else '-',
                                                         fmt(str(lk['prev'].url), fmap, idname) if lk['prev'] is not None else '-',
                                                         fmt(str(lk['up'].url), fmap, idname) if lk['up'] is not None else '-',
                                                         '>'.join(fmt(str(c.url), fmap, idname) for c in lk['breadcrumbs'])))
                for s in order:
                    if s.filename and hasattr(s, 'footnotes'):
                        for fn in s.footnotes:           # what the layout of this file prints in its footer
                            obs['owner'].setdefault(id(fn), []).append(fmap[s.filename])
                for l, rn in refnodes:
                    lab = rn.idref.get('label')
                    if lab is not None and getattr(lab, 'ref', None):     # the condition of the ref template
                        obs['R'].append('%s=%s~%s' % (l, fmt(str(lab.url), fmap, idname), lab.ref if isinstance(lab.ref, str) else lab.ref.textContent))
                    else:
                        obs['R'].append('%s=??' % l)

            def filemap():
                m = {}
                k = 0
                for n in order:
                    f = r.files.get(n)
                    if f is not None:
                        m[f] = 'f%d' % k
                        k += 1
                return m

            r.render(doc)
            fmap = filemap()
            contents = {}
            for n in order:
                f = r.files.get(n)
                if f is not None:
                    contents[fmap[f]] = open(os.path.join(d, f), encoding='utf-8').read()
        else:
            # no document node: nothing can be rendered; exercise filename/url directly under the mixin
            mixin(Node, Renderable)
            try:
                Node.renderer = r
                r.level = split if (' ' in tmpl.strip() or '[' in tmpl.strip()) else -10      # preamble of Renderer.render
                r.newFilename = Filenames(config['files'].get('filename'), (config['files']['bad-chars'], config['files']['bad-chars-sub']),
                                          {'jobname': 'job'}, r.fileExtension)
                r.cacheFilenames(root)
                texts = {}

                def rend(n):
                    i = n.id
                    obs['U'][id(n)] = str(n.url)
                    s = '<%s>%s' % (idname(i), '{%d}' % footidx[id(n)] if id(n) in footidx else '')
                    for k in n.childNodes:
                        ks = rend(k)
                        if r.files.get(k) is not None:
                            texts[r.files[k]] = ks
                        else:
                            s += ks
                    return s
                top = rend(root)
                if r.files.get(root) is not None:
                    texts[r.files[root]] = top
                fmap = {}
                k = 0
                for n in order:
                    f = r.files.get(n)
                    if f is not None:
                        fmap[f] = 'f%d' % k
                        k += 1
                contents = {fmap[f]: t for f, t in texts.items()}
                def flat2(entries):
                    out = []
                    for s in entries:
                        out.append(fmt(str(s.url), fmap, idname))
                        out.extend(flat2(s.tableofcontents))
                    return out
                obs['T'] = flat2(root.tableofcontents) if hasattr(root, 'tableofcontents') else []
                for s in order:
                    if s.filename and hasattr(s, 'footnotes'):
                        for fn in s.footnotes:
                            obs['owner'].setdefault(id(fn), []).append(fmap[s.filename])
                for l, rn in refnodes:
                    lab = rn.idref.get('label')
                    if lab is not None and getattr(lab, 'ref', None):
                        obs['R'].append('%s=%s~%s' % (l, fmt(str(lab.url), fmap, idname), lab.ref))
                    else:
                        obs['R'].append('%s=??' % l)
                obs['N'] = None
            finally:
                unmix(Node, Renderable)
    finally:
        os.chdir(old)
        shutil.rmtree(d, ignore_errors=True)

    sU = ','.join(fmt(obs['U'].get(id(n), '!notrendered'), fmap, idname) for n in order)
    sF = ';'.join('%s=%s' % (f, ','.join(re.findall(r'<([^>]*)>', contents[f]))) for f in sorted(contents, key=lambda x: int(x[1:])))
    sT = ','.join(obs['T'] or [])
    # footnotes: the file the mark was printed in (where the stub's output for the node really ended up) and the
    # file whose section lists the footnote in its `footnotes` (whose layout prints the text)
    X = []
    for k, fn in enumerate(foots):
        tok = '{%d}' % k
        marks = [f for f in sorted(contents) if tok in contents[f]]
        owners = obs['owner'].get(id(fn), [])
        X.append('%s=%s~%s' % (idname(fn.id), '+'.join(marks) or '-', '+'.join(owners) or '-'))
    return sU, sF, sT, obs['N'], ','.join(obs['R']), ','.join(X)


def fmt(url, fmap, idname=None):
    """replace the real file name inside a URL by its rank name f<k>, generated ids by @n"""
    m = re.match(r'^(.*?)([^/#]*)(#.*)?$', url, re.S)
    pre, f, frag = m.group(1), m.group(2), m.group(3) or ''
    f = fmap.get(f, f)
    s = pre + f + frag
    return fixids(s, idname) if idname else s


def fixids(s, idname):
    return re.sub(r'a\d{10,}', lambda m: idname(m.group(0)), s)


_FIRST = [None]


def impl(case, aux):
    if case.stream == 'cap':
        try:
            return run_cap(case)
        except Exception as e:
            return canon_exc(e)
    if case.stream == 'reg':
        try:
            return run_reg(case)
        except Exception as e:
            return canon_exc(e)
    if case.stream == 'nav':
        try:
            return run_nav(case)
        except Exception as e:
            return canon_exc(e)
    if case.stream == 'post':
        try:
            return run_post(case.line)
        except Exception as e:
            return canon_exc(e)
    if case.stream == 'idx':
        try:
            return run_idx(case)
        except Exception as e:
            return canon_exc(e)
    try:
        sU, sF, sT, N, sR, sX = run_url(case.line)
    except AssertionError:
        raise
    except Exception as e:
        import traceback
        case.meta['trace'] = traceback.format_exc()[-600:]
        return canon_exc(e)
    # the remaining generated ids inside T/N were formatted with the file map only: normalise now
    return 'U:%s|F:%s|T:%s|N:%s|R:%s|X:%s' % (sU, sF, sT, ','.join(N) if N is not None else '*', sR, sX)


def parse_obs(s):
    parts = dict(p.split(':', 1) for p in s.split('|'))
    return parts


def oracle(obs, base):
    """property verdict on an observation string (python re-statement of Spec.Links for the search/judge)"""
    try:
        p = parse_obs(obs)
    except Exception:
        return 'bad:unparsable'
    b = base
    if b.endswith('/') and b:
        b = b[:-1]
    files = {}
    for f in [x for x in p['F'].split(';') if x]:
        name, ids = f.split('=', 1)
        files[name] = [i for i in ids.split(',') if i != '']
    def land(u):
        if b and u.startswith(b + '/'):
            u = u[len(b) + 1:]
        f, _, frag = u.partition('#')
        if f not in files:
            return False
        return ('#' not in u) or (frag in files[f])
    links = [x for x in p['U'].split(',') if x] + [x for x in p['T'].split(',') if x]
    nexts = []
    if p['N'] != '*':
        for i, x in enumerate([x for x in p['N'].split(',') if x]):
            nx, pv, up, crumbs = x.split('~')
            for y in [nx, pv, up] + crumbs.split('>'):
                if y != '-' and y != '':
                    links.append(y)
            nexts.append(nx)
    for x in [x for x in p['R'].split(',') if x]:
        l, v = x.split('=', 1)
        if v != '??':
            links.append(v.rsplit('~', 1)[0])
    landall = all(land(u) for u in links)
    uniq = all(len(set(v)) == len(v) for v in files.values())
    def fileof(u):
        if b and u.startswith(b + '/'):
            u = u[len(b) + 1:]
        return u.partition('#')[0]
    reached = {'f0'} | {fileof(u) for u in p['T'].split(',') if u}
    # closure through next: sections in N are in document order of file sections
    order = [fileof(u) for u in p['U'].split(',') if u and '#' not in u]
    # map N entries to their section: the k-th N entry is the k-th file section in pre-order = order[k]
    changed = True
    while changed:
        changed = False
        for k, nx in enumerate(nexts):
            if k < len(order) and order[k] in reached and nx != '-' and fileof(nx) not in reached:
                reached.add(fileof(nx)); changed = True
    reach = set(files) <= reached
    foot = True
    for x in [x for x in p.get('X', '').split(',') if x]:
        i, v = x.rsplit('=', 1)
        mark, owner = v.split('~')
        if mark == '-' or mark != owner or mark not in files:
            foot = False          # the mark's href '#id' has no target in its own file
    if landall and uniq and reach and foot:
        return 'ok'
    return 'bad:land=%s:uniq=%s:reach=%s:foot=%s' % (str(landall).lower(), str(uniq).lower(), str(reach).lower(), str(foot).lower())


def judge(o):
    o.corr_ok = (o.impl == o.model)
    if o.case.stream == 'cap':
        # a float with exactly one caption must print that caption's id (the label a \\ref links to)
        one = len(o.case.line.split()) == 1
        o.prop_ok = o.spec == 'ok' and (not one or o.impl.endswith('title=c0'))
        if not o.prop_ok:
            o.note = 'the float does not carry the id of its only caption; source: ' + cap_source(o.case)
        return
    if o.case.stream == 'reg':
        o.prop_ok = o.corr_ok          # the model is the requirement: registered = attached, nothing lost
        if not o.prop_ok:
            o.note = 'a registered link target (index entry / footnote) is not a node of the document; source: ' + reg_source(o.case)[:400]
        return
    if o.case.stream == 'nav':
        o.prop_ok = 'detached' not in o.impl and not o.impl.startswith('err:') and o.spec == 'ok'
        if not o.prop_ok:
            o.note = 'a navigation entry of userdata[links] is not a node of the document: its URL names nothing that is rendered'
        return
    if o.case.stream == 'post':
        o.prop_ok = o.corr_ok          # the model *is* the requirement: identifiers and links survive post-processing
        if not o.prop_ok:
            o.note = 'post-processing changed the identifiers/links of the page'
        return
    if o.case.stream == 'idx':
        ids = [g.split('/')[-2] for g in o.impl.split(';') if g] if not o.impl.startswith('err:') else None
        o.prop_ok = ids is not None and len(set(ids)) == len(ids) and o.spec == 'ok'
        if not o.prop_ok:
            o.note = 'group ids on the index page: %r (each navigation link #id needs exactly one heading)' % (ids,)
        return
    if o.spec == '-':
        o.prop_ok = True
        return
    base = o.case.line.split()[3]
    v = oracle(o.impl, '' if base == '-' else base) if not o.impl.startswith('err:') else o.impl
    # numbers shown by resolved references: compared through the model equality; here: the oracle verdict and the spec verdict
    o.prop_ok = (v == 'ok' and o.spec == 'ok')
    if not o.prop_ok:
        o.note = 'oracle on implementation output: %s; spec on model output: %s' % (v, o.spec)


def nontrivial(o):
    if o.spec != 'ok' or o.impl.startswith('err'):
        return False
    if o.case.stream == 'idx':
        return o.impl.count(';') >= 1
    if o.case.stream == 'post':
        return 'A=' in o.case.line and 'P' in o.case.line.split()
    if o.case.stream == 'nav':
        return 'tree' in o.impl
    if o.case.stream == 'reg':
        return True
    if o.case.stream == 'cap':
        return len(o.case.line.split()) == 1 and o.case.line != 'n'
    p = parse_obs(o.impl)
    return p['F'].count('=') >= 2 and '#' in p['U'] and (p['T'] != '' or '~' in p['R'])


def shrink(ctx, o, evaluate):
    """drop subtrees / references while the failure persists"""
    if o.case.stream == 'cap':
        best, improved = o, True
        while improved:
            improved = False
            toks = best.case.line.split()
            cands = [toks[:i] + toks[i + 1:] for i in range(len(toks)) if len(toks) > 1]
            for i, t in enumerate(toks):
                ws = t.split('.')
                if t != 'n':
                    for j in range(len(ws)):
                        cands.append(toks[:i] + ['.'.join(ws[:j] + ws[j + 1:]) or 'n'] + toks[i + 1:])
            for c in cands:
                r = evaluate([Case('cap', ' '.join(c), dict(best.case.meta), 'shrink')])[0]
                if not r.prop_ok:
                    best, improved = r, True
                    break
        return best
    if o.case.stream not in ('url', 'reg', 'nav', 'post', 'idx'):
        return o
    if o.case.stream == 'reg':
        best, improved = o, True
        while improved:
            improved = False
            w = best.case.line.split()
            for i in range(len(w)):
                if len(w) > 1:
                    r = evaluate([Case('reg', ' '.join(w[:i] + w[i + 1:]), dict(best.case.meta), 'shrink')])[0]
                    if not r.prop_ok:
                        best, improved = r, True
                        break
        return best
    if o.case.stream == 'nav':
        best, improved = o, True
        while improved:
            improved = False
            w = best.case.line.split()
            for i in range(len(w)):
                if len(w) > 1:
                    r = evaluate([Case('nav', ' '.join(w[:i] + w[i + 1:]), dict(best.case.meta), 'shrink')])[0]
                    if ((not r.prop_ok) if not o.prop_ok else (not r.corr_ok)):
                        best, improved = r, True
                        break
        return best
    if o.case.stream == 'post':
        best, improved = o, True
        while improved:
            improved = False
            w = best.case.line.split()
            for i in range(len(w)):
                r = evaluate([Case('post', ' '.join(w[:i] + w[i + 1:]), {}, 'shrink')])[0]
                if not r.prop_ok:
                    best, improved = r, True
                    break
        return best
    if o.case.stream == 'idx':
        best, improved = o, True
        while improved:
            improved = False
            keys = best.case.meta['keys']
            for i in range(len(keys)):
                c = idx_case_of(keys[:i] + keys[i + 1:])
                r = evaluate([c])[0]
                if ((not r.prop_ok) if not o.prop_ok else (not r.corr_ok)):
                    best, improved = r, True
                    break
        return best
    best = o
    improved = True
    while improved:
        improved = False
        w = best.case.line.split()
        nrefs = int(w[5])
        head, refs, tw = w[:5], w[6:6 + nrefs], w[6 + nrefs:]
        tree, _ = parse_words(tw)
        cands = []
        for i in range(len(refs)):
            cands.append((refs[:i] + refs[i + 1:], tree))
        for t2 in drop_one(tree):
            cands.append((refs, t2))
        cs = [Case('url', ' '.join(head + [str(len(r))] + r + unparse(t)), dict(best.case.meta), 'shrink') for r, t in cands]
        for r in evaluate(cs):
            if (not r.prop_ok) if not o.prop_ok else (not r.corr_ok):      # keep the kind of failure being minimised
                best = r
                improved = True
                break
    return best


def unparse(t):
    w = ['F' if t.get('foot') else 'N', str(t['level']), t['label'] or '-', t['num'] or '-', str(len(t['kids']))]
    for k in t['kids']:
        w += unparse(k)
    return w


def drop_one(t):
    for i in range(len(t['kids'])):
        yield dict(t, kids=t['kids'][:i] + t['kids'][i + 1:])
    for i, k in enumerate(t['kids']):
        for k2 in drop_one(k):
            yield dict(t, kids=t['kids'][:i] + [k2] + t['kids'][i + 1:])


def search(ctx, evaluate, corr_bad):
    """proof or tie broken: shrink the disagreeing cases and run a larger seeded batch against the oracle;
    then the document stream with a bigger budget"""
    for o in corr_bad[:5]:
        if o.spec != '-':
            s = shrink(ctx, o, evaluate)
            if not s.prop_ok:
                return Violation('implementation output violates the link property (found by search from a model disagreement)',
                                 {'kind': 'failing-input', 'outcome': s.to_json()})
    rng = _random.Random(ctx.seed + 7919)
    cases = ([gen_url_case(rng, 'search') for _ in range(4000)] + [gen_url_case(rng, 'search', big=True) for _ in range(400)] +
             [gen_idx_case(rng, 'search') for _ in range(400)] + [gen_post_case(rng, 'search') for _ in range(2000)] + [gen_nav_case(rng, 'search') for _ in range(300)] + [gen_reg_case(rng, 'search') for _ in range(600)] + [gen_cap_case(rng, 'search') for _ in range(600)])
    bad = [o for o in evaluate(cases) if not o.prop_ok]
    if bad:
        o = shrink(ctx, bad[0], evaluate)
        return Violation('implementation output violates the link property (found by search)', {'kind': 'failing-input', 'outcome': o.to_json()})
    v, _ = doc_batch(ctx, _random.Random(ctx.seed + 104729), 250)
    return v[0] if v else None


# ---------------------------------------------------------------- document level (doc14)

def doc_witnesses():
    d = os.path.join(os.path.dirname(os.path.dirname(os.path.dirname(os.path.abspath(__file__)))), 'corpus', 'C14')
    res = []
    if os.path.isdir(d):
        for f in sorted(os.listdir(d)):
            if f.endswith('.json'):
                w = json.load(open(os.path.join(d, f)))
                if 'extra' in w:
                    res.append((f, w['extra']))
    return res


def doc_batch(ctx, rng, n):
    viol, samples, distinct = [], [], set()
    evals = 0
    for i in range(n):
        doc = c14doc.gen_document(rng)
        cfg = c14doc.gen_config(rng)
        probs, summ = c14doc.check(doc, cfg)
        evals += 1
        ctx.count('doc14:%s/%s' % (cfg['renderer'], cfg['theme']))
        ctx.count('doc14:split=%d' % cfg['split'])
        if summ.get('files', 0) > 1 and summ.get('cross', 0) > 0:
            distinct.add(doc['source'] + json.dumps(cfg, sort_keys=True))
        if i < 2:
            samples.append({'document': doc['source'][:600], 'config': cfg, 'summary': summ, 'problems': probs})
        if probs:
            doc, cfg, probs = shrink_doc(doc, cfg, probs)
            viol.append(Violation('document level: ' + probs[0], {'kind': 'failing-input', 'extra': {'doc': doc, 'cfg': cfg},
                                                                   'observed': probs[:8],
                                                                   'expected': 'every internal href names a produced file and an existing id; ids unique per file; '
                                                                               'a resolved reference shows the number of its target; every file reachable when a toc is present'}))
            break
    return viol, {'evaluations': evals, 'distinct_nontrivial': len(distinct), 'samples': samples, 'stream': 'doc14'}


def shrink_doc(doc, cfg, probs):
    """line-based delta debugging of the LaTeX body keeping the same class of problem"""
    kind = probs[0].split(':')[0]
    lines = doc['source'].split('\n')
    def test(ls):
        d2 = dict(doc, source='\n'.join(ls))
        if any(('\\label{%s}' % l) not in d2['source'] for i, l in enumerate(doc['refs'])
               if l is not None and re.search(r'(RF|PG)%d(RF|PG)' % (i + 1), d2['source'])):
            return None      # never cut the definition of a label that is still referenced
        # references whose marker disappeared are no longer checked
        keep = [(i, l) for i, l in enumerate(doc['refs']) if re.search(r'(RF|PG)%d(RF|PG)' % (i + 1), d2['source'])]
        d2 = dict(d2, refs=[l if re.search(r'(RF|PG)%d(RF|PG)' % (i + 1), d2['source']) else None for i, l in enumerate(doc['refs'])])
        try:
            p, _ = c14doc.check(d2, cfg)
        except Exception:
            return None
        p = [x for x in p if x.split(':')[0] == kind]
        return (d2, p) if p else None
    i = 0
    budget = 60
    while i < len(lines) and budget > 0:
        if lines[i].startswith('\\documentclass') or lines[i].startswith('\\begin{document}') or lines[i].startswith('\\end{document}') \
                or lines[i].startswith('\\newtheorem') or lines[i].startswith('\\usepackage'):
            i += 1
            continue
        cand = lines[:i] + lines[i + 1:]
        budget -= 1
        r = test(cand)
        if r:
            lines = cand
            doc, probs = r
        else:
            i += 1
    return doc, cfg, probs


def extra_checks(ctx):
    rng = _random.Random(ctx.seed * 31 + 14)
    n = 150 if ctx.tier == 'quick' else 2000
    viol = []
    # witnesses of repaired defects first (they must hold now)
    for name, extra in doc_witnesses():
        probs, _ = c14doc.check(extra['doc'], extra['cfg'])
        if probs:
            viol.append(Violation('document level (corpus %s): %s' % (name, probs[0]),
                                  {'kind': 'failing-input', 'extra': extra, 'observed': probs[:8]}))
            break
    v2, stats = doc_batch(ctx, rng, n) if not viol else ([], {'evaluations': 0, 'distinct_nontrivial': 0, 'samples': [], 'stream': 'doc14'})
    return viol + v2, stats


def replay_extra(ctx, extra):
    probs, summ = c14doc.check(extra['doc'], extra['cfg'])
    print('replay doc14:', probs or 'holds', summ)
    return bool(probs)
