"""C06 - the document tree stays a consistent tree under any sequence of DOM edits.

stream
  hist : `<pool words> ; <op> ; <op> ...` - a pool of nodes created by a fresh `Document` (elements, text nodes,
         fragments) and a history of editing operations on them (see lean/PlasVerif/Driver/C06.lean for the syntax).
         The driver replays the history on the heap model (Model/Dom.lean) and on the list-of-lists model
         (Spec/DomTree.lean) and dumps the final state; the implementation side replays it on real plasTeX.DOM
         objects and dumps the same observation: for every node reachable from the pool (canonical numbering:
         registered nodes first, then preorder discovery) kind/name/text, child list, parentNode, ownerDocument,
         firstChild/lastChild/previousSibling/nextSibling, textContent, getElementsByTagName for two names, and the
         compareDocumentPosition matrix of the first 7 nodes.
judge: implementation == model on everything; inside the property's domain (spec != '-') the child lists and the
       derived views must equal the list model's, and the invariant (parent links, no duplicates, owner) must hold
       on the real objects.  A Python oracle recomputes textContent / element lookup from the observed child lists
       for every history (also outside the spec's domain, e.g. attribute-held fragments).
"""
import itertools, json, os, random
from framework import Case, Violation, VERIF

ID = 'C06'
LEAN_MODULE = 'PlasVerif.Properties.C06'
LEVEL_TEXT = ('Lean 4 theorems over a line-by-line heap model of plasTeX/DOM (Model/Dom.lean). forest_reachable: after every history, of any '
              'length, of the sixteen editing operations (append, insert, pop, removeChild, insertBefore, insertAfter, replaceChild, item '
              'assignment, extend; each with single-node and with fragment arguments, any index or reference) every child listed by a '
              'non-fragment node names it as parentNode, nothing is listed twice, no node is its own descendant, every node keeps its creating '
              'document, the heap stays well-formed and below every non-fragment node it is a tree -- provided each argument is detached (or, '
              'for the moving operations, a child of the receiver), allocated and not an ancestor of the receiver. *_refines_list: every '
              'operation equals the plain list operation of the list-of-lists model and leaves every other list alone; *_commutes: whenever the '
              'executable Spec accepts an operation the model produces the child lists it predicts; setItem_out_of_range_raises (O3). Views: '
              'first_last, siblings_are_neighbours, textContent_is_concat, getElementsByTagName_is_preorder_filter, also without the NoAlias '
              'hypothesis (tree unfolded through childNodes; kernel-checked counterexample for the unrepaired getElementsByTagName). '
              'clone_equal_disjoint: a deep clone has the same shape, disjoint node ids, no parent and is listed nowhere; the original is '
              'untouched. normalize_refines_tree: heap-level normalize computes Tree.normalize (pop-all-then-rebuild) and touches nothing '
              'outside the subtree; corollaries at heap level: text content preserved, no adjacent text nodes, idempotent. '
              'compareDocumentPosition_agrees_all: for every pair of nodes whose parent chains are real list memberships the answer equals '
              'the list model comparePos (same node, adjacent siblings, ancestor/descendant, two branches of one tree decided at the lowest '
              'common ancestor, different trees). clone_isEqualNode: a deep clone is == its original both ways (model eqNode, compared with == / isEqualNode '
              'of the real objects at every clone); clone_keeps_forest, normalize_keeps_forest, forest_reachable_all: every history mixing '
              'the list operations with cloneNode(True) and normalize stays a well-formed forest (parent links, no duplicates, no cycle, '
              'owner documents, well-formed lists). normalize_attribute_fragments(_no_adjacent_text): normalize of a node normalises its own subtree and the fragment it holds '
              'under another attribute key (fragment subtree a tree disjoint from the node subtree, no nested attribute fragments). '
              'Carried by correspondence only: nested attribute fragments under other keys; and edits through attribute-held (self) fragments.')
LEVEL_NOTE = ('Trusted: Lean kernel (axioms propext, Classical.choice, Quot.sound), the correspondence harness (state-deduplicated exhaustive histories, '
              'random histories to length 40), CPython. Editing theorems assume NoAlias (no node uses attributes[self] as its child list); the view '
              'theorems do not. Theorems about clone/normalize/compare are stated for every unfolding depth below the recursion fuel of the driver '
              '(next+2). Modelled not verified: plain str arguments (createTextNode shortcut), toXML, user data, namespace stubs, '
              'importNode/adoptNode, __eq__/__lt__.')
TECHNIQUE = 'Lean 4 proof (invariants + refinement over a heap model, induction over histories, allocation-frame arguments; mutual induction on trees) + differential correspondence'
TRUSTED = ['edits through the self-attribute aliasing and the normalisation of nested fragments under other attribute keys are tied by the hist stream only']
ASSUMPTIONS = ['arguments are nodes (not plain str); every node is created by the one Document of the history',
               'operations that make the Python loop iterate a list it extends (fragment into itself) are not executed on the real code',
               'a history stops (both sides answer `cyclic`) as soon as a node becomes its own descendant; generators avoid such operations',
               'editing theorems assume no attributes[self] aliasing (NoAlias); histories with aliasing are compared with the model and a Python oracle only']
RULE = ('the implementation runner reads the derived views (textContent, getElementsByTagName, first/last child, siblings) of every reachable node after every operation of a history, so a view that remembers an earlier answer shows up in the final observation; every history is also executed a second time on fresh objects without any read before the end (reading childNodes creates the child list of an element that never had one, and normalize / cloneNode / the self attribute treat such elements differently), and that run is judged too; '
        'oracles besides the list model: at every cloneNode(True) the clone must be == its original (both directions, isEqualNode) and share no node with it; after every normalize no two text nodes may be adjacent anywhere below the node, attribute-held fragments included; an attributes[self] fragment must list exactly the children of its element and belong to one element only; '
        'exhaustive: breadth-first over all pool operations, histories reaching an already seen full observation are not extended; random: seeded '
        'histories to length 40 with ~15% malformed operations (out-of-range indexes, attached arguments, absent references); '
        'non-trivial = spec defined, no error, and at least one node has two or more children or a grandchild; distinct = distinct request line')
EXHAUSTIVE = {'quick': 'three more enumerations over the pool E0 E1 T T F start from an attribute-held fragment (empty and pre-filled `self` fragment = the child list; a fragment with adjacent text under the key `title` of an element that never had a child list), every operation at length 1 and every enabled one at length 2 after the prefix; '
                       'pool E0 E1 T T F (+ document): every history of length <= 2 over the full operation alphabet and every history of '
                       'length <= 4 over the precondition-enabled alphabet, breadth-first, a history whose full observation (graph + views) was '
                       'already reached by an earlier history is not extended; the run records exhaustive:capped if the case cap cut it short',
              'thorough': 'pool E0 E1 T T F: length <= 3 full alphabet, length <= 4 enabled alphabet; pool E0 E1 T F: length <= 2 full alphabet, '
                          'length <= 5 enabled alphabet; same state-deduplicated breadth-first enumeration'}
CASE_TIMEOUT = 3
GENERATED = []

# ---------------------------------------------------------------- the real code


def _dom():
    import plasTeX.DOM as D
    return D


class OpTimeout(BaseException):
    pass


GEN = {'timeouts': 0, 'poison': set()}         # real-code calls that ran into the time limit while *generating* (budget, see generate)
GEN_TIMEOUT_BUDGET = 40


OP_LIMIT = {'seconds': 0.5}


def limited(fn, seconds=None):
    """run a call into the real code under a CPU-time limit of its own (SIGVTALRM: independent of the framework's
    per-case SIGALRM limit and of the load of the machine); a faulty tree may loop for ever in any operation"""
    import signal, gc

    def handler(*a):
        raise OpTimeout()
    if seconds is None:
        seconds = OP_LIMIT['seconds']
    was = gc.isenabled()
    gc.disable()          # a full collection over the outcomes of 10^5 cases must not be charged to the operation
    old = signal.signal(signal.SIGVTALRM, handler)
    signal.setitimer(signal.ITIMER_VIRTUAL, seconds)
    try:
        return fn()
    finally:
        signal.setitimer(signal.ITIMER_VIRTUAL, 0)
        signal.signal(signal.SIGVTALRM, old)
        if was:
            gc.enable()


class World:
    def __init__(self, pool):
        D = _dom()
        self.D = D
        self.doc = D.Document()
        self.reg = [self.doc]
        self.spent = set()       # fragments already given as an argument (only used to steer generation)
        self.flags = []          # oracle observations made at cloneNode(True) / normalize time
        for w in pool:
            if w == 'F':
                self.reg.append(self.doc.createDocumentFragment())
            elif w[0] == 'E':
                self.reg.append(self.doc.createElement('n' + w[1:]))
            elif w[0] == 'T':
                self.reg.append(self.doc.createTextNode(''.join(chr(int(c)) for c in w[1:].split('_') if c)))
            else:
                raise ValueError(w)

    # -- helpers used for the static divergence guard and for generation
    def is_frag(self, n):
        return n.nodeType == self.D.Node.DOCUMENT_FRAGMENT_NODE

    def is_text(self, n):
        return isinstance(n, str)

    def kids(self, n):
        return [] if self.is_text(n) else list(n)

    def cnlist(self, n):
        """the Python list object behind n.childNodes (None when there is none yet)"""
        if self.is_text(n) or not n.hasChildNodes():
            return None
        c = n.childNodes
        while not isinstance(c, list):
            if not c.hasChildNodes():
                return None
            c = c.childNodes
        return c

    def splices(self, s, c):
        if not self.is_frag(c):
            return False
        a, b = self.cnlist(c), self.cnlist(s)
        if c is s and a is None:
            return False
        if a is None or not a:
            return False
        sa = getattr(s, 'attributes', None)
        if sa and sa.get('self') is c:
            return True
        return a is b

    def run(self, op):
        """execute one operation under a time limit; returns the canonical error name, 'ok', or 'timeout' (the real
        code did not return: the objects are left in an unknown, possibly huge state and the world is dead)"""
        if getattr(self, 'dead', False):
            return 'timeout'
        try:
            return limited(lambda: self._run(op))
        except OpTimeout:
            self.dead = True
            return 'timeout'

    def _run(self, op):
        D = self.D
        k = op[0]
        a = [int(x) for x in op[1:]]
        r = self.reg
        for j in {'ap': [1], 'in': [2], 'si': [2], 'ib': [1], 'ia': [1], 'rp': [1], 'xn': [1]}.get(k, range(1, len(a)) if k == 'ex' else []):
            if j < len(a) and 0 <= a[j] < len(r) and self.is_frag(r[a[j]]):
                self.spent.add(id(r[a[j]]))
        try:
            if k == 'ap':
                if self.splices(r[a[0]], r[a[1]]): return 'diverge'
                r[a[0]].append(r[a[1]])
            elif k == 'in':
                if self.splices(r[a[0]], r[a[2]]): return 'diverge'
                r[a[0]].insert(a[1], r[a[2]])
            elif k == 'pp':
                r[a[0]].pop(a[1])
            elif k == 'rm':
                r[a[0]].removeChild(r[a[1]])
            elif k in ('ib', 'ia', 'rp'):
                s, new, ref = r[a[0]], r[a[1]], r[a[2]]
                if self.is_frag(new) and any(x is ref for x in self.kids(s)) and self._splices_after_remove(s, new):
                    # the Python loop would not terminate: perform the part before it (the removal) and stop
                    try: s.removeChild(new)
                    except D.NotFoundErr: pass
                    if k == 'rp':
                        for i, item in enumerate(s):
                            if item is ref:
                                s.pop(i)
                                if not self.splices(s, new):      # the fragment is empty now: the splice loop ends at once
                                    s.insert(i, new)
                                    return 'ok'
                                break
                    return 'diverge'
                {'ib': s.insertBefore, 'ia': s.insertAfter, 'rp': s.replaceChild}[k](new, ref)
            elif k == 'si':
                if self.splices(r[a[0]], r[a[2]]): return 'diverge'
                r[a[0]][a[1]] = r[a[2]]
            elif k == 'ex':
                s = r[a[0]]
                items = [r[c] for c in a[1:]]
                if any(self.is_frag(c) and (c is s or (getattr(s, 'attributes', None) or {}).get('self') is c) for c in items):
                    for c in items:          # the same loop as Node.extend, stopping where Python would never return
                        if self.splices(s, c): return 'diverge'
                        s.append(c)
                else:
                    s.extend(items)
            elif k == 'xn':
                s, o = r[a[0]], r[a[1]]
                lo, ls = self.cnlist(o), self.cnlist(s)
                if not self.is_text(o) and lo is not None and lo and (lo is ls):
                    return 'diverge'
                if self.is_text(o):
                    return 'bad'
                s.extend(o)
            elif k == 'nm':
                try:
                    r[a[0]].normalize()
                except Exception:
                    self.flags.append('n-')
                    raise
                self.flags.append('n%d' % (0 if self.adjacent_below(r[a[0]]) else 1))
            elif k == 'cl':
                s = r[a[0]]
                c = s.cloneNode(bool(a[1]))
                r.append(c)
                if a[1]:
                    def bit(f):
                        try:
                            return '1' if f() else '0'
                        except Exception:
                            return '0'
                    self.flags.append('q%s%sd%s' % (bit(lambda: c == s and s.isEqualNode(c)), bit(lambda: s == c and c.isEqualNode(s)),
                                                    bit(lambda: self.disjoint_below(c, s))))
            elif k == 'sa':
                # the model takes the fragment as the child list from now on; the real code does so only when the element's
                # child list has not been materialised yet (also `==` and cloneNode materialise it): other histories are not valid
                if self.is_text(r[a[0]]) or self.is_frag(r[a[0]]) or hasattr(r[a[0]], '_dom_childNodes'):
                    return 'bad'
                r[a[0]].attributes['self'] = r[a[1]]
            elif k == 'st':
                r[a[0]].attributes['title'] = r[a[1]]
            else:
                raise ValueError(op)
            return 'ok'
        except IndexError:
            return 'IndexError'
        except D.NotFoundErr:
            return 'NotFoundErr'
        except AttributeError:
            return 'AttributeError'
        except TypeError:
            return 'TypeError'
        except RecursionError:
            return 'RecursionError'

    def _splices_after_remove(self, s, new):
        a = self.cnlist(new)
        return bool(a) and (a is self.cnlist(s) or (getattr(s, 'attributes', None) or {}).get('self') is new)

    def attr_node(self, n, key):
        a = None if self.is_text(n) else getattr(n, 'attributes', None)
        v = a.get(key) if a else None
        return v if isinstance(v, self.D.Node) else None

    def below(self, s, with_title):
        """everything reachable from s through child lists and attribute-held fragments"""
        seen, ids = [s], {id(s)}

        def visit(n):
            nxt = self.kids(n) + [x for x in ([self.attr_node(n, 'self')] + ([self.attr_node(n, 'title')] if with_title else []))
                                  if x is not None]
            for c in nxt:
                if id(c) not in ids:
                    ids.add(id(c)); seen.append(c)
                    visit(c)
        visit(s)
        return seen

    def adjacent_below(self, s):
        for n in self.below(s, True):
            prev = False
            for c in self.kids(n):
                cur = self.is_text(c)
                if cur and prev:
                    return True
                prev = cur
        return False

    def disjoint_below(self, c, s):
        orig = {id(x) for x in self.below(s, False)}
        return not any(id(x) in orig for x in self.below(c, False))

    def edges(self, n):
        t = self.attr_node(n, 'title')
        return self.kids(n) + ([t] if t is not None else [])

    def peek(self):
        """read the derived views of every reachable node in the middle of a history: reading is an observation, so the
        final observation (and every later read) must be what the child lists say, whatever was read before"""
        for n in self.order():
            try:
                n.textContent
                n.getElementsByTagName('n0')
                n.firstChild; n.lastChild; n.previousSibling; n.nextSibling
            except RecursionError:
                raise
            except Exception:
                pass

    def cyclic_from(self, starts):
        """does one of the nodes whose list just changed reach itself?  (equivalent to `cyclic` when the state before the
        operation was acyclic: every new edge leaves one of these nodes)"""
        for u in starts:
            seen = set()
            stack = list(self.edges(u))
            while stack:
                n = stack.pop()
                if n is u:
                    return True
                if id(n) in seen:
                    continue
                seen.add(id(n))
                stack.extend(self.edges(n))
        return False

    def cyclic(self):
        """is some node its own descendant (through the child lists and the title attribute)?"""
        nodes = self.order()
        rem = {id(n) for n in nodes}
        while True:
            keep = [n for n in nodes if id(n) in rem and any(id(c) in rem for c in self.edges(n))]
            if len(keep) == len(rem):
                return bool(rem)
            rem = {id(n) for n in keep}
            if not rem:
                return False

    # -- observation
    def order(self):
        seen = list(self.reg)
        ids = {id(x) for x in seen}

        def visit(n):
            for c in self.kids(n):
                if id(c) not in ids:
                    ids.add(id(c)); seen.append(c)
                    visit(c)
        for x in list(self.reg):
            visit(x)
        return seen

    def dump(self, err, light=False):
        """the final observation; `light`: only what is stored (labels, child lists, parent, owner, attribute fragments,
        flags), none of the derived views -- see `_light`"""
        D = self.D
        ordl = self.order()
        ix = {id(x): i for i, x in enumerate(ordl)}

        def I(x):
            if x is None: return '-'
            return str(ix.get(id(x), '?'))

        def L(xs):
            return ','.join(I(x) for x in xs)

        def chars(s):
            return '_'.join(str(ord(c)) for c in s)
        out = []
        for n in ordl:
            t = n.nodeType
            if self.is_text(n):
                head = 'T0.' + chars(str.__str__(n))
            else:
                kind = {D.Node.DOCUMENT_NODE: 'D', D.Node.ELEMENT_NODE: 'E', D.Node.DOCUMENT_FRAGMENT_NODE: 'F'}[t]
                head = kind + (n.nodeName[1:] if kind == 'E' else '0') + '.'
            if light:
                out.append('%s:%s:%s:%s:%s:%s' % (head, L(self.kids(n)), I(n.parentNode), I(n.ownerDocument),
                                                  I(self.attr_node(n, 'self')), I(self.attr_node(n, 'title'))))
                continue
            try:
                tc = chars(str.__str__(n.textContent))
                g0 = L(n.getElementsByTagName('n0')); g1 = L(n.getElementsByTagName('n1'))
            except RecursionError:
                tc = g0 = g1 = 'RecursionError'
            except Exception as e:          # a derived view of the real code raised: an observation, not a harness failure
                tc = g0 = g1 = 'raised-' + type(e).__name__

            def V(f):
                try:
                    return I(f())
                except Exception as e:
                    return 'raised-' + type(e).__name__
            out.append('%s:%s:%s:%s:%s,%s,%s,%s:%s:%s:%s:%s:%s' % (
                head, L(self.kids(n)), I(n.parentNode), I(n.ownerDocument),
                V(lambda: n.firstChild), V(lambda: n.lastChild), V(lambda: n.previousSibling), V(lambda: n.nextSibling), tc, g0, g1,
                I(self.attr_node(n, 'self')), I(self.attr_node(n, 'title'))))
        if light:
            return '%s %s @ %s' % (err, ' '.join(out), ' '.join(self.flags))
        sub = ordl[:7]
        rows = []
        for a in sub:
            row = ''
            for b in sub:
                try:
                    row += (str(a.compareDocumentPosition(b)) if self._chain_ok(a) and self._chain_ok(b) else 'L') + '.'
                except RecursionError:
                    raise
                except Exception as e:      # observation, not a harness failure
                    row += 'raised-' + type(e).__name__ + '.'
            rows.append(row)
        return '%s %s # %s @ %s' % (err, ' '.join(out), ' '.join(rows), ' '.join(self.flags))

    def _chain_ok(self, n):
        k = 0
        while n is not None:
            n = n.parentNode
            k += 1
            if k > 200:
                return False
        return True


def parse_line(line):
    parts = [p.split() for p in line.split(';')]
    return parts[0], [p for p in parts[1:] if p]


def run_history(line, peek=False):
    pool, ops = parse_line(line)
    w = World(pool)
    err = 'ok'
    for op in ops:
        err = w.run(op)
        if err == 'timeout':
            return w, 'timeout'
        if err in ('RecursionError', 'bad'):
            break
        if op[0] in ('ap', 'in', 'si', 'ib', 'ia', 'rp', 'ex', 'xn', 'sa', 'st') and 0 <= int(op[1]) < len(w.reg):
            s = w.reg[int(op[1])]
            f = w.attr_node(s, 'self')
            holders = [n for n in w.order() if w.attr_node(n, 'self') is s] if w.is_frag(s) else []
            if w.cyclic_from([s] + ([f] if f is not None else []) + holders):
                return w, 'cyclic'      # the recursive views of the real code would not return: the history stops here
        if peek:
            try:
                w.peek()
            except RecursionError:
                pass
    return w, err


def _light(dump):
    """the stored part of a full observation (what `World.dump(err, light=True)` prints)"""
    e, nodes, _, flags = _parse_dump(dump)
    return '%s %s @ %s' % (e, ' '.join(':'.join(f[:4] + f[-2:]) for f in nodes), ' '.join(flags))


def _observe(line, peek, like=None):
    D = _dom()
    D.CharacterData._dummyChildNodes[:] = []
    w, err = run_history(line, peek=peek)
    if err == 'timeout':
        # confirm with a fresh world and a four times longer limit before calling it a hang
        D.CharacterData._dummyChildNodes[:] = []
        OP_LIMIT['seconds'] = 2.0
        try:
            w, err = run_history(line, peek=peek)
        finally:
            OP_LIMIT['seconds'] = 0.5
        if err == 'timeout':
            return 'err:timeout'      # an operation of the real code did not return
    if err == 'cyclic':
        return 'cyclic'
    if err == 'bad':
        return 'invalid'          # not a history the model is meant for (e.g. `sa` on an element whose child list exists)
    if like is not None and w.dump(err, light=True) == like:
        return None               # stores the same as the other run: the derived views at the end are the same reads
    return w.dump(err)


def impl(case, aux):
    """every history is executed twice on fresh objects: once reading the derived views of every reachable node after
    every operation (a view that remembers an earlier answer shows up) and once reading nothing before the end (reading
    `childNodes` creates the child list of an element that never had one, and the real code behaves differently for such
    elements: `hasChildNodes()` in normalize / cloneNode, the `self` attribute).  Both runs are judged: the observation of
    the run without reads is reported when the run with reads is not a valid history or when it shows a problem itself;
    two valid runs that differ otherwise are reported as such (flag r0)."""
    b = _observe(case.line, True)
    a = _observe(case.line, False, like=_light(b) if ' ' in b else None)
    if a is None or a == b or a in ('invalid', 'cyclic') or b == 'cyclic':
        return b
    if b == 'invalid' or a.startswith('err:'):
        return a
    if b.startswith('err:'):
        return b
    _, anodes, _, aflags = _parse_dump(a)
    if oracle_problem(anodes) or flags_problem(aflags):
        return a
    return b + (' ' if not b.endswith(' ') else '') + 'r0'


# ---------------------------------------------------------------- judging

def _parse_dump(s):
    body, _, flags = s.partition(' @ ')
    head, _, cmp_ = body.partition(' # ')
    toks = head.split(' ')
    return toks[0], [t.split(':') for t in toks[1:]], cmp_.split(' ') if cmp_ else [], flags.split()


def inv_problem(nodes):
    """the invariant of the property on an observed graph; returns a description or ''"""
    for i, f in enumerate(nodes):
        kids = [k for k in f[1].split(',') if k]
        if f[3] != '0' and not (i == 0 and f[3] == '0'):
            return 'node %d: ownerDocument is %s, not the creating document' % (i, f[3])
        if f[0][0] == 'F':
            continue
        if len(set(kids)) != len(kids):
            return 'node %d lists a child twice: %s' % (i, f[1])
        okp = (str(i), f[8]) if len(f) > 8 and f[8] not in ('-', '?') else (str(i),)   # a `self` fragment also counts as the list
        for k in kids:
            if k == '?' or nodes[int(k)][2] not in okp:
                return 'child %s of node %d has parentNode %s' % (k, i, nodes[int(k)][2] if k != '?' else '?')
            if nodes[int(k)][0][0] == 'F':
                return 'node %d lists a fragment' % i
    return ''


def oracle_problem(nodes):
    """derived views recomputed in Python from the observed child lists (plain list model)"""
    n = len(nodes)
    kids = [[int(k) for k in f[1].split(',') if k and k != '?'] for f in nodes]

    def text(i, d=0):
        if d > 60: raise RecursionError
        if nodes[i][0][0] == 'T':
            return [c for c in nodes[i][0].split('.', 1)[1].split('_') if c]
        r = []
        for k in kids[i]:
            r += text(k, d + 1)
        return r

    def elems(i, tag, d=0):
        if d > 60: raise RecursionError
        r = []
        b = nodes[i][9] if len(nodes[i]) > 9 else '-'
        if b not in ('-', '?'):                 # elements inside a fragment held under another attribute key come first
            r += elems(int(b), tag, d + 1)
        for k in kids[i]:
            if nodes[k][0].startswith('E' + tag + '.'):
                r.append(k)
            r += elems(k, tag, d + 1)
        return r
    for i, f in enumerate(nodes):
        try:
            if '_'.join(text(i)) != f[5]:
                return 'textContent of node %d is %r, the concatenation in document order is %r' % (i, f[5], '_'.join(text(i)))
            for j, tag in ((6, '0'), (7, '1')):
                exp = ','.join(str(k) for k in elems(i, tag))
                if exp != f[j]:
                    return 'getElementsByTagName(n%s) of node %d is [%s], the preorder filter is [%s]' % (tag, i, f[j], exp)
        except RecursionError:
            return ''
        fl = f[4].split(',')
        if fl[0] != (str(kids[i][0]) if kids[i] else '-') or fl[1] != (str(kids[i][-1]) if kids[i] else '-'):
            return 'firstChild/lastChild of node %d are %s,%s but its children are %s' % (i, fl[0], fl[1], f[1])
    # an attribute-held `self` fragment is the child list of its element, and no two elements share one
    holders = {}
    for i, f in enumerate(nodes):
        a = f[8] if len(f) > 8 else '-'
        if a in ('-', '?'):
            continue
        if nodes[int(a)][1] != f[1]:
            return ("node %d holds fragment %s as attributes['self'] but lists [%s] while the fragment lists [%s]"
                    % (i, a, f[1], nodes[int(a)][1]))
        if a in holders:
            return "nodes %d and %d share the same attributes['self'] fragment %s (a clone is not disjoint from its original)" % (holders[a], i, a)
        holders[a] = i
    return ''


def flags_problem(flags):
    """observations logged when the operation happened: deep clone equal and disjoint, normalize leaves no adjacent text"""
    for k, fl in enumerate(flags):
        if fl.startswith('q'):
            if fl[1:3] != '11':
                return 'deep clone #%d is not equal to its original (== / isEqualNode, both directions: %s)' % (k, fl[1:3])
            if fl[3:] != 'd1':
                return 'deep clone #%d shares a node with its original' % k
        elif fl == 'n0':
            return 'normalize #%d left adjacent text nodes below the node (child lists and attribute-held fragments)' % k
        elif fl == 'r0':
            return 'the same history gives a different final observation when the derived views are read after every operation than when nothing is read before the end'
    return ''


def judge(o):
    o.corr_ok = (o.impl == o.model)
    o.prop_ok = True
    if o.impl == 'cyclic' or o.model == 'cyclic':
        return
    if o.impl == 'invalid':
        o.corr_ok = True
        return
    if o.impl.startswith('err:'):
        o.prop_ok = False
        o.note = 'implementation did not finish'
        return
    ie, inodes, icmp, iflags = _parse_dump(o.impl)
    p = oracle_problem(inodes) or flags_problem(iflags)
    if p:
        o.prop_ok = False
        o.note = p
        return
    if o.spec in ('-', ''):
        return
    se, snodes, scmp, _ = _parse_dump(o.spec)
    p = inv_problem(inodes)
    if p:
        o.prop_ok = False; o.note = 'invariant: ' + p
        return
    if ie != 'ok':
        o.prop_ok = False; o.note = 'operation inside the documented domain raised ' + ie
        return
    if len(inodes) != len(snodes):
        o.prop_ok = False; o.note = 'number of reachable nodes %d, list model %d' % (len(inodes), len(snodes))
        return
    names = ['kind/name/text', 'child list', 'parentNode', 'ownerDocument', 'first/last/previous/next', 'textContent', 'elements n0', 'elements n1',
             'self attribute', 'title attribute']
    for i, (a, b) in enumerate(zip(inodes, snodes)):
        for j, (x, y) in enumerate(zip(a, b)):
            if y != '*' and x != y:
                o.prop_ok = False
                o.note = 'node %d %s: implementation %s, list model %s' % (i, names[j], x, y)
                return
    for i, (ra, rb) in enumerate(zip(icmp, scmp)):
        for j, (x, y) in enumerate(zip(ra.split('.'), rb.split('.'))):
            if y != 'x' and x != y:
                o.prop_ok = False
                o.note = 'compareDocumentPosition(node %d, node %d) = %s, list model %s' % (i, j, x, y)
                return


def nontrivial(o):
    if o.spec in ('-', '') or not o.impl.startswith('ok '):
        return False
    _, nodes, _, _ = _parse_dump(o.impl)
    for f in nodes:
        ks = [k for k in f[1].split(',') if k]
        if len(ks) >= 2:
            return True
        if f[0][0] != 'D' and ks and f[2] not in ('-', '?') and nodes[int(f[2])][0][0] != 'F':
            return True
    return False


# ---------------------------------------------------------------- generation

POOL_X = ['E0', 'E1', 'T97', 'T98_99', 'F']          # exhaustive pool: ids 1..5 (0 is the document)
POOL_5 = ['E0', 'E1', 'T97', 'F']                    # smaller pool for the length-5 enumeration (thorough)


def alphabet(pool, receivers, full=True):
    n = len(pool)
    ids = list(range(1, n + 1))
    ops = []
    for s in receivers:
        for c in ids:
            ops.append(['ap', s, c])
            for i in ((0, 1, 2) if full else (0,)):
                ops.append(['in', s, i, c])
                if i < 2:
                    ops.append(['si', s, i, c])
            ops.append(['rm', s, c])
            for r in ids:
                if full or r != c:
                    ops.append(['ib', s, c, r]); ops.append(['ia', s, c, r]); ops.append(['rp', s, c, r])
        ops.append(['pp', s, 0]); ops.append(['pp', s, -1])
        ops.append(['nm', s]); ops.append(['cl', s, 0]); ops.append(['cl', s, 1])
        for o in ids:
            if pool[o - 1] == 'F':
                ops.append(['xn', s, o])
    return [[str(x) for x in op] for op in ops]


def reaches(w, a, b, depth=0):
    if a is b:
        return True
    la, lb = w.cnlist(a), w.cnlist(b)
    if la is not None and la is lb:
        return True
    if depth > 50:
        return True
    return any(reaches(w, c, b, depth + 1) for c in w.kids(a))


def makes_cycle(w, op):
    """would this operation put a node below itself?"""
    k = op[0]
    if k in ('ap', 'in', 'si', 'ib', 'ia', 'rp'):
        s = w.reg[int(op[1])]
        c = w.reg[int(op[2] if k in ('ap', 'ib', 'ia', 'rp') else op[3])]
        items = w.kids(c) if w.is_frag(c) else [c]
        return any(reaches(w, it, s) for it in items)
    if k == 'ex':
        s = w.reg[int(op[1])]
        return any(reaches(w, it, s) for c in op[2:] for it in (w.kids(w.reg[int(c)]) if w.is_frag(w.reg[int(c)]) else [w.reg[int(c)]]))
    if k == 'xn':
        s = w.reg[int(op[1])]
        return any(reaches(w, it, s) for it in w.kids(w.reg[int(op[2])]))
    if k in ('sa', 'st'):
        return reaches(w, w.reg[int(op[2])], w.reg[int(op[1])])
    return False


def listed_by_nonfrag(w, c, besides=None):
    for n in w.order():
        if w.is_text(n) or w.is_frag(n) or n is besides:
            continue
        if any(x is c for x in w.kids(n)):
            return True
    return False


def enabled(w, op):
    """Python-side approximation of the documented precondition (used only to steer generation)"""
    k = op[0]
    try:
        s = w.reg[int(op[1])]
        if w.is_text(s):
            return False
        if k == 'nm':
            return not w.is_frag(s) or (id(s) not in w.spent and not any(listed_by_nonfrag(w, it) for it in w.kids(s)))
        if k == 'ex':
            cs = op[2:]
            its = [id(x) for c in cs for x in (w.kids(w.reg[int(c)]) if w.is_frag(w.reg[int(c)]) else [w.reg[int(c)]])]
            return len(set(cs)) == len(cs) and len(set(its)) == len(its) and all(enabled(w, ['ap', op[1], c]) for c in cs)
        if k in ('ap', 'in', 'si', 'ib', 'ia', 'rp'):
            if id(s) in w.spent:
                return False
            c = w.reg[int(op[2] if k in ('ap', 'ib', 'ia', 'rp') else op[3])]
            items = w.kids(c) if w.is_frag(c) else [c]
            if c is s or c is w.doc or any(w.is_frag(it) or it is w.doc or it is s for it in items):
                return False
            move = k in ('ib', 'ia', 'rp') and not w.is_frag(c)
            for it in items:
                if listed_by_nonfrag(w, it, s if move else None) or (not move and any(x is it for x in w.kids(s))):
                    return False
            if len({id(x) for x in items}) != len(items):
                return False
            ln = len(w.kids(s))
            if k == 'in' and not (0 <= int(op[2]) <= ln): return False
            if k == 'si' and not (0 <= int(op[2]) < ln): return False
            if k in ('ib', 'ia', 'rp'):
                r = w.reg[int(op[3])]
                if r is c or not any(x is r for x in w.kids(s)): return False
            return True
        if k == 'pp':
            ln = len(w.kids(s)); return -ln <= int(op[2]) < ln
        if k == 'rm':
            return any(x is w.reg[int(op[2])] for x in w.kids(s))
        if k == 'xn':
            return w.is_frag(w.reg[int(op[2])]) and enabled(w, ['ap', op[1], op[2]])
        return True
    except (IndexError, ValueError):
        return False


def line_of(pool, ops):
    return ' '.join(pool) + ''.join(' ; ' + ' '.join(op) for op in ops)


def exhaustive(ctx, pool, depth_full, depth_enabled, cap, prefix=()):
    """breadth-first over histories (all starting with `prefix`); a history whose full observation was seen before is not extended"""
    D = _dom()
    recv = [i + 1 for i, w in enumerate(pool) if w[0] in 'EF']
    full = alphabet(pool, recv, True)
    seen = set()
    frontier = [[list(op) for op in prefix]]
    total = 0
    for depth in range(1, depth_enabled + 1):
        nxt = []
        for hist in frontier:
            base_line = line_of(pool, hist)
            if GEN['timeouts'] >= GEN_TIMEOUT_BUDGET:
                return
            w0, err0 = run_history(base_line)
            if err0 == 'timeout':
                GEN['timeouts'] += 1
                continue
            for op in full:
                if depth > depth_full and not enabled(w0, op):
                    continue
                if makes_cycle(w0, op):
                    continue
                if tuple(op) in GEN['poison']:      # this very operation did not return once: it is not tried again
                    continue
                if depth == depth_enabled:          # last level: nothing is expanded from here, only judged
                    total += 1
                    yield Case('hist', line_of(pool, hist + [op]), None)
                    if total >= cap:
                        ctx.count('exhaustive:capped')
                        return
                    continue
                D.CharacterData._dummyChildNodes[:] = []
                w, err = run_history(base_line)
                e = w.run(op)
                total += 1
                line = line_of(pool, hist + [op])
                yield Case('hist', line, None)
                if total >= cap:
                    ctx.count('exhaustive:capped')
                    return
                if e == 'timeout' or err == 'timeout':
                    # the real code did not return: the case is yielded (it will be judged), nothing is expanded from it,
                    # and after a few of them the enumeration stops (a faulty tree must not make the check hang)
                    GEN['timeouts'] += 1
                    GEN['poison'].add(tuple(op))
                    ctx.count('exhaustive:timeouts')
                    if GEN['timeouts'] >= GEN_TIMEOUT_BUDGET:
                        return
                    continue
                try:
                    key = limited(lambda: w.dump(''), 2.0).partition(' @ ')[0]   # the state, without the oracle flags
                except OpTimeout:
                    GEN['timeouts'] += 1
                    if GEN['timeouts'] >= GEN_TIMEOUT_BUDGET:
                        return
                    continue
                if key not in seen and e not in ('diverge', 'RecursionError'):
                    seen.add(key)
                    nxt.append(hist + [op])
        ctx.count('exhaustive:depth%d-states' % depth, len(nxt))
        frontier = nxt


def random_history(rng, maxlen, malformed):
    npool = rng.randint(3, 7)
    pool = []
    for i in range(npool):
        r = rng.random()
        if r < 0.45: pool.append('E%d' % rng.randint(0, 2))
        elif r < 0.75: pool.append('T' + '_'.join(str(rng.choice([97, 98, 32, 0x3b1, 60])) for _ in range(rng.randint(0, 3))))
        else: pool.append('F')
    if not any(p[0] == 'E' for p in pool): pool[0] = 'E0'
    if not any(p == 'F' for p in pool): pool[-1] = 'F'
    line0 = ' '.join(pool)
    ops = []
    w = World(pool)
    alias = rng.random() < 0.3      # histories with attribute-held fragments (`self` = the child list, `title` = another key)
    touched = set()
    n = rng.randint(1, maxlen)
    tries = 0
    while len(ops) < n and tries < n * 30:
        tries += 1
        nreg = len(w.reg)
        k = rng.choice(['ap', 'ap', 'in', 'in', 'pp', 'rm', 'ib', 'ia', 'rp', 'si', 'ex', 'xn', 'nm', 'cl', 'ap', 'in'] + (['sa', 'st', 'sa', 'st', 'nm', 'cl'] if alias else []))
        recv = [i for i in range(nreg) if not w.is_text(w.reg[i])]
        s = rng.choice(recv)
        c = rng.randrange(1, nreg)
        ln = len(w.kids(w.reg[s]))
        bad = rng.random() < malformed
        if k == 'ap': op = ['ap', s, c]
        elif k == 'in': op = ['in', s, rng.randint(-ln - 2, ln + 2) if bad else rng.randint(0, ln), c]
        elif k == 'pp': op = ['pp', s, rng.randint(-ln - 2, ln + 1) if bad or not ln else rng.randint(-ln, ln - 1)]
        elif k == 'rm': op = ['rm', s, c if bad or not ln else w.reg.index(rng.choice(w.kids(w.reg[s]))) if all(any(x is y for y in w.reg) for x in w.kids(w.reg[s])) else c]
        elif k in ('ib', 'ia', 'rp'):
            ks = [i for i in range(nreg) if any(x is w.reg[i] for x in w.kids(w.reg[s]))]
            r = rng.randrange(1, nreg) if bad or not ks else rng.choice(ks)
            op = [k, s, c, r]
        elif k == 'si': op = ['si', s, rng.randint(-ln - 1, ln + 1) if bad or not ln else rng.randint(0, ln - 1), c]
        elif k == 'ex': op = ['ex', s] + [rng.randrange(1, nreg) for _ in range(rng.randint(1, 3))]
        elif k == 'xn':
            fr = [i for i in range(nreg) if not w.is_text(w.reg[i]) and (bad or w.is_frag(w.reg[i]))]
            op = ['xn', s, rng.choice(fr)]
        elif k == 'nm': op = ['nm', s]
        elif k == 'cl': op = ['cl', rng.randrange(1, nreg), rng.randint(0, 1)]
        else:
            held = lambda f: any(w.attr_node(e, 'self') is f or w.attr_node(e, 'title') is f for e in w.order())
            fs = [i for i in range(1, nreg) if w.is_frag(w.reg[i]) and not held(w.reg[i])]
            if k == 'sa':
                es = [i for i in range(1, nreg) if not w.is_text(w.reg[i]) and not w.is_frag(w.reg[i])
                      and not hasattr(w.reg[i], '_dom_childNodes') and w.attr_node(w.reg[i], 'self') is None]
            else:
                es = [i for i in range(1, nreg) if not w.is_text(w.reg[i]) and not w.is_frag(w.reg[i])
                      and w.attr_node(w.reg[i], 'title') is None]
            if not es or not fs:
                continue
            op = [k, rng.choice(es), rng.choice(fs)]
        op = [str(x) for x in op]
        if makes_cycle(w, op):
            continue
        if not bad and not enabled(w, op) and (malformed == 0 or rng.random() < 0.85):
            continue
        e = w.run(op)
        if e == 'bad':
            return line0, ops
        ops.append(op)
        if op[0] not in ('sa', 'st'):
            touched.add(int(op[1]))
            if op[0] == 'cl': touched.add(len(w.reg) - 1)
        if e == 'timeout':
            GEN['timeouts'] += 1
            break
        if e in ('diverge', 'RecursionError'):
            break
    return line0, ops


def generate(ctx):
    rng = ctx.rng
    quick = ctx.tier == 'quick'
    GEN['timeouts'] = 0
    GEN['poison'] = set()
    if quick:
        yield from exhaustive(ctx, POOL_X, 2, 4, 110000)
    else:
        yield from exhaustive(ctx, POOL_X, 3, 4, 200000)
        yield from exhaustive(ctx, POOL_5, 2, 5, 260000)
    # attribute-held fragments: an empty and a pre-filled fragment as the child list (`self`), and a fragment with
    # adjacent text under another key of an element that never had a child list
    ALIAS_POOL = ['E0', 'E1', 'T97', 'T98', 'F']
    for prefix in ([['sa', '1', '5']], [['ap', '5', '3'], ['sa', '1', '5']],
                   [['ap', '5', '3'], ['ap', '5', '4'], ['st', '2', '5']]):
        yield from exhaustive(ctx, ALIAS_POOL, 1, 2 if quick else 3, 3000 if quick else 60000, prefix=prefix)
    n = 2500 if quick else 20000
    for i in range(n):
        if GEN['timeouts'] >= GEN_TIMEOUT_BUDGET:
            ctx.say('generation stopped early: %d real-code calls did not return within their time limit' % GEN['timeouts'])
            return
        # two thirds of the histories stay inside the documented domain to their end (so the list model judges them),
        # the others mix in ~15% malformed operations and some attached arguments
        line0, ops = random_history(rng, 40 if i % 3 == 0 else 12, 0.15 if i % 3 == 1 else 0)
        yield Case('hist', line0 + ''.join(' ; ' + ' '.join(op) for op in ops), None)


def corpus():
    res = []
    d = os.path.join(VERIF, 'corpus', 'C06')
    if os.path.isdir(d):
        for f in sorted(os.listdir(d)):
            if f.endswith('.json'):
                j = json.load(open(os.path.join(d, f)))
                if 'case' in j:
                    res.append(Case.from_json(j['case'], 'corpus'))
    return res


# ---------------------------------------------------------------- shrinking and search

def shrink(ctx, o, evaluate, budget=20.0):
    """drop single operations while the same kind of failure remains (bounded in rounds and time)"""
    import time
    t_end = time.time() + budget
    want_prop = not o.prop_ok
    best = o

    def fails(r):
        return (not r.prop_ok) if want_prop else (not r.corr_ok)
    improved = True
    rounds = 0
    while improved and rounds < 60 and time.time() < t_end:
        improved = False
        rounds += 1
        pool, ops = parse_line(best.case.line)
        # drop a whole tail first, then single operations from the end
        cands = [ops[:i] for i in range(1, len(ops))] + [ops[:i] + ops[i + 1:] for i in range(len(ops) - 1, -1, -1)]
        cs = [Case('hist', line_of(pool, c), None, 'shrink') for c in cands[:80]]
        for r in evaluate(cs):
            if fails(r):
                best = r
                improved = True
                break
    return best


def focus_cases(rng, kinds, n_hist, per_hist):
    """in-domain random histories, each extended by every enabled instance (all nodes, all indexes in range)
    of the operation kinds that disagreed"""
    cases = []
    for _ in range(n_hist):
        line0, ops = random_history(rng, 10, 0)
        base = line0 + ''.join(' ; ' + ' '.join(op) for op in ops)
        try:
            w, err = run_history(base)
        except Exception:
            continue
        if err in ('cyclic', 'RecursionError', 'bad', 'diverge', 'timeout'):
            continue
        nreg = len(w.reg)
        cands = []
        for s in range(nreg):
            if w.is_text(w.reg[s]):
                continue
            ln = len(w.kids(w.reg[s]))
            for k in kinds:
                if k in ('ap', 'rm', 'xn'):
                    cands += [[k, s, c] for c in range(1, nreg)]
                elif k in ('in', 'si'):
                    cands += [[k, s, i, c] for c in range(1, nreg) for i in range(0, ln + 1)]
                elif k == 'pp':
                    cands += [[k, s, i] for i in range(-ln, ln)]
                elif k in ('ib', 'ia', 'rp'):
                    cands += [[k, s, c, r] for c in range(1, nreg) for r in range(1, nreg)]
                elif k == 'nm':
                    cands.append([k, s])
                elif k == 'cl':
                    cands += [[k, s, 0], [k, s, 1]]
                elif k == 'ex':
                    cands += [[k, s, c, d] for c in range(1, nreg) for d in range(1, nreg) if c != d]
        cands = [[str(x) for x in c] for c in cands]
        rng.shuffle(cands)
        kept = 0
        for c in cands:
            if kept >= per_hist:
                break
            if makes_cycle(w, c) or not enabled(w, c):
                continue
            kept += 1
            cases.append(Case('hist', base + ' ; ' + ' '.join(c), None, 'search'))
    return cases


def search(ctx, evaluate, corr_bad):
    """proof/tie broken but no property failure in the main batch (bounded to ~50 s):
       1 shrink the disagreeing histories and judge every prefix against the list model;
       2 histories inside the documented domain ending in every enabled instance of the operation kinds that disagreed;
       3 a fresh seeded batch of in-domain histories."""
    import time
    t_end = time.time() + 50
    kinds = []
    for o in corr_bad[:4]:
        s = shrink(ctx, o, evaluate, budget=6.0)
        pool, ops = parse_line(s.case.line)
        if ops and ops[-1][0] not in kinds:
            kinds.append(ops[-1][0])
        cs = [Case('hist', line_of(pool, ops[:i]), None, 'search') for i in range(1, len(ops) + 1)]
        for r in evaluate(cs):
            if not r.prop_ok:
                return Violation('implementation breaks the tree property (found from a model disagreement)',
                                 {'kind': 'failing-input', 'outcome': r.to_json()})
    rng = random.Random(ctx.seed + 7919)
    kinds = kinds or ['ap', 'in', 'pp', 'rm', 'ib', 'ia', 'rp', 'si', 'nm', 'cl']
    for n_hist, per in ((150, 25), (250, 25)):
        if time.time() > t_end - 15:
            break
        bad = [o for o in evaluate(focus_cases(rng, kinds, n_hist, per)) if not o.prop_ok]
        if bad:
            o = shrink(ctx, bad[0], evaluate, budget=8.0)
            return Violation('implementation breaks the tree property (found by the directed search)',
                             {'kind': 'failing-input', 'outcome': o.to_json()})
    if time.time() < t_end - 12:
        cases = []
        for i in range(1500):
            line0, ops = random_history(rng, 30 if i % 2 else 10, 0)
            cases.append(Case('hist', line0 + ''.join(' ; ' + ' '.join(op) for op in ops), None, 'search'))
        bad = [o for o in evaluate(cases) if not o.prop_ok]
        if bad:
            o = shrink(ctx, bad[0], evaluate, budget=8.0)
            return Violation('implementation breaks the tree property (found by search)', {'kind': 'failing-input', 'outcome': o.to_json()})
    return None
