"""C15 - The filename generator yields unique, clean names in template order.

streams
  parse : template strings (documented grammar with optional blanks, plus ~15% arbitrary text over the
          special characters): real `Filenames(spec).files` vs Model.parseTemplate (the hand-written
          equivalent of the six normalising regexes and the character loop).
  fname : template x forbidden-character set x extension x initial variables x reserved names x a history
          of per-request bindings (<= 12): real `Filenames(...)` object driven request by request
          (`variables.update(b)`; call) vs Model.request (as written) vs Spec.srequest (the property's
          reference generator over template trees).  Malformed templates / configurations outside the
          documented grammar carry spec `-` (implementation vs model only, error classes included).
  asis  : the word-limit loop of the pinned code (D12) against the repaired one (corpus only).
  multi : two or three `Filenames` objects alive in one process (as the page-name and image-name generators of a
          run are), created at different moments and with the optional constructor arguments omitted whenever they
          are empty (the way callers write it), driven by an interleaved schedule of bind / call steps:
          real objects vs Model.runW (a list of independent object states) vs each object's own Spec run.
"""
import ast as _ast
import inspect
import itertools
import re
import extract
from framework import Case, Violation

ID = 'C15'
LEAN_MODULE = 'PlasVerif.Properties.C15'
LEVEL_TEXT = ('Lean 4 theorems over a line-by-line model of Filenames._newFilename/addExtension (generator state: remaining static names, '
              'wildcard, running number, lifetime pass counter, issued/reserved set, namespace, dead flag), for every template, configuration and '
              'unbounded request history: issued names are pairwise distinct and never reserved (invariant), every request terminates within the '
              'pass bound and reports ValueError when nothing fresh can be formed, a dead generator never issues again, $num runs 1,2,3.. over the '
              'whole history and advances exactly on numbered candidates issued or skipped as taken, static names come first and in order, the '
              'issued alternative is preceded only by unbound or taken ones, and the zero padding / word limit / forbidden-character replacement / '
              'extension rule of the component functions. expand_eq_render proves that on every well-formed template tree the string-level machinery '
              '(findall, number/word-limit loop, character substitution, format stripping, string.Template substitution) computes the tree denotation; '
              'request_refines_spec / issued_name_is_spec_name / history_refines_spec prove that the model run on linearised trees is the reference '
              'generator of the Spec (every issued name is the prescribed one; whole histories agree while no error is reported); the only deviation, '
              'the lifetime pass counter (O3), is characterised exactly (lifetime_budget_deviation, fails_though_fresh_iff, kernel-checked witness). '
              'generators_independent proves, over a process of several objects with arbitrary interleaving of constructions, bindings and calls, '
              'that each object answers exactly as if run alone (tied to the code by the multi stream, which builds the real objects with the '
              'constructor defaults). The template parser (six regexes) is a '
              'hand-written lexer validated by differential execution only; the model is tied to the code by differential execution of whole '
              'request histories (exhaustive over a 3-template x 4-binding alphabet to length 5 in the quick tier).')
LEVEL_NOTE = ('Trusted: Lean kernel (axioms propext, Classical.choice, Quot.sound only), the translator (whitespace table probed from CPython, '
              'give-up bound read from the AST), the correspondence harness and its generators, CPython re/string.Template. Modelled not verified: '
              'parseFilenames regex pipeline (correspondence only), Unicode \\w/\\d in template text (templates are ASCII), string.Template edge syntax.')
TECHNIQUE = 'Lean 4 proof (state invariants over request histories, induction on templates) + regenerated constants + differential correspondence with exhaustive small scope'
TRUSTED = ['parseFilenames normalising regexes re-implemented as scanners: tied by the parse stream only',
           'string.Template pattern re-implemented as a scanner (ASCII identifiers)']
ASSUMPTIONS = ['template text is ASCII (\\w and \\d of the regexes are modelled on ASCII); variable values are arbitrary strings',
               'at most one [..] group per blank-separated name (a second group makes the code build lists of lists: outside the model, reported as `unsupported`)',
               'in the spec domain: variables named in a template are pairwise distinct, the caller does not bind `num`, the substitute string contains no forbidden character, widths <= 12',
               'reserved sets are small (<= 8 names), so the lifetime pass counter (observation O3, characterised by fails_though_fresh_iff) never makes a generated request fail early',
               'request histories sampled up to length 12 (theorems cover every length)']
RULE = ('fname cases inside the spec domain (spec defined) whose history has >= 2 requests and issues at least one name, and multi cases '
        '(2-3 objects, interleaved schedule) inside the spec domain with >= 2 issued names; '
        'distinct = distinct driver request line')
EXHAUSTIVE = {'quick': 'fname: 3 templates x all 4^5 sequences over a 4-binding alphabet (length 5, prefixes included in the per-request results)',
              'thorough': 'fname: 3 templates x 2 configurations x all 4^6 sequences over a 4-binding alphabet'}
CASE_TIMEOUT = 20

# ---------------------------------------------------------------- translator

def gen_filenames():
    import plasTeX.Filenames as F
    spaces = [c for c in range(0x110000) if chr(c).isspace()]
    if spaces != [c for c in range(0x110000) if re.match(r'\s', chr(c))] or len(spaces) > 200 or 32 not in spaces:
        raise ValueError('str.isspace and re \\s disagree')
    # give-up bound: `if <counter> > N: break` inside _newFilename (AST); first number: `num = K`.
    # Fallback when the pattern is not found (harmless rewrite): probe the live object.
    bound = first = None
    mode = 'exact'
    try:
        tree = _ast.parse(inspect.getsource(F))
        for fn in _ast.walk(tree):
            if isinstance(fn, _ast.FunctionDef) and fn.name == '_newFilename':
                for n in _ast.walk(fn):
                    if (isinstance(n, _ast.If) and isinstance(n.test, _ast.Compare) and isinstance(n.test.left, _ast.Name)
                            and len(n.test.ops) == 1 and isinstance(n.test.ops[0], _ast.Gt)
                            and isinstance(n.test.comparators[0], _ast.Constant) and isinstance(n.test.comparators[0].value, int)
                            and len(n.body) == 1 and isinstance(n.body[0], _ast.Break)):
                        bound = n.test.comparators[0].value
                    if (isinstance(n, _ast.Assign) and len(n.targets) == 1 and isinstance(n.targets[0], _ast.Name) and n.targets[0].id == 'num'
                            and isinstance(n.value, _ast.Constant) and isinstance(n.value.value, int)):
                        first = n.value.value
    except Exception:
        pass
    if bound is None or first is None:
        mode = 'probed'

        class Counting(dict):
            copies = 0

            def copy(self):
                Counting.copies += 1
                return dict(self)
        f = F.Filenames('[$zz]', None, Counting(), '')
        Counting.copies = 0
        try:
            f()
        except ValueError:
            pass
        bound = Counting.copies - 1          # one namespace copy per pass (one alternative)
        m = re.fullmatch(r's(\d+)', F.Filenames('s$num', None, {}, '')())
        first = int(m.group(1))
    if not (0 <= bound <= 100000) or not (0 <= first <= 1000):
        raise ValueError('give-up bound / first number not found in _newFilename')
    src = ('-- GENERATED by harness/extract.py from plasTeX/Filenames.py (give-up bound, AST) and CPython str.isspace / re \\s (probed). Do not edit.\n'
           '-- mode: give-up bound and first number %s; whitespace table probed\n'
           'namespace PlasVerif.Generated.Filenames\n'
           '/-- code points `c` with `chr(c).isspace()` (the same set as `re` `\\s`, `str.strip()` and `str.split()` use) -/\n'
           'def spaceCodes : List Nat := %s\n'
           '/-- `if passes > N: break` in `Filenames._newFilename` -/\n'
           'def passBound : Nat := %d\n'
           '/-- `num = 1` initial file number in `Filenames._newFilename` -/\n'
           'def firstNum : Nat := %d\n'
           'end PlasVerif.Generated.Filenames\n') % (mode, extract.lean_nat_list(spaces), bound, first)
    return 'PlasVerif/Generated/Filenames.lean', src, mode


GENERATED = [gen_filenames]

# ---------------------------------------------------------------- encoding

def enc(s):
    return 's' + ','.join(str(ord(c)) for c in s)


def enc_env(d):
    return ' '.join('%s %s' % (enc(k), enc(v)) for k, v in d)


def seg_word(seg):
    if seg[0] == 'L':
        return 'L' + enc(seg[1])
    if seg[2] is None:
        return 'V' + enc(seg[1])
    return 'F' + enc(seg[1]) + ':' + enc(seg[2])


def spell_seg(seg, nxt, rng):
    """raw spelling of one segment; `nxt` = first character of what follows (to keep `$name` delimited)"""
    if seg[0] == 'L':
        return seg[1]
    name, width = seg[1], seg[2]
    style = rng.randrange(4) if rng else 0
    glued = bool(nxt) and (nxt.isalnum() or nxt == '_' or nxt == '(' or (style == 0 and nxt == '{'))
    if style == 0 and not (glued and width is None):
        s = '$' + name
    elif style == 3:
        s = '${ ' + name + ' }'
    else:
        s = '${' + name + '}'
    if width is not None:
        s += ('(%s)' if (not rng or rng.random() < 0.7) else '( %s )') % width
    return s


def spell_tmpl(t, follow, rng):
    out = []
    for i, seg in enumerate(t):
        if i + 1 < len(t):
            nx = t[i + 1]
            nxt = nx[1][:1] if nx[0] == 'L' else '$'
        else:
            nxt = follow
        out.append(spell_seg(seg, nxt, rng))
    return ''.join(out)


def spell(tm, rng):
    """raw template string of a structured template {'statics': [T], 'wild': None | (prefix, [alts], suffix)}"""
    sp = (lambda: rng.choice(['', '', ' ', '  '])) if rng else (lambda: '')
    names = [spell_tmpl(t, '', rng) for t in tm['statics']]
    if tm['wild']:
        p, alts, s = tm['wild']
        suffix = spell_tmpl(s, '', rng)
        body = (sp() + ',' + sp()).join(spell_tmpl(a, ',', rng) for a in alts)
        names.append(spell_tmpl(p, '[', rng) + '[' + sp() + body + sp() + ']' + suffix)
    sep = (lambda: rng.choice([' ', ' ', '  ', '\t'])) if rng else (lambda: ' ')
    s = ''
    for i, n in enumerate(names):
        s += (sep() if i else '') + n
    if rng and rng.random() < 0.2:
        s = ' ' + s + ' '
    return s


def ast_words(tm):
    parts = []
    for t in tm['statics']:
        parts.append('S ' + ' '.join(seg_word(s) for s in t))
    if tm['wild']:
        p, alts, s = tm['wild']
        for a in alts:
            parts.append('A ' + ' '.join(seg_word(x) for x in list(p) + list(a) + list(s)))
    return ' ; '.join(x.strip() for x in parts) if parts else ';'


def make_case(meta, origin='gen'):
    """meta: spec, bad, sub, ext, vars [[k,v]..], reserved [..], ast (words or '-'), reqs [[[k,v]..]..]"""
    secs = ['%s %s %s %s' % (enc(meta['spec']), enc(meta['bad']), enc(meta['sub']), enc(meta['ext'])),
            enc_env(meta['vars']), ' '.join(enc(r) for r in meta['reserved']), meta['ast']]
    secs += [enc_env(r) for r in meta['reqs']]
    return Case('fname', ' | '.join(secs), meta, origin)


def make_multi(meta, origin='gen'):
    """meta: gens [fname-like descriptions without reqs], ops [['N', i] | ['B', i, [[k, v]..]] | ['C', i]], style"""
    secs = [str(len(meta['gens']))]
    for g in meta['gens']:
        secs += ['%s %s %s %s' % (enc(g['spec']), enc(g['bad']), enc(g['sub']), enc(g['ext'])),
                 enc_env(g['vars']), ' '.join(enc(r) for r in g['reserved']), g['ast']]
    for op in meta['ops']:
        secs.append('%s %d' % (op[0], op[1]) + (' ' + enc_env(op[2]) if op[0] == 'B' and op[2] else ''))
    return Case('multi', ' | '.join(secs), meta, origin)


# ---------------------------------------------------------------- generation

DEFAULT_BAD = ': #$%^&*!~`"\'=?/{}[]()|<>;\\,.'
LIT = ['index', 'toc', 'sect', 's', 'file', 'x', '-', '_', '.html', '.htm', 'a.b', 'images/img-', 'ch', 'n', 'p-', 'q', '.', 'A']
VALUES = {
    'id': ['a', 'b', 'a', 'sec-1', 'index', 'sect1', 'a b', 'x.y', 'Intro', 'a', ''],
    'title': ['Intro', 'A Tale of Two Cities', 'Intro', 'A  Tale', ' lead space', '', '   ', 'x.y z', 'a/b c', 'What? Why: how', 'été chaud',
              'tab\there', 'one', 'a', 'A Tale of Three', 'n b sp'],
    'ref': ['1', '1.2', '2', '1', 'A'],
    'name': ['section', 'chapter', 'section', 'document'],
    'jobname': ['job', 'my doc', 'j'],
}
VARNAMES = ['id', 'title', 'ref', 'name', 'jobname']
# values that are different strings (so different names must be issued, and a name is reserved only in the exact
# spelling given) but that a normalisation applied somewhere on the way would identify: canonical / compatibility
# Unicode equivalence, letter case, blanks.  A history draws repeatedly from ONE group so that such values meet.
CONFUSABLE = [
    ['r\u00e9sum\u00e9', 're\u0301sume\u0301', 'r\u00e9sume\u0301'],                      # NFC / NFD
    ['\u00c5ngstr\u00f6m', 'A\u030angstro\u0308m', '\u212bngstr\u00f6m'],                  # + singleton decomposition (ANGSTROM SIGN)
    ['Intro', 'intro', 'INTRO', '\u0130ntro'],                                             # letter case
    ['file', '\ufb01le', '\uff46\uff49\uff4c\uff45'],                                      # NFKC: ligature, fullwidth
    ['a b', 'a  b', 'a\u00a0b', ' a b', 'a\u2003b', 'a\tb'],                                # blanks
    ['\U0001d49c1', '\U0001d49c\u0301', 'A1'],                                             # outside the BMP
    ['\u1e9b\u0323', '\u017f\u0323\u0307', '\u1e61\u0323'],                               # mark reordering
]


def gen_tmpl_body(rng, pool, allow_num, maxseg=3):
    """a template: literal / variable segments with pairwise distinct variable names taken from pool"""
    t = []
    for _ in range(rng.randint(1, maxseg)):
        r = rng.random()
        if r < 0.45 or not pool:
            t.append(('L', rng.choice(LIT)))
        elif r < 0.65 and allow_num and 'num' in pool:
            pool.remove('num')
            t.append(('V', 'num', rng.choice([None, None, '1', '2', '3', '4', '04', '0', '12'])))
        else:
            names = [n for n in pool if n != 'num']
            if not names:
                t.append(('L', rng.choice(LIT)))
                continue
            n = rng.choice(names)
            pool.remove(n)
            t.append(('V', n, rng.choice([None, None, None, '1', '2', '3', '0', '02'])))
    # merge adjacent literals so that the tree and the spelling agree
    out = []
    for s in t:
        if s[0] == 'L' and out and out[-1][0] == 'L':
            out[-1] = ('L', out[-1][1] + s[1])
        else:
            out.append(s)
    return out


def gen_template(rng):
    tm = {'statics': [], 'wild': None}
    for _ in range(rng.choice([0, 0, 1, 1, 2, 3])):
        if rng.random() < 0.7:
            tm['statics'].append([('L', rng.choice(['index', 'toc', 'index.html', 'a', 'a.b', 'sect1', 'Intro', 'cover.xhtml']))])
        else:
            tm['statics'].append(gen_tmpl_body(rng, ['jobname', 'num', 'id'], True, 2))
    if rng.random() < 0.85 or not tm['statics']:
        pool = VARNAMES + ['num']
        rng.shuffle(pool)
        pool = pool[:rng.randint(2, 6)]
        prefix = gen_tmpl_body(rng, pool, False, 1) if rng.random() < 0.35 else []
        suffix = gen_tmpl_body(rng, pool, False, 1) if rng.random() < 0.35 else []
        alts = []
        for i in range(rng.randint(1, 4)):
            sub = [n for n in pool]
            a = gen_tmpl_body(rng, sub, True, 2)
            alts.append(a)
        if rng.random() < 0.8:
            alts[-1] = [('L', rng.choice(['sect', 's', 'n', 'images/img-'])), ('V', 'num', rng.choice([None, '3', '4']))]
        # names must be pairwise distinct within prefix+alt+suffix
        used = {s[1] for s in prefix + suffix if s[0] == 'V'}
        alts = [[s for s in a if not (s[0] == 'V' and s[1] in used)] or [('L', 'z')] for a in alts]
        tm['wild'] = (prefix, alts, suffix)
    return tm


def gen_charsub(rng):
    r = rng.random()
    if r < 0.3:
        return DEFAULT_BAD, '-'
    if r < 0.45:
        return '', ''
    if r < 0.6:
        return ' ', '_'
    bad = ''.join(rng.sample(' ./:?-ae\té', rng.randint(1, 4)))
    sub = rng.choice(['-', '_', '', '__', 'X'])
    sub = ''.join(c for c in sub if c not in bad)
    return bad, sub


def gen_bindings(rng, keys=None, group=None):
    b = []
    for k in (keys or ['id', 'title', 'ref', 'name']):
        if rng.random() < 0.5:
            if group and k in ('id', 'title') and rng.random() < 0.6:
                b.append([k, rng.choice(group)])
            else:
                b.append([k, rng.choice(VALUES[k])])
    return b


def gen_valid(rng, maxlen=12):
    tm = gen_template(rng)
    bad, sub = gen_charsub(rng)
    ext = rng.choice(['.html', '.html', '', '.png', '.xhtml'])
    vars_ = [['jobname', rng.choice(VALUES['jobname'])]] if rng.random() < 0.7 else []
    if rng.random() < 0.15:
        vars_.append(['title', rng.choice(VALUES['title'])])
    reserved = rng.sample(['index.html', 'index', 'a.html', 'sect1.html', 's1.html', 'sect001.html', 's2', 'Intro.html', 'toc.html', 'b.html',
                           'images/img-1.png', 'n1.html', 's3.html'], rng.choice([0, 0, 1, 2, 4, 6]))
    n = rng.choice([1, 2, 3, 4, 5, 6, 8, 10, maxlen])
    group = rng.choice(CONFUSABLE) if rng.random() < 0.35 else None
    if group and rng.random() < 0.5:        # one spelling is reserved; the others stay legal
        reserved = reserved + [rng.choice(group) + ext]
    reqs = [gen_bindings(rng, None, group) for _ in range(n)]
    style = 'omit' if rng.random() < 0.4 else 'explicit'
    return {'style': style, 'spec': spell(tm, rng), 'bad': bad, 'sub': sub, 'ext': ext, 'vars': vars_, 'reserved': reserved, 'ast': ast_words(tm), 'reqs': reqs}


def gen_multi(rng):
    """2-3 objects, optional constructor arguments mostly empty (so that the defaults are used), interleaved schedule"""
    k = rng.choice([2, 2, 3])
    gens = []
    for _ in range(k):
        g = gen_valid(rng, 1)
        del g['reqs']
        if rng.random() < 0.6:
            g['vars'] = []
        if rng.random() < 0.6:
            g['reserved'] = []
        if rng.random() < 0.3:
            g['bad'], g['sub'] = '', ''
        gens.append(g)
    if rng.random() < 0.3:      # the same template on both objects: names may coincide, taken sets must stay apart
        gens[1] = dict(gens[0])
    group = rng.choice(CONFUSABLE) if rng.random() < 0.3 else None
    ops, alive, nxt = [['N', 0]], [0], 1
    for _ in range(rng.randint(5, 16)):
        r = rng.random()
        if nxt < k and r < 0.25:
            ops.append(['N', nxt]); alive.append(nxt); nxt += 1
        elif r < 0.6:
            b = gen_bindings(rng, None, group) or [['id', rng.choice(group or VALUES['id'])]]
            ops.append(['B', rng.choice(alive), b])
        else:
            ops.append(['C', rng.choice(alive)])
    while nxt < k:
        ops.append(['N', nxt]); ops.append(['C', nxt]); nxt += 1
    for i in range(k):
        ops.append(['C', i])
    return {'gens': gens, 'ops': ops, 'style': 'omit' if rng.random() < 0.8 else 'explicit'}


RAW = list('abns') + ['$', '$', '{', '}', '(', ')', '1', '3', '0', ' ', ' ', '\t', ',', ',', ']', '.', '_', 'num', 'id', 'title', '$id', '$num',
                       '${title}', '(2)', '$$', '-']


def gen_raw_spec(rng, maxn=14):
    """arbitrary text over the special characters; at most one `[` per blank-separated name"""
    out, state = [], 'none'          # none: no bracket in this name yet; open: inside [..]; closed: bracket group finished
    for _ in range(rng.randint(0, maxn)):
        if rng.random() < 0.08:
            if state == 'none':
                out.append('[')
                state = 'open'
            continue
        w = rng.choice(RAW)
        if w == ']' and state == 'open':
            state = 'closed'
        elif w in (' ', '\t') and state != 'open':
            state = 'none'
        out.append(w)
    return ''.join(out)


def gen_malformed(rng):
    m = gen_valid(rng, 6)
    m['ast'] = '-'
    k = rng.randrange(6)
    if k == 0:
        m['spec'] = gen_raw_spec(rng)
    elif k == 1:      # the caller binds `num`
        for r in m['reqs']:
            if rng.random() < 0.5:
                r.append(['num', rng.choice(['7', 'x', ''])])
        if rng.random() < 0.3:
            m['vars'].append(['num', '9'])
    elif k == 2:      # substitute contains a forbidden character
        m['bad'], m['sub'] = rng.choice([('ab', 'b'), (' -', '-'), ('xy', 'y!'), ('-', '--')])
    elif k == 3:      # the same variable twice with different widths / text after the wildcard
        m['spec'] = rng.choice(['$title(2)-$title', '[$title(1)-$title(3), s$num]', '[$id, s$num] tail $id', '$num-$num(3)', 'a [b,c] [d,e]',
                                '[$id', '$id]', '[,a]', 'p[,a]', '[]', '', '  ', 'x[ ]y', '[a b,c]', '${ id }( 2 )x', '$1x', '${1x}', '$id.3', 'a$', '$(2)',
                                '${id}.2}', '[[$id,a]', '$id$title', '$title(2)(3)', '${id.2.3}', '$$id', '$_', '${_a}'])
    elif k == 4:
        m['spec'] = m['spec'] + rng.choice(['$', ' $', '${', ' x$$', '(3)', ' [', ']'])
    else:
        m['spec'] = gen_raw_spec(rng, 8) + ' ' + m['spec']
    return m


# exhaustive small scope: 3 templates x 4-binding alphabet
EX_TEMPLATES = [
    {'statics': [[('L', 'index')]], 'wild': ([], [[('V', 'id', None)], [('V', 'title', '2')], [('L', 'sect'), ('V', 'num', '3')]], [])},
    {'statics': [[('V', 'jobname', None)], [('L', 'toc')]],
     'wild': ([], [[('V', 'id', None), ('L', '-'), ('V', 'title', None)], [('V', 'ref', None)], [('L', 'n'), ('V', 'num', None)]], [])},
    {'statics': [], 'wild': ([('L', 'p-')], [[('V', 'id', None)], [('V', 'title', '1')]], [('L', '.htm')])},
]
EX_BINDINGS = [[], [['id', 'a'], ['title', 'A b  c']], [['title', 'A b  c'], ['ref', 'n1']], [['id', 'b'], ['title', '']]]
EX_CONFIGS = [{'bad': ' ', 'sub': '-', 'ext': '.html', 'vars': [['jobname', 'job']], 'reserved': ['sect002.html', 'n1.html']},
              {'bad': DEFAULT_BAD, 'sub': '-', 'ext': '', 'vars': [], 'reserved': ['a', 'p-A.htm']}]


def exhaustive(tier):
    n = 5 if tier == 'quick' else 6
    configs = EX_CONFIGS[:1] if tier == 'quick' else EX_CONFIGS
    for tm in EX_TEMPLATES:
        spec, astw = spell(tm, None), ast_words(tm)
        for cfg in configs:
            for seq in itertools.product(range(len(EX_BINDINGS)), repeat=n):
                m = dict(cfg, spec=spec, ast=astw, reqs=[EX_BINDINGS[i] for i in seq])
                yield make_case(m, 'exhaustive')


def gen_parse(rng):
    if rng.random() < 0.6:
        return spell(gen_template(rng), rng)
    return gen_raw_spec(rng, 20)


def generate(ctx):
    rng = ctx.rng
    n = 2500 if ctx.tier == 'quick' else 60000
    for c in exhaustive(ctx.tier):
        yield c
    for i in range(n):
        if rng.random() < 0.15:
            yield make_case(gen_malformed(rng))
        else:
            yield make_case(gen_valid(rng))
    for i in range(n // 2):
        yield make_multi(gen_multi(rng))
    for i in range(n):
        s = gen_parse(rng)
        yield Case('parse', enc(s), {'spec': s})


def W(spec, reqs, bad='', sub='', ext='.html', vars_=(), reserved=(), ast='-'):
    return {'spec': spec, 'bad': bad, 'sub': sub, 'ext': ext, 'vars': [list(x) for x in vars_], 'reserved': list(reserved), 'ast': ast,
            'reqs': [[list(kv) for kv in r] for r in reqs]}


def _tm(statics, wild):
    return {'statics': statics, 'wild': wild}


def corpus():
    cs = []
    # D12: blank value used with a width
    tm = _tm([], ([], [[('V', 'title', '1')], [('L', 's'), ('V', 'num', None)]], []))
    cs.append(make_case(W('[$title(1), s$num]', [[('title', '')]], ast=ast_words(tm)), 'corpus'))
    cs.append(Case('asis', '1 s', {'kind': 'asis'}, 'corpus'))
    # D14: the request's bindings must survive a candidate that is already taken
    tm = _tm([], ([], [[('V', 'id', None)], [('V', 'title', None)], [('L', 's'), ('V', 'num', None)]], []))
    cs.append(make_case(W('[$id, $title, s$num]', [[('id', 'a')], [('id', 'a'), ('title', 'U')]], ast=ast_words(tm)), 'corpus'))
    # D15: word limit when blank is a forbidden character
    tm = _tm([], ([], [[('V', 'title', '2')]], []))
    cs.append(make_case(W('[$title(2)]', [[('title', 'A Tale of Two')]], bad=' ', sub='-', ast=ast_words(tm)), 'corpus'))
    # D16: bindings of the first request must not become the initial namespace
    tm = _tm([], ([], [[('V', 'id', None), ('L', '-'), ('V', 'title', None)], [('L', 's'), ('V', 'num', None)]], []))
    cs.append(make_case(W('[$id-$title, s$num]', [[('id', 'a')], [('title', 'T')]], ast=ast_words(tm)), 'corpus'))
    # D17 (O2): after the error report every later request reports the error again
    tm = _tm([], ([], [[('V', 'id', None)]], []))
    cs.append(make_case(W('[$id]', [[], [], [('id', 'x')]], ast=ast_words(tm)), 'corpus'))
    # O3: lifetime pass counter (implementation vs model only)
    cs.append(make_case(W('s$num', [[]] * 3, reserved=['s%d.html' % i for i in range(1, 100)] + ['s101.html', 's103.html']), 'corpus'))
    # give-up: 101 passes then ValueError; numbered alternative keeps advancing
    tm = _tm([[('L', 'index')]], ([], [[('V', 'id', None)]], []))
    cs.append(make_case(W('index [$id]', [[], [('id', 'index')], []], ast=ast_words(tm)), 'corpus'))
    cs.append(make_case(W('a$', [[]]), 'corpus'))
    # canonically equivalent but different strings are different names; a name is reserved in its exact spelling only
    tm = _tm([[('L', 'index')]], ([], [[('V', 'id', None)], [('L', 'sect'), ('V', 'num', '3')]], []))
    cs.append(make_case(W('index [$id, sect$num(3)]', [[], [('id', 'r\u00e9sum\u00e9')], [('id', 're\u0301sume\u0301')], [('id', 'r\u00e9sum\u00e9')],
                                                       [('id', 'A\u030angstro\u0308m')], []],
                          bad=DEFAULT_BAD, sub='-', vars_=[('jobname', 'cv')], reserved=['\u00c5ngstr\u00f6m.html'], ast=ast_words(tm)), 'corpus'))
    # two objects created without a namespace: a binding made on one must not be seen by the other
    def G(spec, tm, ext):
        return {'spec': spec, 'bad': '', 'sub': '', 'ext': ext, 'vars': [], 'reserved': [], 'ast': ast_words(tm)}
    pages = G('index [$id, sect$num(2)]', _tm([[('L', 'index')]], ([], [[('V', 'id', None)], [('L', 'sect'), ('V', 'num', '2')]], [])), '.html')
    images = G('[$id, img$num(2)]', _tm([], ([], [[('V', 'id', None)], [('L', 'img'), ('V', 'num', '2')]], [])), '.png')
    cs.append(make_multi({'gens': [pages, images], 'style': 'omit',
                          'ops': [['N', 0], ['N', 1], ['C', 0], ['B', 0, [['id', 'intro']]], ['C', 1], ['C', 0], ['C', 0], ['C', 1]]}, 'corpus'))
    first = G('[$title(2), part$num]', _tm([], ([], [[('V', 'title', '2')], [('L', 'part'), ('V', 'num', None)]], [])), '.html')
    second = G('[$title(2), chunk$num]', _tm([], ([], [[('V', 'title', '2')], [('L', 'chunk'), ('V', 'num', None)]], [])), '.html')
    cs.append(make_multi({'gens': [first, second], 'style': 'omit',
                          'ops': [['N', 0], ['B', 0, [['title', 'A Long Title']]], ['N', 1], ['C', 0], ['C', 1], ['C', 1], ['C', 0]]}, 'corpus'))
    # the same template twice: the taken sets are per object
    cs.append(make_multi({'gens': [images, dict(images)], 'style': 'omit',
                          'ops': [['N', 0], ['N', 1], ['C', 0], ['C', 1], ['B', 1, [['id', 'x']]], ['C', 1], ['B', 0, [['id', 'x']]], ['C', 0]]}, 'corpus'))
    cs.append(make_case(W('$title(2)-$title', [[('title', 'a b c')]]), 'corpus'))
    cs.append(Case('parse', enc('a$b(2)c ${ x }( 4 ) [ a , b ]z  q'), {'spec': 'a$b(2)c ${ x }( 4 ) [ a , b ]z  q'}, 'corpus'))
    cs.append(Case('parse', enc('p[,a]x [b'), {'spec': 'p[,a]x [b'}, 'corpus'))
    return cs


def nontrivial(o):
    if o.case.stream == 'multi':
        return o.spec not in ('-', '') and o.spec.count('=s') >= 2
    if o.case.stream != 'fname' or o.spec in ('-', ''):
        return False
    rs = o.spec[2:].split()
    return len(rs) >= 2 and any(r.startswith('s') for r in rs)


# ---------------------------------------------------------------- implementation side

def canon_exc(e):
    n = type(e).__name__
    return 'err:' + n if n in ('IndexError', 'ValueError', 'KeyError', 'TypeError') else 'err:other:' + n


_timeouts = [0]


class _Looping(BaseException):
    pass


def _guarded(f):
    """one call of the real object under a short wall-clock budget (a looping generator is a violation,
    not a harness failure); after three time-outs the budget drops so that a looping mutant cannot stall the run"""
    import signal
    budget = 2.0 if _timeouts[0] < 3 else 0.05

    def on_alarm(*a):
        raise _Looping()
    old = signal.signal(signal.SIGALRM, on_alarm)
    signal.setitimer(signal.ITIMER_REAL, budget)
    try:
        return f()
    finally:
        signal.setitimer(signal.ITIMER_REAL, 0)
        signal.signal(signal.SIGALRM, old)
        signal.alarm(CASE_TIMEOUT)


def _reset_defaults():
    """case hygiene: a mutable default argument of the constructor would carry state from one case into the next
    and make a failure unreplayable; empty such containers before every case (within a case they act as the code says)"""
    from plasTeX.Filenames import Filenames
    fn = Filenames.__init__
    for d in list(fn.__defaults__ or ()) + list((fn.__kwdefaults__ or {}).values()):
        if isinstance(d, (dict, list, set)):
            d.clear()


def construct(g, style):
    """build the real object the way a caller would: `explicit` passes every argument positionally,
    `omit` leaves out each optional argument whose value is empty (so the constructor's defaults are used)"""
    from plasTeX.Filenames import Filenames
    charsub = (g['bad'], g['sub']) if (g['bad'] or g['sub']) else None
    if style == 'omit':
        kw = {}
        if charsub:
            kw['charsub'] = charsub
        if g['vars']:
            kw['variables'] = dict((k, v) for k, v in g['vars'])
        if g['ext']:
            kw['extension'] = g['ext']
        if g['reserved']:
            kw['invalid'] = dict.fromkeys(g['reserved'])
        return Filenames(g['spec'], **kw)
    return Filenames(g['spec'], charsub, dict((k, v) for k, v in g['vars']), g['ext'], dict.fromkeys(g['reserved']))


def _call(f):
    """one guarded call -> (canonical result, stop?)"""
    try:
        r = _guarded(f)
        return ('none' if r is None else (enc(r) if isinstance(r, str) else 'bad:' + type(r).__name__)), False
    except _Looping:
        _timeouts[0] += 1
        return 'err:timeout', True
    except Exception as e:
        return canon_exc(e), False


def run_real(meta):
    _reset_defaults()
    try:
        f = construct(meta, meta.get('style', 'explicit'))
    except Exception as e:
        return 'ctor-' + canon_exc(e)
    out = []
    for b in meta['reqs']:
        f.variables.update(dict((k, v) for k, v in b))
        r, stop = _call(f)
        out.append(r)
        if stop:
            break
    return ' '.join(out)


def run_multi(meta):
    _reset_defaults()
    objs = {}
    out = []
    for op in meta['ops']:
        i = op[1]
        if op[0] == 'N':
            try:
                objs[i] = construct(meta['gens'][i], meta.get('style', 'omit'))
            except Exception as e:
                return 'ctor-' + canon_exc(e)
        elif op[0] == 'B':
            objs[i].variables.update(dict((k, v) for k, v in op[2]))
        else:
            r, stop = _call(objs[i])
            out.append('%d=%s' % (i, r))
            if stop:
                break
    return ' '.join(out)


def show_items(files):
    out = []
    for x in files:
        if isinstance(x, str):
            out.append('N' + enc(x))
        elif isinstance(x, list) and all(isinstance(y, str) for y in x):
            out.append('L' + '/'.join(enc(y) for y in x))
        else:
            out.append('X')
    return ' '.join(out)


def impl(case, aux):
    if case.stream == 'fname':
        return 'h:' + run_real(case.meta)
    if case.stream == 'multi':
        return 'm:' + run_multi(case.meta)
    if case.stream == 'parse':
        from plasTeX.Filenames import Filenames
        try:
            return 'p:' + show_items(Filenames(case.meta['spec']).files)
        except Exception as e:
            return 'p:' + canon_exc(e)
    if case.stream == 'asis':
        # the repaired word limit, observed through the real object
        n, v = case.line.split()
        val = ''.join(chr(int(x)) for x in v[1:].split(',') if x)
        return 'w:' + run_real(W('[x${t}(%s)]' % n, [[('t', val)]], ext=''))
    raise ValueError(case.stream)


def judge(o):
    if o.case.stream == 'asis':
        # model (pinned loop) raises IndexError; the code must behave like the repaired loop: `x` + limited words
        want = 'w:s120' + (',' + o.spec[3:] if len(o.spec) > 3 else '')
        o.corr_ok = o.prop_ok = (o.impl == want)
        return
    if o.model == 'unsupported':
        o.note = 'outside the model (second [ in one name)'
        o.corr_ok = o.prop_ok = True
        return
    o.corr_ok = (o.impl == o.model)
    o.prop_ok = (o.spec == '-' or o.impl == o.spec)
    if o.case.stream == 'fname' and o.spec != '-' and o.prop_ok:
        # the clauses that can be read off the observation alone
        names = [r for r in o.impl[2:].split() if r.startswith('s')]
        res = {enc(r) for r in o.case.meta['reserved']}
        if len(set(names)) != len(names) or res & set(names):
            o.prop_ok = False
            o.note = 'duplicate or reserved name issued'


# ---------------------------------------------------------------- shrink / search

def _variants(meta):
    reqs = meta['reqs']
    for i in range(len(reqs) - 1, -1, -1):
        yield dict(meta, reqs=reqs[:i] + reqs[i + 1:])
    for i, r in enumerate(reqs):
        for j in range(len(r)):
            yield dict(meta, reqs=reqs[:i] + [r[:j] + r[j + 1:]] + reqs[i + 1:])
    for i in range(len(meta['reserved'])):
        yield dict(meta, reserved=meta['reserved'][:i] + meta['reserved'][i + 1:])
    for i in range(len(meta['vars'])):
        yield dict(meta, vars=meta['vars'][:i] + meta['vars'][i + 1:])
    if meta['bad']:
        yield dict(meta, bad='', sub='')
        if len(meta['bad']) > 1:
            for c in meta['bad']:
                if c not in meta['sub']:
                    yield dict(meta, bad=c)


def _variants_multi(meta):
    ops, gens = meta['ops'], meta['gens']
    for i in range(len(ops) - 1, -1, -1):
        if ops[i][0] != 'N':
            yield dict(meta, ops=ops[:i] + ops[i + 1:])
    for i, op in enumerate(ops):
        if op[0] == 'B':
            for j in range(len(op[2])):
                if len(op[2]) > 1:
                    yield dict(meta, ops=ops[:i] + [['B', op[1], op[2][:j] + op[2][j + 1:]]] + ops[i + 1:])
    # drop the last object when nothing but its construction refers to it
    last = len(gens) - 1
    if last >= 1 and not any(op[1] == last and op[0] != 'N' for op in ops):
        yield dict(meta, gens=gens[:last], ops=[op for op in ops if op[1] != last])
    for gi, g in enumerate(gens):
        for key in ('reserved', 'vars'):
            if g[key]:
                yield dict(meta, gens=gens[:gi] + [dict(g, **{key: []})] + gens[gi + 1:])
        if g['bad']:
            yield dict(meta, gens=gens[:gi] + [dict(g, bad='', sub='')] + gens[gi + 1:])


def shrink(ctx, o, evaluate, pred=None):
    """greedy: drop requests / schedule steps, bindings, reserved names, initial variables, forbidden characters
    while the failure stays"""
    if o.case.stream not in ('fname', 'multi'):
        return o
    multi = o.case.stream == 'multi'
    pred = pred or (lambda r: not r.prop_ok)
    best = o
    for _ in range(60):
        if multi:
            cands = [make_multi(m, 'shrink') for m in _variants_multi(best.case.meta)]
        else:
            cands = [make_case(m, 'shrink') for m in _variants(best.case.meta)]
        if not cands:
            break
        hit = next((r for r in evaluate(cands) if pred(r) and r.model != 'unsupported'), None)
        if hit is None:
            break
        best = hit
    return best


def search(ctx, evaluate, corr_bad):
    """proof/tie broken but no spec mismatch in the main batch: the disagreeing histories re-judged against the Spec
    oracle after shrinking, the exhaustive scope one size larger, and a larger seeded batch of in-domain histories"""
    import random
    rng = random.Random(ctx.seed + 7919)
    cases = []
    for o in corr_bad[:20]:
        if o.case.stream in ('fname', 'multi'):
            s = shrink(ctx, o, evaluate, pred=lambda r: not r.corr_ok)
            cases.append(s.case)
    cases += list(exhaustive('thorough'))[:20000]
    cases += [make_case(gen_valid(rng), 'search') for _ in range(15000)]
    cases += [make_multi(gen_multi(rng), 'search') for _ in range(5000)]
    bad = [o for o in evaluate(cases) if not o.prop_ok]
    if bad:
        o = shrink(ctx, bad[0], evaluate)
        return Violation('implementation differs from the property oracle (found by search)',
                         {'kind': 'failing-input', 'outcome': o.to_json()})
    return None
