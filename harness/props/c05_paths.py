"""C05 translator (path clause): control-flow skeletons of the argument readers of plasTeX/TeX.py.

`gen_argpaths()` parses the *current* `plasTeX/TeX.py` with `ast` on every run and emits, for each function of
FUNCTIONS (class TeX), a term of `PlasVerif.Model.EnableBalance.Prog` into `PlasVerif/Generated/ArgPaths.lean`.
The Lean side then checks `balanced` on every skeleton (`Proofs/EnableBalanceTable.lean`, `decide`) and
`Proofs/EnableBalance.lean` proves that `balanced` covers every path of the skeleton's trace semantics.

What the skeleton keeps (everything else is abstracted, nothing is silently dropped):
  * an expression statement that is exactly `ParameterCommand.enable()` / `ParameterCommand.disable()`  -> enable / disable
  * statement sequence                        -> seq (skips are dropped inside sequences; an empty block is skip)
  * `if/elif/else`                            -> choice (condition abstracted; a missing else is skip)
  * `for` / `while` (+ optional `else:`)      -> loop body orelse  (iteration count abstracted, >= 0; break/continue kept)
  * `return` -> ret, `raise` -> raise (raise-exits are exempt from the balance), `break` -> brk, `continue` -> cont
  * `try: B except E1: H1 except E2: H2`      -> tryCatch B (choice H1 H2).  The Lean semantics lets an exception
    escape at every statement boundary (Exec.abort), so the handlers can start after any statement prefix of B with
    the counter reached there; a bare `raise` in a handler is a raise-exit; an uncaught exception is a raise-exit.
    (An exception is assumed not to arrive from *inside* an enable/disable call or with a callee's net already
    applied: a callee that raises is exempt itself, and the only handler of the anchored code that resumes,
    `except KeyError: pass`, guards a dictionary lookup.)
    `try: B except: H else: E` -> tryCatch (B; E) H  (over-approximation: E's exceptions may also reach H);
    `try: .. finally: F` -> tryFinally (..) F  (F runs after every outcome of the body, also return/raise/break;
    an exit statement inside F overrides).  Neither occurs in the anchored code today; both are supported so that a
    repair / rewrite using them is judged on its paths rather than reported as a broken translator.
  * `with`                                    -> its body
  * an `if` or loop whose blocks all reduce to skip is itself skip (it has exactly the traces of skip)
  * assignments, other expression statements, pass, assert, del, import, global/nonlocal -> skip
Calls to the other readers of the list (readDimen, readGlue, ...) are NOT inlined: each listed function is checked to
be balanced on its own, which makes such a call neutral on every non-raising path.
The extractor raises if the name `ParameterCommand` occurs in one of the functions in any position other than the
bare call statements above or the second argument of `isinstance(..)` (so an enable/disable hidden in a lambda, a
conditional expression, an alias or a nested def cannot be missed), and on any statement kind it does not know.
"""
import ast, os
import extract
import framework

FUNCTIONS = ['readArgumentAndSource', 'readDimen', 'readMuDimen', 'readUnitOfMeasure', 'readInteger',
             'readGlue', 'readMuGlue']
CLASS = 'TeX'
COUNTER = 'ParameterCommand'
REL = 'plasTeX/TeX.py'

NULLARY = ('skip', 'enable', 'disable', 'ret', 'raise', 'brk', 'cont')
BINARY = ('seq', 'choice', 'loop', 'tryCatch', 'tryFinally')
SIMPLE = (ast.Assign, ast.AugAssign, ast.AnnAssign, ast.Pass, ast.Assert, ast.Delete, ast.Import, ast.ImportFrom,
          ast.Global, ast.Nonlocal)


class Unsupported(Exception):
    pass


def _counter_call(stmt):
    """'enable' / 'disable' if stmt is exactly `ParameterCommand.enable()` / `.disable()`, else None"""
    if not isinstance(stmt, ast.Expr):
        return None
    c = stmt.value
    if (isinstance(c, ast.Call) and not c.args and not c.keywords and isinstance(c.func, ast.Attribute)
            and isinstance(c.func.value, ast.Name) and c.func.value.id == COUNTER
            and c.func.attr in ('enable', 'disable')):
        return c.func.attr
    return None


class _Builder:
    def __init__(self, fname):
        self.fname = fname
        self.consumed = set()      # id() of the Name nodes `ParameterCommand` accounted for

    def fail(self, node, what):
        raise Unsupported('%s line %s: %s' % (self.fname, getattr(node, 'lineno', '?'), what))

    def block(self, stmts, in_loop):
        items = [self.stmt(s, in_loop) for s in stmts]
        items = [p for p in items if p != ('skip',)]
        if not items:
            return ('skip',)
        p = items[-1]
        for q in reversed(items[:-1]):
            p = ('seq', q, p)
        return p

    @staticmethod
    def simp(p):
        """an `if` / loop all of whose blocks are plain statements is itself a plain statement (same traces as skip)"""
        return ('skip',) if p[1] == ('skip',) and p[2] == ('skip',) else p

    def stmt(self, s, in_loop):
        k = _counter_call(s)
        if k:
            self.consumed.add(id(s.value.func.value))
            return (k,)
        if isinstance(s, ast.Expr) or isinstance(s, SIMPLE):
            return ('skip',)
        if isinstance(s, ast.If):
            return self.simp(('choice', self.block(s.body, in_loop), self.block(s.orelse, in_loop)))
        if isinstance(s, (ast.For, ast.While)):
            # break/continue of the else clause belong to the enclosing loop
            return self.simp(('loop', self.block(s.body, True), self.block(s.orelse, in_loop)))
        if isinstance(s, ast.Return):
            return ('ret',)
        if isinstance(s, ast.Raise):
            return ('raise',)
        if isinstance(s, ast.Break):
            if not in_loop: self.fail(s, 'break outside loop')
            return ('brk',)
        if isinstance(s, ast.Continue):
            if not in_loop: self.fail(s, 'continue outside loop')
            return ('cont',)
        if isinstance(s, ast.With):
            return self.block(s.body, in_loop)
        if isinstance(s, ast.Try):
            body = self.block(list(s.body) + list(s.orelse), in_loop)   # else clause: see module docstring
            if s.orelse and not s.handlers:
                self.fail(s, 'try/else without handlers')
            if s.handlers:
                hs = [self.block(h.body, in_loop) for h in s.handlers]
                h = hs[-1]
                for q in reversed(hs[:-1]):
                    h = ('choice', q, h)
                body = ('tryCatch', body, h)
            if s.finalbody:
                body = ('tryFinally', body, self.block(s.finalbody, in_loop))
            elif not s.handlers:
                self.fail(s, 'try without handlers or finally')
            return body
        self.fail(s, 'statement kind %s is not handled' % type(s).__name__)

    def check_nothing_missed(self, fn):
        """every occurrence of the name ParameterCommand is a consumed call or an isinstance class argument"""
        allowed = set(self.consumed)
        for n in ast.walk(fn):
            if (isinstance(n, ast.Call) and isinstance(n.func, ast.Name) and n.func.id == 'isinstance'
                    and len(n.args) == 2 and not n.keywords):
                for m in ast.walk(n.args[1]):
                    if isinstance(m, ast.Name) and m.id == COUNTER:
                        allowed.add(id(m))
        for n in ast.walk(fn):
            if isinstance(n, ast.Name) and n.id == COUNTER and id(n) not in allowed:
                self.fail(n, 'use of %s that is not a bare enable()/disable() statement' % COUNTER)
            if isinstance(n, ast.Attribute) and n.attr in ('enable', 'disable', '_enablelevel', 'enabled') \
                    and not (isinstance(n.value, ast.Name) and id(n.value) in self.consumed):
                self.fail(n, 'attribute .%s on something that is not a bare %s call statement' % (n.attr, COUNTER))
            if isinstance(n, (ast.Yield, ast.YieldFrom, ast.Await)):
                self.fail(n, 'generator/coroutine function')


def skeleton_of(fn):
    b = _Builder(fn.name)
    p = b.block(fn.body, False)
    b.check_nothing_missed(fn)
    return p


def skeletons_of_source(text):
    """[(function name, skeleton tuple)] for FUNCTIONS of class TeX in the given source text"""
    tree = ast.parse(text)
    cls = [n for n in tree.body if isinstance(n, ast.ClassDef) and n.name == CLASS]
    if len(cls) != 1:
        raise Unsupported('class %s not found exactly once' % CLASS)
    out = []
    for name in FUNCTIONS:
        fns = [n for n in cls[0].body if isinstance(n, ast.FunctionDef) and n.name == name]
        if len(fns) != 1:
            raise Unsupported('function %s.%s found %d times' % (CLASS, name, len(fns)))
        out.append((name, skeleton_of(fns[0])))
    return out


def to_lean(p, ind=2):
    """pretty-print a skeleton; only validated constructors are emitted"""
    tag = p[0]
    if tag in NULLARY and len(p) == 1:
        return '.' + tag
    if tag in BINARY and len(p) == 3:
        flat = '(.%s %s %s)' % (tag, to_lean(p[1], 0), to_lean(p[2], 0))
        if len(flat) + ind <= 110 and '\n' not in flat:
            return flat
        pad = ' ' * ind
        if tag == 'seq':      # a right-nested chain of seq is printed at one indentation level
            items = []
            while p[0] == 'seq' and len(p) == 3:
                items.append(p[1]); p = p[2]
            return ('\n' + pad).join('(.seq ' + to_lean(q, ind + 6) for q in items) + \
                   '\n' + pad + to_lean(p, ind) + ')' * len(items)
        return '(.%s\n%s  %s\n%s  %s)' % (tag, pad, to_lean(p[1], ind + 2), pad, to_lean(p[2], ind + 2))
    raise Unsupported('bad skeleton node %r' % (p,))


def render(skels, described):
    for name, _ in skels:
        if not name.isidentifier():
            raise Unsupported('bad name %r' % name)
    defs = ['def %s : Prog :=\n  %s' % (name, to_lean(p)) for name, p in skels]
    table = ('def skeletons : List (String × Prog) :=\n  [' +
             ',\n   '.join('(%s, %s)' % (extract.lean_str(name), name) for name, _ in skels) + ']')
    return (extract.HEADER % (described, 'exact') +
            'import PlasVerif.Model.EnableBalance\n'
            'namespace PlasVerif.Generated.ArgPaths\n'
            'open PlasVerif.Model.EnableBalance\n'
            '/-! control-flow skeletons (enable/disable calls, branching, loops, exits) of the argument readers of class TeX;\n'
            '    calls to other readers are not inlined (each is checked on its own), see harness/props/c05_paths.py -/\n\n' +
            '\n\n'.join(defs) + '\n\n' + table + '\n\nend PlasVerif.Generated.ArgPaths\n')


def gen_argpaths(path=None):
    """translator entry: (relative lean path, source, mode)"""
    path = path or os.path.join(framework.REPO, REL)
    with open(path, encoding='utf-8') as f:
        text = f.read()
    skels = skeletons_of_source(text)
    src = render(skels, '%s (AST of TeX.%s)' % (REL, ', TeX.'.join(FUNCTIONS)))
    return 'PlasVerif/Generated/ArgPaths.lean', src, 'exact'


# ---- second table: the per-type character categories set for one argument are restored on every return path ----

CAT_FUNCTION = 'readArgumentAndSource'


def _restore_loop_var(fn):
    """name X of the dictionary of saved categories: the function holds exactly one loop
    `for .. in X.items()` / `list(X.items())` whose body is a single `<...>.catcode(..)` call statement"""
    found = []
    for n in ast.walk(fn):
        if not isinstance(n, ast.For):
            continue
        it = n.iter
        if isinstance(it, ast.Call) and isinstance(it.func, ast.Name) and it.func.id == 'list' and len(it.args) == 1:
            it = it.args[0]
        if not (isinstance(it, ast.Call) and isinstance(it.func, ast.Attribute) and it.func.attr == 'items'
                and isinstance(it.func.value, ast.Name) and not it.args):
            continue
        if (len(n.body) == 1 and isinstance(n.body[0], ast.Expr) and isinstance(n.body[0].value, ast.Call)
                and isinstance(n.body[0].value.func, ast.Attribute) and n.body[0].value.func.attr == 'catcode' and not n.orelse):
            found.append((n, it.func.value.id))
    if len(found) != 1:
        raise Unsupported('%s: expected exactly one restore loop over the saved categories, found %d' % (fn.name, len(found)))
    return found[0]


class _CatBuilder(_Builder):
    """`X = {}` (the dictionary of saved categories) opens the obligation (`disable`), the restore loop over `X.items()`
    discharges it (`enable`); the ParameterCommand calls are plain statements here.  Opening at the creation of X, before
    any category is changed, over-approximates: a return between the creation and the restore loop is reported even when
    no category happened to be changed on that path."""

    def __init__(self, fn):
        super().__init__(fn.name)
        self.loop, self.var = _restore_loop_var(fn)
        self.opened = 0

    def stmt(self, s, in_loop):
        if s is self.loop:
            return ('enable',)
        if (isinstance(s, ast.Assign) and len(s.targets) == 1 and isinstance(s.targets[0], ast.Name)
                and s.targets[0].id == self.var):
            if not (isinstance(s.value, ast.Dict) and not s.value.keys) or in_loop:
                self.fail(s, 'the dictionary of saved categories is re-assigned')
            self.opened += 1
            self.open_line = s.lineno
            return ('disable',)
        if _counter_call(s):
            return ('skip',)
        return super().stmt(s, in_loop)


def cat_skeleton_of_source(text):
    tree = ast.parse(text)
    cls = [n for n in tree.body if isinstance(n, ast.ClassDef) and n.name == CLASS]
    if len(cls) != 1:
        raise Unsupported('class %s not found exactly once' % CLASS)
    fns = [n for n in cls[0].body if isinstance(n, ast.FunctionDef) and n.name == CAT_FUNCTION]
    if len(fns) != 1:
        raise Unsupported('function %s.%s found %d times' % (CLASS, CAT_FUNCTION, len(fns)))
    fn = fns[0]
    b = _CatBuilder(fn)
    p = b.block(fn.body, False)
    if b.opened != 1:
        raise Unsupported('%s: the dictionary of saved categories is created %d times' % (fn.name, b.opened))
    for n in ast.walk(fn):       # every change of a category happens after the dictionary exists
        if isinstance(n, ast.Call) and isinstance(n.func, ast.Attribute) and n.func.attr in ('catcode', 'setVerbatimCatcodes') \
                and n.lineno < b.open_line:
            raise Unsupported('%s line %d: a category is changed before the saved-categories dictionary exists' % (fn.name, n.lineno))
    return [(CAT_FUNCTION + 'Cat', p)]


def gen_catpaths(path=None):
    """translator entry for the category-restoration table"""
    path = path or os.path.join(framework.REPO, REL)
    with open(path, encoding='utf-8') as f:
        text = f.read()
    skels = cat_skeleton_of_source(text)
    defs = ['def %s : Prog :=\n  %s' % (name, to_lean(p)) for name, p in skels]
    table = ('def catSkeletons : List (String × Prog) :=\n  [' +
             ',\n   '.join('(%s, %s)' % (extract.lean_str(name), name) for name, _ in skels) + ']')
    src = (extract.HEADER % ('%s (AST of TeX.%s)' % (REL, CAT_FUNCTION), 'exact') +
           'import PlasVerif.Model.EnableBalance\n'
           'namespace PlasVerif.Generated.CatPaths\n'
           'open PlasVerif.Model.EnableBalance\n'
           '/-! control-flow skeleton of TeX.readArgumentAndSource for the per-type character categories: `disable` = the\n'
           '    dictionary of saved categories is created (categories may be changed from here on), `enable` = the loop that\n'
           '    restores them; see harness/props/c05_paths.py (_CatBuilder) -/\n\n' +
           '\n\n'.join(defs) + '\n\n' + table + '\n\nend PlasVerif.Generated.CatPaths\n')
    return 'PlasVerif/Generated/CatPaths.lean', src, 'exact'


# ---- a Python twin of the Lean checker (diagnostics only: names the unbalanced exits; the verdict is Lean's) ----

def outs(p):
    """(set of (outcome, delta), all loops neutral?) - mirrors Model/EnableBalance.lean `outs` / `wf`"""
    t = p[0]
    R = ('raised', 0)
    if t == 'skip': return {R, ('normal', 0)}, True
    if t == 'enable': return {R, ('normal', 1)}, True
    if t == 'disable': return {R, ('normal', -1)}, True
    if t == 'ret': return {R, ('returned', 0)}, True
    if t == 'raise': return {R}, True
    if t == 'brk': return {R, ('broke', 0)}, True
    if t == 'cont': return {R, ('continued', 0)}, True
    A, wa = outs(p[1]); B, wb = outs(p[2])
    if t == 'seq':
        r = {x for x in A if x[0] != 'normal'} | {(o, d + e) for (k, d) in A if k == 'normal' for (o, e) in B}
    elif t == 'choice':
        r = A | B
    elif t == 'loop':
        wa = wa and all(d == 0 for (o, d) in A if o in ('normal', 'continued'))
        r = B | {('normal', d) for (o, d) in A if o == 'broke'} | {x for x in A if x[0] in ('returned', 'raised')}
    elif t == 'tryCatch':
        r = A | {(o, d + e) for (k, d) in A if k == 'raised' for (o, e) in B}
    elif t == 'tryFinally':
        r = {(o if o2 == 'normal' else o2, d + e) for (o, d) in A for (o2, e) in B}
    else:
        raise Unsupported(t)
    return r | {R}, wa and wb


def balanced(p):
    r, w = outs(p)
    return w and all(d == 0 for (o, d) in r if o in ('normal', 'returned'))


if __name__ == '__main__':
    import sys
    rel, src, mode = gen_argpaths(sys.argv[1] if len(sys.argv) > 1 else None)
    if len(sys.argv) > 2:
        framework.write_if_changed(os.path.join(framework.LEAN, rel), src)
    else:
        sys.stdout.write(src)
    with open(sys.argv[1] if len(sys.argv) > 1 else os.path.join(framework.REPO, REL), encoding='utf-8') as f:
        for name, p in skeletons_of_source(f.read()):
            sys.stderr.write('%-24s %s\n' % (name, 'balanced' if balanced(p) else 'UNBALANCED %r' % sorted(outs(p)[0])))
